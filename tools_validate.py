#!/usr/bin/env python3
"""Validates MANIFEST.json and every evidence file against the harness schemas (run with python3-vt)."""
import json, sys, glob, os
import jsonschema
here = os.path.dirname(os.path.abspath(__file__))
ok = True
def v(path, schema):
    global ok
    try:
        jsonschema.validate(json.load(open(path)), json.load(open(schema)))
        print('ok  ', path)
    except Exception as e:
        ok = False
        print('FAIL', path, str(e)[:300])
if os.path.exists(os.path.join(here, 'MANIFEST.json')):
    v(os.path.join(here, 'MANIFEST.json'), '/root/.vp/MANIFEST.schema.json')
for p in sorted(glob.glob(os.path.join(here, 'evidence', '*.json'))):
    v(p, '/root/.vp/EVIDENCE.schema.json')
sys.exit(0 if ok else 1)
