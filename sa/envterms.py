"""
Dataflow-equation conformance for analyses that thread an environment through
statement visitors (SyntaxCheck, Reachability, ...).

A visitor body is read as straight-line code over *environment terms*:

    ENTRY                         the environment the visitor was entered with
    ('bind', t, what)             t extended with a binding
    ('bind?', t, what)            t, extended on one branch only (conditional bind)
    ('out', block, t)             the result of visiting `block` under t
    ('merge', {a, b})             a.merge(b)           (commutative)
    ('or', {a, b}) / ('and', ..)  boolean join of reachability facts
    TERMINATED, EMPTY, FALSE, TRUE
    ('?', text)                   anything else

`evaluate(fn, spec)` returns the term returned by the visitor and the list of
sub-visits with the environment term each received.
"""

from __future__ import annotations

import ast
from dataclasses import dataclass, field
from typing import Any

from .facts import call_name, dotted, norm


@dataclass
class Spec:
    entry_exprs: tuple[str, ...] = ('ctx.env',)          # expressions denoting ENTRY
    ctx_param: str = 'ctx'                                # the visitor's context parameter (denotes ENTRY when passed on)
    ctx_ctor: str = '_Ctx'                                # _Ctx(env, ...) builds a context from an env term
    bind_calls: tuple[str, ...] = ('self._visit_binding',)  # f(target, env) -> bind(env, target)
    extend_attr: str = 'extend'                           # env.extend(x)
    merge_attr: str = 'merge'                             # a.merge(b)
    block_call: str = 'self._visit_block'
    expr_calls: tuple[str, ...] = ('self._visit_expr', 'self._visit_attribute')
    use_calls: tuple[str, ...] = ('self._mark_use',)
    env_ctor: str = '_Env'


@dataclass
class Result:
    ret: list[Any] = field(default_factory=list)
    visits: list[tuple[str, str, Any]] = field(default_factory=list)   # (kind, subject text, env term)
    names: dict[str, Any] = field(default_factory=dict)


def _freeze(t):
    if isinstance(t, tuple) and t and t[0] in ('merge', 'or', 'and'):
        return (t[0], frozenset(_freeze(x) for x in t[1]))
    if isinstance(t, tuple):
        return tuple(_freeze(x) for x in t)
    if isinstance(t, (set, frozenset)):
        return frozenset(_freeze(x) for x in t)
    return t


def show(t) -> str:
    t = _freeze(t)
    if isinstance(t, tuple) and t and t[0] in ('merge', 'or', 'and'):
        return f'{t[0]}(' + ', '.join(sorted(show(x) for x in t[1])) + ')'
    if isinstance(t, tuple) and t and t[0] == 'out':
        return f'out({t[1]}, {show(t[2])})'
    if isinstance(t, tuple) and t and t[0] in ('bind', 'bind?'):
        return f'{t[0]}({show(t[1])}, {t[2]})'
    if isinstance(t, tuple) and t and t[0] == '?':
        return f'<{t[1]}>'
    return str(t)


class Evaluator:
    def __init__(self, spec: Spec):
        self.spec = spec
        self.res = Result()

    # -- terms ---------------------------------------------------------------

    def term(self, e: ast.AST) -> Any:
        sp = self.spec
        d = dotted(e)
        if d in sp.entry_exprs:
            return 'ENTRY'
        if isinstance(e, ast.Name):
            if e.id in self.res.names:
                return self.res.names[e.id]
            if e.id == sp.ctx_param:
                return 'ENTRY'
            return ('?', e.id)
        if isinstance(e, ast.Constant):
            if e.value is True:
                return 'TRUE'
            if e.value is False:
                return 'FALSE'
            return ('?', repr(e.value))
        if isinstance(e, ast.BoolOp):
            op = 'or' if isinstance(e.op, ast.Or) else 'and'
            return _freeze((op, [self.term(v) for v in e.values]))
        if isinstance(e, ast.Call):
            cn = call_name(e) or ''
            if cn in sp.bind_calls and len(e.args) >= 2:
                return ('bind', self.term(e.args[1]), norm(e.args[0]))
            if isinstance(e.func, ast.Attribute) and e.func.attr == sp.extend_attr and len(e.args) == 1:
                return ('bind', self.term(e.func.value), norm(e.args[0]))
            if isinstance(e.func, ast.Attribute) and e.func.attr == sp.merge_attr and len(e.args) == 1:
                return _freeze(('merge', [self.term(e.func.value), self.term(e.args[0])]))
            if cn == sp.block_call and len(e.args) >= 2:
                t = self.ctx_term(e.args[1])
                self.res.visits.append(('block', norm(e.args[0]), t))
                return ('out', norm(e.args[0]), t)
            if cn == sp.env_ctor:
                kw = {k.arg: k.value for k in e.keywords}
                if 'terminated' in kw and isinstance(kw['terminated'], ast.Constant) and kw['terminated'].value is True:
                    return 'TERMINATED'
                if not e.args and not e.keywords:
                    return 'EMPTY'
                if e.args:
                    return self.term(e.args[0])
            if cn == sp.ctx_ctor and e.args:
                return self.term(e.args[0])
        return ('?', norm(e))

    def ctx_term(self, e: ast.AST) -> Any:
        """The environment carried by a context expression."""
        sp = self.spec
        if isinstance(e, ast.Name) and e.id == sp.ctx_param and e.id not in self.res.names:
            return 'ENTRY'
        if isinstance(e, ast.Call) and call_name(e) == sp.ctx_ctor and e.args:
            return self.term(e.args[0])
        return self.term(e)

    # -- statements -------------------------------------------------------------

    def run(self, body: list[ast.stmt]):
        sp = self.spec
        for st in body:
            if isinstance(st, ast.Expr) and isinstance(st.value, ast.Constant):
                continue
            if isinstance(st, ast.Return):
                self.res.ret.append(self.term(st.value) if st.value is not None else None)
                continue
            if isinstance(st, (ast.Assign, ast.AnnAssign)):
                tgt = st.targets[0] if isinstance(st, ast.Assign) else st.target
                val = st.value
                if val is None:
                    continue
                if isinstance(tgt, ast.Name):
                    # rebinding the context parameter itself (ctx = _Ctx(env, ...))
                    self.res.names[tgt.id] = self.ctx_term(val) if tgt.id == sp.ctx_param else self.term(val)
                else:
                    self.scan_calls(val)
                continue
            if isinstance(st, ast.Expr):
                self.scan_calls(st.value)
                continue
            if isinstance(st, ast.If):
                # conditional rebinding: `if c: env = env.extend(x)`
                before = dict(self.res.names)
                self.run(st.body)
                after_then = dict(self.res.names)
                self.res.names = dict(before)
                self.run(st.orelse)
                after_else = dict(self.res.names)
                merged = {}
                for k in set(after_then) | set(after_else):
                    a, b = after_then.get(k, before.get(k)), after_else.get(k, before.get(k))
                    if _freeze(a) == _freeze(b):
                        merged[k] = a
                    elif isinstance(a, tuple) and a and a[0] == 'bind' and _freeze(a[1]) == _freeze(b):
                        merged[k] = ('bind?', b, a[2])
                    elif isinstance(b, tuple) and b and b[0] == 'bind' and _freeze(b[1]) == _freeze(a):
                        merged[k] = ('bind?', a, b[2])
                    else:
                        merged[k] = ('?', f'{show(a)} | {show(b)}')
                self.res.names = merged
                continue
            if isinstance(st, (ast.For,)):
                self.run(st.body)
                continue
            if isinstance(st, ast.Match):
                for c in st.cases:
                    self.run(c.body)
                continue
            if isinstance(st, (ast.Raise, ast.Pass, ast.Assert)):
                continue
            self.res.visits.append(('stmt?', norm(st)[:60], None))

    def scan_calls(self, e: ast.AST):
        sp = self.spec
        for k in ast.walk(e):
            if not isinstance(k, ast.Call):
                continue
            cn = call_name(k) or ''
            if cn in sp.expr_calls and len(k.args) >= 2:
                self.res.visits.append(('expr', norm(k.args[0]), self.ctx_term(k.args[1])))
            elif cn in sp.use_calls and len(k.args) >= 2:
                self.res.visits.append(('use', norm(k.args[0]), self.term(k.args[1])))
            elif cn == sp.block_call and len(k.args) >= 2:
                self.res.visits.append(('block', norm(k.args[0]), self.ctx_term(k.args[1])))


def evaluate(fn: ast.FunctionDef, spec: Spec | None = None) -> Result:
    ev = Evaluator(spec or Spec())
    ev.run(fn.body)
    return ev.res


def merge(*ts):
    return _freeze(('merge', list(ts)))


def lor(*ts):
    return _freeze(('or', list(ts)))


def out(block: str, t):
    return ('out', block, t)


def bind(t, what: str):
    return ('bind', t, what)
