"""
Entry point:  python3 -m sa.check C01 [--tier quick|thorough] [--root /repo]

exit 0  every rule instance held (or every violation is a listed known finding)
exit 1  VIOLATION property=<id> replay=<path>
exit 2  ANALYSIS-ERROR (anchor vanished, floor missed, unknown shape, checker bug)
"""

from __future__ import annotations

import argparse
import importlib
import os
import sys
import time
import traceback


def main(argv=None) -> int:
    ap = argparse.ArgumentParser()
    ap.add_argument('prop')
    ap.add_argument('--tier', default=os.environ.get('VERIF_TIER') or 'quick', choices=['quick', 'thorough'])
    ap.add_argument('--root', default=None)
    ap.add_argument('--no-evidence', action='store_true')
    ap.add_argument('--replay', default=None, help='print a stored replay record and re-run the property')
    args = ap.parse_args(argv)
    prop = args.prop.upper()

    from . import core
    from .facts import Repo

    if args.replay:
        try:
            with open(args.replay) as f:
                print(f.read())
        except OSError as e:
            print(f'cannot read replay file: {e}')

    try:
        mod = importlib.import_module(f'sa.props.{prop.lower()}')
    except ModuleNotFoundError:
        print(f'ANALYSIS-ERROR property={prop} no rule module sa/props/{prop.lower()}.py')
        return 2

    t0 = time.time()
    try:
        repo = Repo(args.root)
        res = core.run_rules(repo, mod.RULES, prop, args.tier)
        extra = {}
        if args.tier == 'thorough':
            from . import selftest
            st = selftest.run_for(prop, root=args.root)
            extra.update(st.coverage())
            for line in st.lines:
                print(line)
            res.errors += st.errors
        res.wall = time.time() - t0
        return core.report(res, mod.EXPLANATION, mod.ASSUMPTIONS, write_evidence=not args.no_evidence,
                           extra_cov=extra)
    except Exception as e:
        print(f'ANALYSIS-ERROR property={prop} checker raised {type(e).__name__}: {e}')
        traceback.print_exc(limit=8, file=sys.stdout)
        return 2


if __name__ == '__main__':
    sys.exit(main())
