"""
Table extraction by evaluation: a reader for the small pure functions that
*are* decision tables (flag algebra over four atoms, refinement rules keyed by
the shape of a condition).  The function's source is evaluated by this module
over stand-in values drawn from a finite abstract domain that the caller
enumerates exhaustively; nothing of the repository is imported or run.

Supported: the expression and statement forms those table functions use
(names, constants, attributes of stand-ins, subscripts and slices, tuples and
lists, `& | + - *`, boolean operators, comparisons incl. `is` / `in`,
conditional expressions, comprehensions, calls to a few builtins, to functions
the caller supplies, and to other functions of the same module / class, which
are read the same way), `if`, `for`, `match` on stand-in kinds, assignments,
augmented assignments, `return`.  Anything else raises ShapeError, which the
driver reports as an analysis error rather than a verdict.
"""

from __future__ import annotations

import ast
from fractions import Fraction
from typing import Any, Callable, Optional

from .facts import ShapeError


class Obj:
    """A stand-in for an object: a kind (class name) and fields."""

    def __init__(self, kind: str, **fields: Any):
        self.kind = kind
        self.fields = fields

    def __repr__(self):
        return f'{self.kind}({", ".join(f"{k}={v!r}" for k, v in self.fields.items() if not callable(v))})'

    # `==` on a stand-in is what the caller says the real class's `==` is (field `eq`), else identity
    def __eq__(self, other):
        f = self.fields.get('eq')
        return f(self, other) if f is not None else self is other

    def __ne__(self, other):
        return not self.__eq__(other)

    def __hash__(self):
        return id(self)

    # arithmetic on a stand-in is what the caller says it is (fields `add`, `neg`), else unsupported
    def __add__(self, other):
        f = self.fields.get('add')
        if f is None:
            raise ShapeError(f'stand-in {self.kind} has no `+`')
        return f(self, other)

    def __neg__(self):
        f = self.fields.get('neg')
        if f is None:
            raise ShapeError(f'stand-in {self.kind} has no unary `-`')
        return f(self)


class _Return(Exception):
    def __init__(self, value):
        self.value = value


class _Continue(Exception):
    pass


class _Break(Exception):
    pass


BUILTINS: dict[str, Callable] = {
    'len': len, 'zip': lambda *a, **k: list(zip(*a)), 'list': list, 'tuple': tuple, 'range': range, 'all': all, 'any': any,
    'enumerate': lambda x: list(enumerate(x)), 'max': max, 'min': min, 'abs': abs, 'bool': bool, 'int': int, 'set': set, 'sorted': sorted,
    'float': float, 'type': type, 'str': str, 'repr': repr, 'frozenset': frozenset, 'id': id, 'divmod': divmod, 'round': round,
}


class Interp:
    def __init__(self, functions: dict[str, ast.FunctionDef], methods: dict[str, ast.FunctionDef] | None = None,
                 globals_: dict[str, Any] | None = None, is_a: Callable[[str, str], bool] | None = None,
                 overrides: dict[str, Callable] | None = None, self_obj: Any = None, fuel: int = 200000):
        self.functions = functions          # module-level functions by name
        self.methods = methods or {}        # methods of the class under study, by name
        self.globals = dict(globals_ or {})
        self.is_a = is_a or (lambda k, c: k == c)
        self.overrides = overrides or {}    # 'name' or 'self.name' -> python callable
        self.self_obj = self_obj
        self.fuel = fuel

    # -- calls -----------------------------------------------------------------

    def call_function(self, fn: ast.FunctionDef, args: list[Any], kwargs: dict[str, Any] | None = None, bound_self: bool = False) -> Any:
        env: dict[str, Any] = {}
        params = [a.arg for a in fn.args.args]
        if bound_self and params and params[0] == 'self':
            env['self'] = self.self_obj
            params = params[1:]
        defaults = fn.args.defaults
        for i, p in enumerate(params):
            if i < len(args):
                env[p] = args[i]
            elif kwargs and p in kwargs:
                env[p] = kwargs[p]
            else:
                di = i - (len(params) - len(defaults))
                if di < 0:
                    raise ShapeError(f'{fn.name}: missing argument {p}')
                env[p] = self.ev(defaults[di], {})
        if fn.args.vararg is not None:
            env[fn.args.vararg.arg] = tuple(args[len(params):])
        if fn.args.kwarg is not None:
            named = set(params) | {a.arg for a in fn.args.kwonlyargs}
            env[fn.args.kwarg.arg] = {k: v for k, v in (kwargs or {}).items() if k not in named}
        for a, d in zip(fn.args.kwonlyargs, fn.args.kw_defaults):
            env[a.arg] = (kwargs or {}).get(a.arg, self.ev(d, {}) if d is not None else None)
        try:
            self.run(fn.body, env)
        except _Return as r:
            return r.value
        return None

    def run_stmts(self, stmts: list[ast.stmt], env: dict[str, Any]) -> Any:
        """Evaluates a statement list (a slice of a function body) and gives back what it returns."""
        try:
            self.run(stmts, env)
        except _Return as r:
            return r.value
        return None

    # -- expressions -------------------------------------------------------------

    def ev(self, e: ast.AST, env: dict[str, Any]) -> Any:
        self.fuel -= 1
        if self.fuel < 0:
            raise ShapeError('table evaluation did not terminate')
        if isinstance(e, ast.Constant):
            return e.value
        if isinstance(e, ast.Name):
            if e.id in env:
                return env[e.id]
            if e.id in self.globals:
                return self.globals[e.id]
            if e.id in ('True', 'False', 'None'):
                return {'True': True, 'False': False, 'None': None}[e.id]
            raise ShapeError(f'name `{e.id}` has no table value')
        if isinstance(e, ast.Attribute):
            if isinstance(e.value, ast.Name) and e.value.id not in env and e.value.id not in self.globals:
                # an enum member such as CompareOp.NE
                return ('enum', e.value.id, e.attr)
            base = self.ev(e.value, env)
            if isinstance(base, Obj):
                if e.attr in base.fields:
                    return base.fields[e.attr]
                m = self.methods.get(e.attr)
                if m is not None and any(isinstance(d, ast.Name) and d.id == 'property' for d in m.decorator_list):
                    # a property of the class under study, read from its source with `self` = the stand-in
                    saved, self.self_obj = self.self_obj, base
                    try:
                        return self.call_function(m, [], bound_self=True)
                    finally:
                        self.self_obj = saved
                raise ShapeError(f'stand-in {base.kind} has no field `{e.attr}`')
            if isinstance(base, dict) and e.attr in base:
                return base[e.attr]
            if isinstance(base, Fraction) and e.attr in ('numerator', 'denominator'):
                return getattr(base, e.attr)
            raise ShapeError(f'attribute `{ast.unparse(e)}` on {type(base).__name__}')
        if isinstance(e, ast.Subscript):
            base = self.ev(e.value, env)
            if isinstance(e.slice, ast.Slice):
                lo = self.ev(e.slice.lower, env) if e.slice.lower is not None else None
                hi = self.ev(e.slice.upper, env) if e.slice.upper is not None else None
                return base[lo:hi]
            return base[self.ev(e.slice, env)]
        if isinstance(e, ast.Tuple):
            return tuple(self._seq(e.elts, env))
        if isinstance(e, ast.List):
            return list(self._seq(e.elts, env))
        if isinstance(e, ast.Dict):
            out: dict = {}
            for k, v in zip(e.keys, e.values):
                if k is None:
                    out.update(self.ev(v, env))
                else:
                    out[self.ev(k, env)] = self.ev(v, env)
            return out
        if isinstance(e, ast.Set):
            return set(self._seq(e.elts, env))
        if isinstance(e, ast.BinOp):
            a, b = self.ev(e.left, env), self.ev(e.right, env)
            op = type(e.op)
            if op is ast.BitAnd:
                return a & b
            if op is ast.BitOr:
                return a | b
            if op is ast.Add:
                return a + b
            if op is ast.Sub:
                return a - b
            if op is ast.Mult:
                return a * b
            if op in (ast.LShift, ast.RShift, ast.FloorDiv, ast.Mod, ast.Pow, ast.BitXor) and all(isinstance(x, int) and not isinstance(x, bool) for x in (a, b)):
                if op is ast.Pow and not 0 <= b <= 4096 or op in (ast.LShift, ast.RShift) and not 0 <= b <= 4096:
                    raise ShapeError(f'exponent / shift out of the modelled range in `{ast.unparse(e)}`')
                if op in (ast.FloorDiv, ast.Mod) and b == 0:
                    raise ZeroDivisionError(ast.unparse(e))
                return {ast.LShift: lambda: a << b, ast.RShift: lambda: a >> b, ast.FloorDiv: lambda: a // b, ast.Mod: lambda: a % b,
                        ast.Pow: lambda: a ** b, ast.BitXor: lambda: a ^ b}[op]()
            raise ShapeError(f'operator in `{ast.unparse(e)}`')
        if isinstance(e, ast.UnaryOp):
            v = self.ev(e.operand, env)
            if isinstance(e.op, ast.Not):
                return not v
            if isinstance(e.op, ast.USub):
                return -v
            if isinstance(e.op, ast.Invert):
                return ~v
            raise ShapeError(f'operator in `{ast.unparse(e)}`')
        if isinstance(e, ast.BoolOp):
            v: Any = None
            for x in e.values:
                v = self.ev(x, env)
                if isinstance(e.op, ast.And) and not v:
                    return v
                if isinstance(e.op, ast.Or) and v:
                    return v
            return v
        if isinstance(e, ast.Compare):
            left = self.ev(e.left, env)
            for op, c in zip(e.ops, e.comparators):
                right = self.ev(c, env)
                t = type(op)
                if t in (ast.Is, ast.IsNot):
                    same = left is right or (type(left) is type(right) and isinstance(left, (tuple, str, int, bool, type(None))) and left == right)
                    r = same if t is ast.Is else not same
                elif t is ast.Eq:
                    r = left == right
                elif t is ast.NotEq:
                    r = left != right
                elif t is ast.Lt:
                    r = left < right
                elif t is ast.LtE:
                    r = left <= right
                elif t is ast.Gt:
                    r = left > right
                elif t is ast.GtE:
                    r = left >= right
                elif t is ast.In:
                    r = left in right
                elif t is ast.NotIn:
                    r = left not in right
                else:
                    raise ShapeError(f'comparison in `{ast.unparse(e)}`')
                if not r:
                    return False
                left = right
            return True
        if isinstance(e, ast.IfExp):
            return self.ev(e.body if self.ev(e.test, env) else e.orelse, env)
        if isinstance(e, (ast.ListComp, ast.GeneratorExp, ast.SetComp)):
            out: list[Any] = []
            self._comp(e.generators, 0, dict(env), lambda en: out.append(self.ev(e.elt, en)))
            return set(out) if isinstance(e, ast.SetComp) else out
        if isinstance(e, ast.DictComp):
            pairs: list[Any] = []
            self._comp(e.generators, 0, dict(env), lambda en: pairs.append((self.ev(e.key, en), self.ev(e.value, en))))
            return dict(pairs)
        if isinstance(e, ast.Call):
            return self.call(e, env)
        if isinstance(e, ast.JoinedStr):
            return ''.join(str(self.ev(v.value, env)) if isinstance(v, ast.FormattedValue) else str(v.value) for v in e.values)  # type: ignore
        if isinstance(e, ast.Starred):
            raise ShapeError('starred expression outside a sequence')
        raise ShapeError(f'expression `{ast.unparse(e)[:60]}` not read')

    def _seq(self, elts: list[ast.expr], env) -> list[Any]:
        out: list[Any] = []
        for x in elts:
            if isinstance(x, ast.Starred):
                out.extend(self.ev(x.value, env))
            else:
                out.append(self.ev(x, env))
        return out

    def _comp(self, gens: list[ast.comprehension], i: int, env: dict[str, Any], emit: Callable):
        if i == len(gens):
            emit(env)
            return
        g = gens[i]
        for item in self.ev(g.iter, env):
            en = dict(env)
            self.bind(g.target, item, en)
            if all(self.ev(c, en) for c in g.ifs):
                self._comp(gens, i + 1, en, emit)

    def call(self, k: ast.Call, env: dict[str, Any]) -> Any:
        f = k.func
        if isinstance(f, ast.Name) and f.id == 'isinstance' and len(k.args) == 2:
            return self._isinstance(self.ev(k.args[0], env), k.args[1])
        args = self._seq(k.args, env)
        kwargs = {kw.arg: self.ev(kw.value, env) for kw in k.keywords if kw.arg is not None}
        if isinstance(f, ast.Name):
            n = f.id
            if n in self.overrides:
                return self.overrides[n](*args, **kwargs)
            if n in env and callable(env[n]):
                return env[n](*args, **kwargs)
            if n in self.functions:
                return self.call_function(self.functions[n], args, kwargs)
            if n in BUILTINS:
                return BUILTINS[n](*args, **kwargs)
            raise ShapeError(f'call to `{n}` has no table reading')
        if isinstance(f, ast.Attribute):
            if isinstance(f.value, ast.Name) and f.value.id == 'self':
                key = f'self.{f.attr}'
                if key in self.overrides:
                    return self.overrides[key](*args, **kwargs)
                if f.attr in self.methods:
                    return self.call_function(self.methods[f.attr], args, kwargs, bound_self=True)
                raise ShapeError(f'method `{key}` has no table reading')
            dotted_name = ast.unparse(f)
            if dotted_name in self.overrides:
                return self.overrides[dotted_name](*args, **kwargs)
            base = self.ev(f.value, env)
            if isinstance(base, Obj):
                m = base.fields.get(f.attr)
                if callable(m):
                    return m(*args, **kwargs)
                if f.attr in self.methods:
                    # a method of the class under study called on another stand-in (`other._f(self)`)
                    saved, self.self_obj = self.self_obj, base
                    try:
                        return self.call_function(self.methods[f.attr], args, kwargs, bound_self=True)
                    finally:
                        self.self_obj = saved
                raise ShapeError(f'stand-in {base.kind} has no method `{f.attr}`')
            if isinstance(base, str) and f.attr in ('startswith', 'endswith', 'lstrip', 'rstrip', 'strip', 'lower', 'upper', 'removeprefix', 'removesuffix', 'join', 'split', 'replace', 'encode', 'format'):
                return getattr(base, f.attr)(*args, **kwargs)
            if isinstance(base, int) and not isinstance(base, bool) and f.attr in ('bit_length', 'bit_count'):
                return getattr(base, f.attr)(*args, **kwargs)
            if isinstance(base, (list, dict, set, tuple)) and f.attr in ('append', 'extend', 'get', 'items', 'keys', 'values', 'add', 'copy', 'index', 'count', 'pop', 'discard', 'remove', 'update', 'setdefault'):
                return getattr(base, f.attr)(*args, **kwargs)
            raise ShapeError(f'call `{ast.unparse(f)}` has no table reading')
        if isinstance(f, (ast.Call, ast.Subscript, ast.IfExp)):
            # the callee is itself computed (`table[op](...)`, `self._pick(op)(*args)`)
            target = self.ev(f, env)
            if callable(target):
                return target(*args, **kwargs)
        raise ShapeError(f'call `{ast.unparse(k)[:60]}` not read')

    def _isinstance(self, v: Any, cls_expr: ast.AST) -> bool:
        names: list[str] = []
        for n in (cls_expr.elts if isinstance(cls_expr, ast.Tuple) else [cls_expr]):
            if isinstance(n, ast.BinOp) and isinstance(n.op, ast.BitOr):
                stack = [n]
                while stack:
                    x = stack.pop()
                    if isinstance(x, ast.BinOp):
                        stack += [x.left, x.right]
                    else:
                        names.append(ast.unparse(x))
            else:
                names.append(ast.unparse(n))
        if isinstance(v, Obj):
            return any(self.is_a(v.kind, c) for c in names)
        py = {'int': int, 'bool': bool, 'str': str, 'tuple': tuple, 'list': list, 'float': float, 'NoneType': type(None), 'Fraction': Fraction}
        return any(c in py and isinstance(v, py[c]) for c in names)

    # -- statements ------------------------------------------------------------

    def bind(self, target: ast.AST, v: Any, env: dict[str, Any]):
        if isinstance(target, ast.Name):
            env[target.id] = v
        elif isinstance(target, (ast.Tuple, ast.List)):
            vs = list(v)
            if len(vs) != len(target.elts):
                raise ShapeError(f'cannot unpack {len(vs)} values into `{ast.unparse(target)}`')
            for t, x in zip(target.elts, vs):
                self.bind(t, x, env)
        elif isinstance(target, ast.Subscript):
            self.ev(target.value, env)[self.ev(target.slice, env)] = v
        elif isinstance(target, ast.Attribute) and isinstance(self.ev(target.value, env), Obj):
            self.ev(target.value, env).fields[target.attr] = v
        else:
            raise ShapeError(f'assignment target `{ast.unparse(target)}`')

    def match_pattern(self, p: ast.pattern, v: Any, env: dict[str, Any]) -> bool:
        if isinstance(p, ast.MatchAs):
            if p.pattern is not None and not self.match_pattern(p.pattern, v, env):
                return False
            if p.name:
                env[p.name] = v
            return True
        if isinstance(p, ast.MatchOr):
            return any(self.match_pattern(x, v, env) for x in p.patterns)
        if isinstance(p, ast.MatchClass):
            cname = ast.unparse(p.cls)
            native = {'int': int, 'float': float, 'str': str, 'bool': bool, 'Fraction': __import__('fractions').Fraction, 'list': list, 'tuple': tuple, 'dict': dict}
            if cname in native and not isinstance(v, Obj):
                if cname == 'int' and isinstance(v, bool):
                    return not p.patterns and not p.kwd_attrs      # bool is an int, as in Python
                return isinstance(v, native[cname]) and not p.patterns and not p.kwd_attrs
            if not (isinstance(v, Obj) and self.is_a(v.kind, cname)):
                return False
            if p.patterns:
                raise ShapeError('positional class patterns are not read')
            for k, sp in zip(p.kwd_attrs, p.kwd_patterns):
                if k not in v.fields or not self.match_pattern(sp, v.fields[k], env):
                    return False
            return True
        if isinstance(p, ast.MatchValue):
            return self.ev(p.value, env) == v
        if isinstance(p, ast.MatchSingleton):
            return v is p.value
        if isinstance(p, ast.MatchSequence):
            if not isinstance(v, (tuple, list)):
                return False
            stars = [i for i, sp in enumerate(p.patterns) if isinstance(sp, ast.MatchStar)]
            if len(stars) == 1:
                i = stars[0]
                tail = len(p.patterns) - i - 1
                if len(v) < len(p.patterns) - 1:
                    return False
                head_ok = all(self.match_pattern(sp, x, env) for sp, x in zip(p.patterns[:i], v[:i]))
                tail_ok = all(self.match_pattern(sp, x, env) for sp, x in zip(p.patterns[i + 1:], v[len(v) - tail:] if tail else []))
                if head_ok and tail_ok:
                    name = p.patterns[i].name       # type: ignore
                    if name is not None:
                        env[name] = list(v[i:len(v) - tail])
                    return True
                return False
            if stars or len(v) != len(p.patterns):
                return False
            return all(self.match_pattern(sp, x, env) for sp, x in zip(p.patterns, v))
        raise ShapeError(f'pattern `{ast.unparse(p)}` not read')

    def run(self, stmts: list[ast.stmt], env: dict[str, Any]):
        for st in stmts:
            self.fuel -= 1
            if self.fuel < 0:
                raise ShapeError('table evaluation did not terminate')
            if isinstance(st, ast.Expr):
                if not isinstance(st.value, ast.Constant):
                    self.ev(st.value, env)
            elif isinstance(st, ast.Pass):
                continue
            elif isinstance(st, ast.FunctionDef) and not st.decorator_list:
                # a local helper: called with the enclosing names visible (read-only closure)
                def closure(*a, _st=st, _env=env, **k):
                    inner = dict(_env)
                    names = [p.arg for p in _st.args.args]
                    if len(a) > len(names):
                        raise ShapeError(f'{_st.name}: too many arguments')
                    inner.update(zip(names, a))
                    inner.update(k)
                    missing = [p for p in names[len(a):] if p not in k]
                    for p, d in zip(reversed(names), reversed(_st.args.defaults)):
                        if p in missing:
                            inner[p] = self.ev(d, _env)
                            missing.remove(p)
                    if missing:
                        raise ShapeError(f'{_st.name}: missing argument {missing[0]}')
                    try:
                        self.run(_st.body, inner)
                    except _Return as r:
                        return r.value
                    return None
                env[st.name] = closure
            elif isinstance(st, ast.Return):
                raise _Return(self.ev(st.value, env) if st.value is not None else None)
            elif isinstance(st, ast.Assign):
                v = self.ev(st.value, env)
                for t in st.targets:
                    self.bind(t, v, env)
            elif isinstance(st, ast.AnnAssign):
                if st.value is not None:
                    self.bind(st.target, self.ev(st.value, env), env)
            elif isinstance(st, ast.AugAssign):
                cur = self.ev(st.target, env)
                v = self.ev(st.value, env)
                op = type(st.op)
                if op is ast.BitOr:
                    new = cur | v
                elif op is ast.BitAnd:
                    new = cur & v
                elif op is ast.Add:
                    new = cur + v
                elif op is ast.Sub:
                    new = cur - v
                else:
                    raise ShapeError(f'augmented assignment `{ast.unparse(st)}`')
                self.bind(st.target, new, env)
            elif isinstance(st, ast.If):
                self.run(st.body if self.ev(st.test, env) else st.orelse, env)
            elif isinstance(st, ast.For):
                try:
                    for item in self.ev(st.iter, env):
                        self.bind(st.target, item, env)
                        try:
                            self.run(st.body, env)
                        except _Continue:
                            continue
                except _Break:
                    pass
            elif isinstance(st, ast.Match):
                v = self.ev(st.subject, env)
                for c in st.cases:
                    en = dict(env)
                    if self.match_pattern(c.pattern, v, en) and (c.guard is None or self.ev(c.guard, en)):
                        env.update(en)
                        self.run(c.body, env)
                        break
            elif isinstance(st, ast.Continue):
                raise _Continue()
            elif isinstance(st, ast.Break):
                raise _Break()
            elif isinstance(st, ast.Raise):
                raise ShapeError(f'table function raises at line {st.lineno}')
            elif isinstance(st, ast.Assert):
                continue
            elif isinstance(st, ast.While) and not st.orelse:
                try:
                    while self.ev(st.test, env):
                        self.fuel -= 1
                        if self.fuel < 0:
                            raise ShapeError('table evaluation did not terminate')
                        try:
                            self.run(st.body, env)
                        except _Continue:
                            continue
                except _Break:
                    pass
            elif isinstance(st, ast.Try) and st.finalbody and not st.handlers and not st.orelse:
                # try / finally: the clean-up runs on every way out (return included)
                try:
                    self.run(st.body, env)
                finally:
                    self.run(st.finalbody, env)
            elif isinstance(st, ast.Try) and not st.finalbody and not st.orelse:
                # native exceptions only (a conversion that refuses its operand): the handler named for it runs
                names = {'ValueError': ValueError, 'OverflowError': OverflowError, 'TypeError': TypeError, 'KeyError': KeyError,
                         'ZeroDivisionError': ZeroDivisionError, 'ArithmeticError': ArithmeticError, 'Exception': Exception}
                try:
                    self.run(st.body, env)
                except (_Return, _Continue, _Break, ShapeError):
                    raise
                except Exception as ex:
                    for h in st.handlers:
                        tys = [h.type] if h.type is not None and not isinstance(h.type, ast.Tuple) else (list(h.type.elts) if h.type is not None else [])
                        cls = tuple(names[ast.unparse(t)] for t in tys if ast.unparse(t) in names)
                        if h.type is None or (cls and isinstance(ex, cls)):
                            if h.name:
                                env[h.name] = ex
                            self.run(h.body, env)
                            break
                    else:
                        raise
            elif isinstance(st, (ast.Import, ast.ImportFrom)):
                pass            # a local import: the names it brings are supplied by the caller (overrides / globals)
            else:
                raise ShapeError(f'statement kind {type(st).__name__} not read')
