"""
C07 — simplify never changes what a program returns.

Decided (required-guard rules): copy propagation must consult the reaching
definition of the *source* variable; constant folding must not materialise
list values without a mutation/alias fact; dead-code elimination removes a
statement only under the stated justification (no uses + pure, literal-false
condition, ...); purity treats unknown callees as impure; folding happens only
under a statically known context; the literal forms produced by folding.
"""

from __future__ import annotations

import ast

from ..core import Ctx, Rule
from ..dataflow import depends_on, derived_names, guards_of, parent_map
from ..facts import ShapeError, call_name, calls_in, dotted, kwarg, norm, walk_no_nested
from ..tables import Inst, Opaque, decide
from .pairing_rules import analysis_pairing

COPY = 'fpy2/transform/copy_propagate.py'
SUBST = 'fpy2/transform/subst_var.py'
FOLD = 'fpy2/transform/const_fold.py'
DCE = 'fpy2/transform/dead_code.py'
PE = 'fpy2/analysis/partial_eval.py'
PURITY = 'fpy2/analysis/purity.py'
SIMPLE = 'fpy2/strategies/simple.py'


# ----------------------------------------------------------------------
# G1 copy propagation

def _reach_fact_about_source(n: ast.AST) -> bool:
    """An expression that asks which definition of the *source* variable is current."""
    if isinstance(n, ast.Call):
        cn = call_name(n) or ''
        if cn.endswith('find_def_from_use') and n.args and 'site.expr' in norm(n.args[0]):
            return True
        if cn.endswith(('reaches', 'same_reaching_def', 'reaching_def_at')):
            return True
    if isinstance(n, ast.Subscript):
        base = dotted(n.value) or ''
        if base.endswith(('.reach', '.in_defs', '.out_defs')):
            return True
        if base.endswith('.name_to_defs') and 'expr' in norm(n.slice):
            return True
    if isinstance(n, ast.Attribute) and n.attr in ('reach', 'in_defs', 'out_defs'):
        return True
    return False


def g5_changed_means_changed(ctx: Ctx):
    """`simplify` runs its passes until none reports a change, so a pass that reports one must have made one.  Copy
    propagation schedules `x = y` when x is used and then says "changed"; but a use is a read, an element store
    `x[i] = e` or a call `x(..)` (the `UseSite` alias of define_use), and the substitution rewrites only the kinds
    `_SubstVar` overrides a visitor for.  The scheduling test must ask for a use of one of those kinds."""
    DU = 'fpy2/analysis/define_use.py'
    alias = ctx.repo.module(DU).toplevel().get('UseSite')
    kinds = {n.id for n in ast.walk(getattr(alias, 'value', ast.Constant(None))) if isinstance(n, ast.Name)} - {'TypeAlias'}
    if not kinds:
        raise ShapeError('UseSite alias not read')
    sv = ctx.repo.cls(SUBST, '_SubstVar')
    overridden = {f.name for f in sv.body if isinstance(f, ast.FunctionDef)}
    visitor_of = {'Var': '_visit_var', 'IndexedAssign': '_visit_indexed_assign', 'Call': '_visit_call'}
    rewritten = {k for k in kinds if visitor_of.get(k) in overridden}
    fn = ctx.fn(COPY, 'CopyPropagate.apply_with_status')
    inserts = [s for s in walk_no_nested(fn) if isinstance(s, ast.Assign) and isinstance(s.targets[0], ast.Subscript) and dotted(s.targets[0].value) == 'prop']
    parents = parent_map(fn)
    for ins in inserts:
        gs = [g for g, arm in guards_of(fn, ins, parents) if arm == 'then' and 'def_use.uses[d]' in norm(g)]
        asked: set[str] = set()
        for g in gs:
            for k in ast.walk(g):
                if isinstance(k, ast.Call) and call_name(k) == 'isinstance' and len(k.args) == 2:
                    asked |= {n.id for n in ast.walk(k.args[1]) if isinstance(n, ast.Name)}
        ok = bool(gs) and bool(asked) and asked <= rewritten
        ctx.check(ok, COPY, ins, 'CopyPropagate.apply_with_status', f'a copy is scheduled only when it has a use the substitution rewrites ({sorted(rewritten)} of the use kinds {sorted(kinds)})',
                  f'scheduled under {[norm(g) for g in gs] or "no test of its uses"}: `ys = xs; ys[0] = e` reports a change that changes nothing, and simplify never stops')
    rets = [norm(r.value) for r in walk_no_nested(fn) if isinstance(r, ast.Return)]
    ctx.check('(func, False)' in rets and '(func, True)' in rets and 'if not prop: return (func, False)' in norm(fn, 6000).replace('\n', ' '), COPY, fn, 'CopyPropagate.apply_with_status',
              'nothing scheduled -> unchanged', f'returns {rets}')


def g1_copy_propagation(ctx: Ctx):
    q = 'CopyPropagate.apply_with_status'
    fn = ctx.fn(COPY, q)
    inserts = [s for s in walk_no_nested(fn) if isinstance(s, ast.Assign) and isinstance(s.targets[0], ast.Subscript)
               and dotted(s.targets[0].value) == 'prop']
    if not inserts:
        raise ShapeError('copy propagation no longer fills a substitution map named `prop`')
    sv = ctx.fn(SUBST, '_SubstVar._visit_var')
    sv_derived = derived_names(sv, _reach_fact_about_source)
    sv_parents = parent_map(sv)
    # does the substitution site itself re-check the source at each use?
    use_side = False
    for r in [s for s in walk_no_nested(sv) if isinstance(s, ast.Return)]:
        if 'self.subst' in norm(r.value):
            okk, _ = depends_on(sv, r, sv_derived, lambda n: isinstance(n, ast.Attribute) and n.attr in ('reach', 'in_defs', 'out_defs'), sv_parents)
            use_side = use_side or okk
    derived = derived_names(fn, _reach_fact_about_source)
    parents = parent_map(fn)
    for ins in inserts:
        okk, why = depends_on(fn, ins, derived, _reach_fact_about_source, parents)
        ctx.check(okk or use_side, COPY, ins, q, norm(ins),
                  'a copy `x = y` is recorded for substitution at every use of x from the shape of the assignment alone; '
                  'nothing asks whether the definition of the source `y` current at the copy still reaches those uses '
                  '(y may be reassigned in between): ' + why)
    # the decision itself, read from its source on three definition graphs in which the copied variable moves on before the
    # copy is read: reassigned on the straight line, reassigned in a loop body (so that only a loop-head phi follows the
    # copied definition), reassigned in one arm of a branch.  In each the copy must be left alone.
    from ..minipy import Interp, Obj
    from ..lang import lang
    L = lang(ctx.repo)
    loops = [s for s in fn.body if isinstance(s, ast.For) and norm(s.iter) == 'def_use.defs']
    if len(loops) != 1:
        raise ShapeError('apply_with_status: the loop over definitions was not found')

    def graph(kind: str):
        xn, yn = Obj('NamedId', base='x'), Obj('NamedId', base='y')
        use_y = Obj('Var', name=yn)
        y0 = Obj('AssignDef', name=yn, site=Obj('Argument'), prev=None)
        x1 = Obj('AssignDef', name=xn, site=Obj('Assign', target=xn, expr=use_y), prev=None)
        y_later = Obj('AssignDef', name=yn, site=Obj('Assign', target=yn, expr=Obj('Add')), prev=None)
        defs, succ = [y0, x1, y_later], {x1: []}
        if kind == 'straight line':
            succ.update({y0: [y_later], y_later: []})
            y_later.fields['prev'] = y0
        else:
            phi = Obj('PhiDef', name=yn, lhs=0, rhs=2, site=Obj('WhileStmt' if kind == 'loop body' else 'IfStmt'))
            defs.append(phi)
            if kind == 'loop body':
                succ.update({y0: [phi], phi: [y_later], y_later: [phi]})
                y_later.fields['prev'] = phi
            else:
                succ.update({y0: [y_later, phi], y_later: [phi], phi: []})
                y_later.fields['prev'] = y0
        # (stand-ins hash and compare by identity, so they key the tables as the real definitions do)
        du = Obj('DefineUseAnalysis', defs=defs, name_to_defs={yn: [d for d in defs if d.fields['name'] is yn], xn: [x1]},
                 uses={x1: [Obj('Var', name=xn)], **{d: [] for d in defs if d is not x1}}, successors=succ,
                 def_to_idx={d: i for i, d in enumerate(defs)}, find_def_from_use=lambda e: y0 if e is use_y else x1)
        return du, x1
    # (the model has to reach the decision at all: with the source never reassigned the copy is propagated)
    du, x1 = graph('straight line')
    du.fields['defs'] = du.fields['defs'][:2]
    du.fields['name_to_defs'][du.fields['defs'][0].fields['name']] = [du.fields['defs'][0]]
    du.fields['successors'][du.fields['defs'][0]] = []
    env0 = {'def_use': du, 'names': None, 'prop': {}}
    Interp({}, {}, is_a=lambda k, c: k == c or (c == 'Definition' and k in ('AssignDef', 'PhiDef')) or (c == 'Id' and k in ('NamedId', 'UnderscoreId', 'SourceId'))).run_stmts([loops[0]], env0)
    if not any(k is x1 for k in env0['prop']):
        raise ShapeError('copy propagation model: a copy of a never-reassigned source is not scheduled (the decision was not reached)')
    deferred = None
    for kind in ('straight line', 'loop body', 'one arm of a branch'):
        du, x1 = graph(kind)
        env = {'def_use': du, 'names': None, 'prop': {}}
        it = Interp({}, {}, is_a=lambda k, c: k == c or (k in L.classes and c in L.classes and L.is_a(k, c)) or (c == 'Definition' and k in ('AssignDef', 'PhiDef'))
                    or (c == 'Id' and k in ('NamedId', 'UnderscoreId', 'SourceId')))
        try:
            it.run_stmts([loops[0]], env)
        except ShapeError as ex:
            deferred = deferred or ShapeError(f'copy propagation decision not read ({kind}): {ex}')
            continue
        ctx.check(not any(k is x1 for k in env['prop']), COPY, loops[0], q, f'source reassigned afterwards in the {kind}: the copy `x = y` is not propagated',
                  'the copy is scheduled: `acc = x; start = acc; for ..: acc = acc * 2; return acc - start` becomes `acc - acc`')
    # the substitution is keyed by the definition found from the use, never by name
    r = [s for s in walk_no_nested(sv) if isinstance(s, ast.Assign) and call_name(s.value) == 'self.def_use.find_def_from_use']
    tests = [s for s in walk_no_nested(sv) if isinstance(s, ast.If) and norm(s.test) in ('d in self.subst',)]
    good = len(r) == 1 and dotted(r[0].targets[0]) == 'd' and [dotted(a) for a in r[0].value.args] == ['e'] and len(tests) == 1 \
        and isinstance(tests[0].body[0], ast.Return) and norm(tests[0].body[0].value) == 'self.subst[d]'
    ctx.check(good, SUBST, sv, '_SubstVar._visit_var', 'a use is rewritten only when its own reaching definition is in the map',
              'substitution is no longer keyed by find_def_from_use(e)')
    # only plain `x = y` between variables qualifies
    conds = []
    for ins in inserts:
        for t, arm in guards_of(fn, ins, parents):
            conds.append(norm(t, 4000))
    alltxt = ' && '.join(conds)
    for need in ('isinstance(d, AssignDef)', 'isinstance(d.site, Assign)', 'isinstance(d.site.target, Id)', 'isinstance(d.site.expr, Var)'):
        ctx.check(need in alltxt, COPY, inserts[0], q, f'copy shape requires {need}', f'guards: {alltxt[:200]}')
    # a model that could not be read is an analysis error -- unless a clause above already names what is wrong
    if deferred is not None and all(i.ok for i in ctx.instances):
        raise deferred


# ----------------------------------------------------------------------
# G2 heap values

def _mutation_fact(n: ast.AST) -> bool:
    if isinstance(n, ast.Name) and n.id in ('IndexedAssign', 'Alias', 'AliasAnalysis', 'Escape'):
        return True
    if isinstance(n, ast.Attribute) and n.attr in ('alias', 'aliases', 'may_alias', 'mutated', 'is_mutated', 'mutable_defs'):
        return True
    if isinstance(n, ast.Call) and (call_name(n) or '').split('.')[-1] in ('may_alias', 'is_mutated', 'has_indexed_assign'):
        return True
    return False


def g2_heap_values(ctx: Ctx):
    """A list value recorded per definition / materialised as a literal needs a fact about stores into lists."""
    repo = ctx.repo
    # (a) PartialEval records a python list as the value of a list expression
    q = '_PartialEvalInstance._visit_list_expr'
    fn = ctx.fn(PE, q)
    cls = repo.cls(PE, '_PartialEvalInstance')
    records = [s for s in walk_no_nested(fn) if isinstance(s, ast.Assign) and isinstance(s.targets[0], ast.Subscript)
               and dotted(s.targets[0].value) == 'self.by_expr' and isinstance(s.value, (ast.ListComp, ast.List))]
    has_store_transfer = any(isinstance(s, ast.FunctionDef) and s.name == '_visit_indexed_assign' for s in cls.body)
    whole_class_fact = any(_mutation_fact(n) for n in ast.walk(cls))
    # (b) ConstFold turns a recorded list value back into a fresh list literal
    vq = 'value_to_literal'
    vfn = ctx.fn(FOLD, vq)
    mats = [k for k in calls_in(vfn) if call_name(k) == 'ListExpr']
    fold_cls = repo.cls(FOLD, '_ConstFoldInstance')
    fold_fact = any(_mutation_fact(n) for n in ast.walk(fold_cls)) or any(_mutation_fact(n) for n in ast.walk(vfn))
    if not records and not mats:
        ctx.ok(PE, fn, q, 'list values are not tracked', nontrivial=False)
        return
    for r in records:
        derived = derived_names(fn, _mutation_fact)
        okk, why = depends_on(fn, r, derived, _mutation_fact, parent_map(fn))
        ctx.check(okk or (has_store_transfer and whole_class_fact) or fold_fact, PE, r, q, norm(r),
                  'a list literal is recorded as a constant per definition, but the analysis has no transfer for `xs[i] = e` and '
                  'consults no alias/mutation fact: a store through another name for the same list (ys = xs; ys[0] = 5) leaves the '
                  'recorded constant stale, and ConstFold then replaces xs[0] by the old element')
    for k in mats:
        ctx.check(fold_fact or (has_store_transfer and whole_class_fact), FOLD, k, vq, norm(k),
                  'constant folding materialises a fresh list literal for a value PartialEval recorded, with no alias/mutation fact consulted: '
                  'the program may observe a stale element, and the fresh list breaks sharing with the original')


# ----------------------------------------------------------------------
# G3 dead code

REMOVAL_JUSTIFICATION = {
    '_visit_assign': [['assign in self.unused_assign'], ['assign.target == assign.expr.name'], ['_all_underscore', 'Purity.analyze_expr']],
    '_visit_if1': [['isinstance(stmt.cond, BoolVal)'], ['_is_empty_block(stmt.body)', 'Purity.analyze_expr(stmt.cond']],
    '_visit_if': [['_is_empty_block(stmt.ift)', '_is_empty_block(stmt.iff)', 'Purity.analyze_expr(stmt.cond']],
    '_visit_while': [['isinstance(stmt.cond, BoolVal) and (not stmt.cond.val)']],
    '_visit_context': [['len(self.def_use.uses[d]) == 0', 'isinstance(body.stmts[0], PassStmt)']],
    '_visit_pass': [[]],
    '_visit_assert': [['isinstance(stmt.test, BoolVal) and stmt.test.val']],
    '_visit_effect': [['Purity.analyze_expr(stmt.expr']],
}


def g3_dead_code(ctx: Ctx):
    repo = ctx.repo
    cls = repo.cls(DCE, '_Eliminator')
    n = 0
    for m in cls.body:
        if not isinstance(m, ast.FunctionDef) or not m.name.startswith('_visit_'):
            continue
        parents = parent_map(m)
        for r in [s for s in walk_no_nested(m) if isinstance(s, ast.Return)]:
            v = r.value
            if not (isinstance(v, ast.Tuple) and v.elts and isinstance(v.elts[0], ast.Constant) and v.elts[0].value is None):
                continue
            n += 1
            q = f'_Eliminator.{m.name}'
            guards = [norm(t, 4000) + ('' if arm not in ('else',) else ' [else]') for t, arm in guards_of(m, r, parents)]
            txt = ' && '.join(guards)
            allowed = REMOVAL_JUSTIFICATION.get(m.name)
            if allowed is None:
                ctx.bad(DCE, r, q, f'statement dropped under [{txt[:120]}]', f'{m.name} has no listed justification for removing a statement')
                continue
            okk = any(all(need in txt for need in alt) for alt in allowed)
            # the literal-true arm of `if True:` returns the block, not None; a None under BoolVal must be the false arm
            if okk and m.name == '_visit_if1' and 'isinstance(stmt.cond, BoolVal)' in txt and 'Purity' not in txt:
                okk = any(g == 'stmt.cond.val [else]' for g in guards)
            ctx.check(okk, DCE, r, q, f'statement dropped under [{txt[:140]}]',
                      f'removal is not covered by an accepted justification for {m.name}: {allowed}')
    if n < 9:
        raise ShapeError(f'only {n} statement removals found in _Eliminator')
    # while loops: the only removal is the literal-false condition (a pure but unknown condition may diverge)
    w = ctx.fn(DCE, '_Eliminator._visit_while')
    pur = [k for k in calls_in(w) if (call_name(k) or '').startswith('Purity')]
    ctx.check(not pur, DCE, w, '_Eliminator._visit_while', 'no purity-based loop removal', 'a loop with an unknown condition may not terminate; removing it changes behaviour')
    # unused definitions: collected only with no uses, no phi successor, pure right-hand side
    q = '_DeadCodeEliminate.apply'
    fn = ctx.fn(DCE, q)
    parents = parent_map(fn)
    adds = [k for k in calls_in(fn) if call_name(k) == 'unused_assign.add']
    if len(adds) < 2:
        raise ShapeError('unused_assign.add sites not found')
    for k in adds:
        guards = [norm(t, 4000) for t, arm in guards_of(fn, k, parents)]
        txt = ' && '.join(guards)
        arg = norm(k.args[0])
        defname = arg.split('.')[0]
        need_uses = f'self.def_use.uses[{defname}]' in txt or ('len(uses) > 0' in txt and defname == 'd')
        need_phi = 'PhiDef' in txt and 'successors' in txt
        need_pure = 'Purity.analyze_expr' in txt
        ctx.check(need_uses and need_phi and need_pure, DCE, k, q, f'{norm(k)}',
                  f'an assignment is queued for removal without all of: no uses of that definition ({need_uses}), '
                  f'no live phi fed by it ({need_phi}), pure right-hand side ({need_pure}); guards: {txt[:300]}')
    # after each round the analysis is recomputed before the next
    redo = [s for s in walk_no_nested(fn) if isinstance(s, ast.Assign) and dotted(s.targets[0]) == 'self.def_use'
            and norm(s.value) == 'DefineUse.analyze(self.func)']
    ctx.check(len(redo) == 1, DCE, fn, q, 'def-use recomputed after every elimination round', 'stale def-use facts would be reused on the rewritten program')
    _spliced_returns(ctx)


def _spliced_returns(ctx: Ctx):
    """A branch whose condition is a constant replaces its `if`.  When it ends in a `return`, what followed the `if` would
    sit behind a `return`: the re-analysis of the next round (and the checker) refuse such a program, so the pass raises on
    `if FAST: return x` / `return x + 1.0`.  `_Eliminator._visit_block` is evaluated, from its source, on blocks of three
    statements whose middle one is rewritten to each shape: the statements after it are kept exactly when some path falls
    through it -- dropping them otherwise is what makes the result a program, keeping them when one does is what keeps
    its value."""
    from ..lang import lang
    from ..minipy import Interp, Obj
    L = lang(ctx.repo)
    meths = {n: f for n, (_, _, f) in ctx.repo.methods(DCE, '_Eliminator', inherited=False).items()}
    fn = meths.get('_visit_block')
    if fn is None:
        raise ShapeError('_Eliminator._visit_block not found')

    def blk(*stmts):
        return Obj('StmtBlock', stmts=list(stmts))
    ret = lambda: Obj('ReturnStmt', expr=None)                          # noqa: E731
    asg = lambda tag: Obj('Assign', tag=tag)                            # noqa: E731
    shapes = [
        ('a return', lambda: [ret()], False),
        ('an assignment, then a return', lambda: [asg('s'), ret()], False),
        ('if/else, both arms returning', lambda: [Obj('IfStmt', cond=None, ift=blk(ret()), iff=blk(asg('t'), ret()))], False),
        ('if/else, one arm returning', lambda: [Obj('IfStmt', cond=None, ift=blk(ret()), iff=blk(asg('t')))], True),
        ('a one-armed if that returns', lambda: [Obj('If1Stmt', cond=None, body=blk(ret()))], True),
        ('a while loop that returns', lambda: [Obj('WhileStmt', cond=None, body=blk(ret()))], True),
        ('a for loop that returns', lambda: [Obj('ForStmt', target=None, iterable=None, body=blk(ret()))], True),
        ('a with block that returns', lambda: [Obj('ContextStmt', target=None, ctx=None, body=blk(ret()))], False),
        ('a with block holding a one-armed if', lambda: [Obj('ContextStmt', target=None, ctx=None, body=blk(Obj('If1Stmt', cond=None, body=blk(ret()))))], True),
        ('an assignment', lambda: [asg('s')], True),
    ]
    for what, mk, falls in shapes:
        for spliced in (True, False):
            new = mk()
            if not spliced and len(new) != 1:
                continue
            first, mid, last = asg('first'), Obj('IfStmt', cond=None, ift=blk(), iff=blk(), tag='mid'), asg('last')
            me = Obj('_Eliminator', eliminated=False)

            def visit(st, c, new=new, mid=mid, spliced=spliced):
                if st is mid:
                    return ((blk(*new) if spliced else new[0]), c)
                return (st, c)
            it = Interp({}, meths, self_obj=me, is_a=lambda k, c: k == c or L.is_a(k, c),
                        overrides={'self._visit_statement': visit, 'self._is_empty_block': lambda b: not b.fields['stmts'], 'StmtBlock': lambda stmts: blk(*stmts),
                                   'PassStmt': lambda loc: Obj('PassStmt')})
            out = it.call_function(fn, [blk(first, mid, last), None], bound_self=True)
            got = (out[0] if isinstance(out, tuple) else out).fields['stmts']
            kept = any(s_ is last for s_ in got)
            head_ok = got[:1] == [first] and all(any(s_ is n_ for s_ in got) for n_ in new)
            ctx.check(head_ok and kept == falls, DCE, fn, '_Eliminator._visit_block',
                      f'the middle statement becomes {what}{" (spliced block)" if spliced else ""}: what follows is {"kept" if falls else "dropped"}',
                      f'the statement after it is {"kept" if kept else "dropped"} (rewritten statements present: {head_ok}): '
                      + ('`if FAST: return x` / `return x + 1.0` leaves `return x; return x + 1.0` and simplify raises FPySyntaxError or KeyError' if not falls else
                         'a statement that still runs on some path is removed'))


# ----------------------------------------------------------------------
# X1 purity defaults

def _outer_object_table(ctx: Ctx):
    """`xs[i] = e` changes something the caller can see when `xs` names a list the function did not create.  Which list a
    variable names at the store is a question about its reaching definition: the argument itself; a loop or branch merge
    of it; an earlier element store (same object); a variable assigned from it, from one of its elements, or from a
    call; a loop target ranging over it.  `_may_be_outer` is evaluated, from its source, on a definition graph holding
    one of each and on the same shapes rooted in a list literal."""
    from ..minipy import Interp, Obj
    RDM = 'fpy2/analysis/reaching_defs.py'
    cls = ctx.repo.cls(PURITY, '_Purity')
    methods = {f.name: f for f in cls.body if isinstance(f, ast.FunctionDef)}
    if '_may_be_outer' not in methods:
        ctx.bad(PURITY, cls, '_Purity', 'what a stored-into variable may name is traced to its root', 'no such tracing: a store reached through a loop phi or an alias is taken for local')
        return
    same = ctx.fn(RDM, 'same_object_defs')
    defs: list = []
    uses: dict[int, int] = {}

    def var(of: int):
        v = Obj('Var')
        uses[id(v)] = of
        return v

    def add(kind, **f):
        d = Obj(kind, **f)
        defs.append(d)
        return len(defs) - 1
    arg = add('AssignDef', site=Obj('Argument'), prev=None)
    lit = add('AssignDef', site=Obj('Assign', expr=Obj('ListExpr', elts=[Obj('Decnum'), Obj('Decnum')])), prev=None)
    rows: list[tuple[str, int, bool]] = [('the argument', arg, True), ('a list literal', lit, False)]
    for root, outer, what in ((arg, True, 'the argument'), (lit, False, 'a local list')):
        store = len(defs) + 1
        phi = add('PhiDef', lhs=root, rhs=store, site=Obj('ForStmt', iterable=Obj('Range1')))
        st = add('AssignDef', site=Obj('IndexedAssign'), prev=phi)
        assert st == store
        alias = add('AssignDef', site=Obj('Assign', expr=var(root)), prev=None)
        elem = add('AssignDef', site=Obj('Assign', expr=Obj('ListRef', value=var(root))), prev=None)
        tgt = add('AssignDef', site=Obj('ForStmt', iterable=var(root)), prev=None)
        pick = add('AssignDef', site=Obj('Assign', expr=Obj('IfExpr', ift=var(lit), iff=var(root))), prev=None)
        pick2 = add('AssignDef', site=Obj('Assign', expr=Obj('IfExpr', ift=var(root), iff=var(lit))), prev=None)
        tup = add('AssignDef', site=Obj('Assign', expr=Obj('TupleExpr', elts=[var(root), var(lit)])), prev=None)
        tup2 = add('AssignDef', site=Obj('Assign', expr=Obj('TupleExpr', elts=[var(lit), var(lit), var(root)])), prev=None)
        # shallow copies: a new list of the same rows
        sl = add('AssignDef', site=Obj('Assign', expr=Obj('ListRef', value=Obj('ListSlice', value=var(root)))), prev=None)
        wrap = add('AssignDef', site=Obj('Assign', expr=Obj('ListRef', value=Obj('ListExpr', elts=[Obj('ListRef', value=var(root)), var(lit)]))), prev=None)
        en = add('AssignDef', site=Obj('ForStmt', iterable=Obj('Enumerate', arg=var(root))), prev=None)
        zp = add('AssignDef', site=Obj('ForStmt', iterable=Obj('Zip', args=[var(lit), var(root)])), prev=None)
        comp_site = Obj('ListComp', iterables=[var(root)])
        ctgt = add('AssignDef', site=comp_site, prev=None)
        uses_ctgt = var(ctgt)
        comp_site.fields['elt'] = uses_ctgt
        cp = add('AssignDef', site=Obj('Assign', expr=Obj('ListRef', value=Obj('ListComp', elt=uses_ctgt, iterables=[var(root)]))), prev=None)
        rows += [(f'a row of a slice of {what}', sl, outer), (f'a row of a list literal holding a row of {what}', wrap, outer), (f'a loop target over enumerate({what})', en, outer),
                 (f'a loop target over zip(literal, {what})', zp, outer), (f'a row of [r for r in {what}]', cp, outer)]
        rows += [(f'a loop merge of {what}', phi, outer), (f'{what} after an element store in a loop', st, outer), (f'an alias of {what}', alias, outer),
                 (f'an element of {what}', elem, outer), (f'a loop target over {what}', tgt, outer), (f'a literal or {what}, by a condition', pick, outer),
                 (f'{what} or a literal, by a condition', pick2, outer), (f'a tuple holding {what} and a literal', tup, outer), (f'a tuple holding literals and {what}', tup2, outer)]
    call = add('AssignDef', site=Obj('Assign', expr=Obj('Call')), prev=None)
    rows.append(('the result of a call', call, True))
    du = Obj('DefineUseAnalysis', defs=defs, def_to_idx={d: i for i, d in enumerate(defs)})
    du.fields['find_def_from_use'] = lambda e: defs[uses[id(e)]]
    is_a = lambda k, c: k == c or (c == 'Definition' and k in ('AssignDef', 'PhiDef'))  # noqa: E731
    for label, i, want in rows:
        it = Interp({'same_object_defs': same}, methods=methods, is_a=is_a, self_obj=Obj('_Purity', def_use=du),
                    overrides={'TupleExpr': lambda elts, loc=None: Obj('TupleExpr', elts=list(elts))})
        try:
            got = bool(it.call_function(methods['_may_be_outer'], [defs[i], set()], bound_self=True))
        except ShapeError as ex:
            raise ShapeError(f'_may_be_outer not read on `{label}`: {ex}')
        # saying "may be outer" of a local list only keeps a call that could have gone: safe
        ctx.check(got or not want, PURITY, methods['_may_be_outer'], '_Purity._may_be_outer', f'a store into {label} is {"a side effect" if want else "local (or conservatively kept)"}',
                  f'taken for a local list: a helper that zeroes its argument in a loop is pure to the analysis and the call is dropped as dead code')


def x1_purity(ctx: Ctx):
    repo = ctx.repo
    q = '_Purity._visit_call'
    fn = ctx.fn(PURITY, q)
    rows = [
        ('unknown callee (fn is None)', {'e.fn': None}, 'raise'),
        ('foreign python callable', {'e.fn': Inst('object')}, 'raise'),
        ('impure primitive', {'e.fn': Inst('Primitive'), 'not e.fn.pure': True, 'e.fn.pure': False}, 'raise'),
        ('pure primitive', {'e.fn': Inst('Primitive'), 'not e.fn.pure': False, 'e.fn.pure': True}, 'fall'),
        ('impure FPy callee', {'e.fn': Inst('Function'), 'not is_pure': True, 'is_pure': False}, 'raise'),
        ('pure FPy callee', {'e.fn': Inst('Function'), 'not is_pure': False, 'is_pure': True}, 'fall'),
    ]
    for name, env, want in rows:
        def hook(st, e):
            if isinstance(st, ast.Assign) and dotted(st.targets[0]) == 'is_pure':
                return True
            return False
        kind, val, st = decide(repo, PURITY, fn.body, dict(env), hook)
        ctx.check(kind == want, PURITY, st or fn, q, f'{name} -> {"impure" if want == "raise" else "no objection"}', f'got {kind}')
    rec = [s for s in ast.walk(fn) if isinstance(s, ast.Assign) and dotted(s.targets[0]) == 'is_pure']
    ctx.check(len(rec) == 1 and norm(rec[0].value) == 'Purity.analyze(e.fn.ast)', PURITY, fn, q, 'FPy callee judged by analysing its own body', 'recursion target changed')
    q = '_Purity._visit_indexed_assign'
    fn = ctx.fn(PURITY, q)
    tests = [s for s in walk_no_nested(fn) if isinstance(s, ast.If)]
    good = len(tests) == 1 and norm(tests[0].test) == 'self._may_be_outer(d, set())' and isinstance(tests[0].body[-1], ast.Raise) \
        and 'd = self.def_use.find_def_from_use(stmt)' in norm(fn, 3000)
    ctx.check(good, PURITY, fn, q, 'an element store is judged by what the list variable may name', 'store rule changed')
    _outer_object_table(ctx)
    ap = ctx.fn(PURITY, '_Purity.apply')
    handlers = [h for s in walk_no_nested(ap) if isinstance(s, ast.Try) for h in s.handlers]
    good = len(handlers) == 1 and dotted(handlers[0].type) == '_ImpureError' and isinstance(handlers[0].body[0], ast.Return) \
        and isinstance(handlers[0].body[0].value, ast.Constant) and handlers[0].body[0].value.value is False
    ctx.check(good, PURITY, ap, '_Purity.apply', 'an impurity report yields False', 'exception-to-verdict mapping changed')


# ----------------------------------------------------------------------
# G4 folding only under a statically known context

def g4_fold_context(ctx: Ctx):
    repo = ctx.repo
    cls = repo.cls(PE, '_PartialEvalInstance')
    n = 0
    for m in cls.body:
        if not isinstance(m, ast.FunctionDef) or not m.name.startswith('_visit_'):
            continue
        parents = parent_map(m)
        for k in calls_in(m):
            if call_name(k) != 'self._try_eval':
                continue
            n += 1
            q = f'_PartialEvalInstance.{m.name}'
            guards = ' && '.join(norm(t, 4000) for t, arm in guards_of(m, k, parents))
            passes_ctx = len(k.args) == 2 and dotted(k.args[1]) == 'ctx'
            ctx.check('ctx is not None' in guards and passes_ctx, PE, k, q, f'{norm(k)[:60]} only when ctx is not None, under ctx',
                      f'an operation is evaluated at analysis time without a statically known context (guards: {guards[:160]})')
    if n < 8:
        raise ShapeError(f'only {n} analysis-time evaluations found')
    q = '_PartialEvalInstance._visit_context'
    fn = ctx.fn(PE, q)
    calls = [k for k in calls_in(fn) if call_name(k) == 'self._visit_expr']
    good = len(calls) == 1 and [norm(a) for a in calls[0].args] == ['stmt.ctx', 'REAL']
    ctx.check(good, PE, fn, q, 'context constructor analysed under REAL', f'got {[norm(k) for k in calls]}')
    blocks = [k for k in calls_in(fn) if call_name(k) == 'self._visit_block']
    good = len(blocks) == 1 and [norm(a) for a in blocks[0].args] == ['stmt.body', 'new_ctx']
    asg = [s for s in walk_no_nested(fn) if isinstance(s, (ast.Assign, ast.AnnAssign)) and dotted(getattr(s, 'target', None) or s.targets[0]) == 'new_ctx']  # type: ignore
    init_none = any(isinstance(s, ast.AnnAssign) and isinstance(s.value, ast.Constant) and s.value.value is None for s in asg) or \
        any(isinstance(s, ast.Assign) and isinstance(s.value, ast.Constant) and s.value.value is None for s in asg)
    sets = [s for s in asg if not (isinstance(s.value, ast.Constant))]
    guarded = all('isinstance(val, Context)' in ' && '.join(norm(t, 4000) for t, arm in guards_of(fn, s, parent_map(fn))) for s in sets)
    ctx.check(good and init_none and guarded and len(sets) == 1, PE, fn, q,
              'body analysed under the new context only if it is statically a Context, else under None (no folding)',
              'a with-block whose context is not statically known must disable folding inside it')
    tr = ctx.fn(PE, '_PartialEvalInstance._try_eval')
    rets = [s for s in ast.walk(tr) if isinstance(s, ast.Return) and isinstance(s.value, ast.Call)]
    good = any(norm(r.value) == 'to_value(self.rt.eval_expr(e_eval, self._base_env(), ctx))' for r in rets)
    ctx.check(good, PE, tr, '_PartialEvalInstance._try_eval', 'evaluation by the real interpreter under the given ctx', 'evaluation route changed')
    # under a context with random bits one evaluation is one draw, not the value of the expression
    from ..cfg import CFG, describe_path, find_path
    cfg = CFG(tr)
    stoch = [t for t in cfg.nodes_of('test') if norm(t.ast) == 'ctx.is_stochastic()']
    evals = [n for n in cfg.nodes if n.ast is not None and n.kind in ('stmt', 'return') and any(call_name(k) == 'self.rt.eval_expr' for k in calls_in(n.ast))]
    if not evals:
        raise ShapeError('_try_eval: evaluating statement not found')
    for ev in evals:
        # a path on which every stochastic test met answers "yes" (or none is met) and the evaluation is still reached
        p = find_path(cfg, cfg.entry, ev, edge_ok=lambda n, lab: not (n in stoch and lab is False))
        ctx.check(bool(stoch) and p is None, PE, ev.ast, '_PartialEvalInstance._try_eval', 'nothing is evaluated at analysis time under a stochastic context',
                  'an operation under a context with random bits is folded to the value of one draw: `1.0 / 3.0` under 8 random bits is reported constant and rewritten to it',
                  path=describe_path(p, PE) if p else None)


# ----------------------------------------------------------------------
# T1 literal forms

def t1_literal_forms(ctx: Ctx):
    repo = ctx.repo
    q = 'value_to_literal'
    fn = ctx.fn(FOLD, q)

    def run(env):
        return decide(repo, FOLD, fn.body, env)
    r = run({'val': Inst('bool')})
    ctx.check(r[0] == 'return' and isinstance(r[1], Opaque) and norm(r[1].node) == 'BoolVal(val, loc)', FOLD, r[2] or fn, q,
              'bool -> BoolVal (tested before int)', f'got {r[1]!r}')
    r = run({'val': Inst('Float'), 'val.is_nar()': True})
    ctx.check(r[0] == 'return' and r[1] is None, FOLD, r[2] or fn, q, 'inf / NaN have no literal form (not folded)', f'got {r[1]!r}')
    r = run({'val': Inst('Float'), 'val.is_nar()': False, 'val.is_zero() and val.s': True})
    good = r[0] == 'return' and isinstance(r[1], Opaque) and isinstance(r[1].node, ast.Call) and call_name(r[1].node) == 'Decnum' \
        and isinstance(r[1].node.args[0], ast.Constant) and str(r[1].node.args[0].value).startswith('-0')
    ctx.check(good, FOLD, r[2] or fn, q, '-0 -> signed zero literal', f'got {r[1]!r}')
    r = run({'val': Inst('Float'), 'val.is_nar()': False, 'val.is_zero() and val.s': False})
    ctx.check(r[0] == 'return' and isinstance(r[1], Opaque) and norm(r[1].node) == '_rational_literal(val.as_rational(), loc)', FOLD, r[2] or fn, q,
              'finite Float -> exact rational literal', f'got {r[1]!r}')
    r = run({'val': Inst('Fraction')})
    ctx.check(r[0] == 'return' and isinstance(r[1], Opaque) and norm(r[1].node) == '_rational_literal(val, loc)', FOLD, r[2] or fn, q,
              'Fraction -> exact rational literal', f'got {r[1]!r}')
    r = run({'val': Inst('int')})
    ctx.check(r[0] == 'return' and isinstance(r[1], Opaque) and norm(r[1].node) == '_rational_literal(Fraction(val), loc)', FOLD, r[2] or fn, q,
              'int -> exact rational literal', f'got {r[1]!r}')
    r = run({'val': Inst('str')})
    ctx.check(r[0] == 'return' and r[1] is None, FOLD, r[2] or fn, q, 'anything else has no literal form', f'got {r[1]!r}')
    # native numbers (captured Python values): the literal denotes the same value, the sign of a zero included
    import math
    from fractions import Fraction
    from ..minipy import Interp
    overrides = {'math.isfinite': math.isfinite, 'math.copysign': math.copysign, 'Fraction': Fraction,
                 '_rational_literal': lambda v, loc: ('rational', v), 'Decnum': lambda text, loc: ('decnum', text), 'BoolVal': lambda v, loc: ('bool', v)}
    bad = None
    # (a decimal spelling is an exact real in FPy: `0.1` written out denotes 1/10, not the double nearest to it)
    for v, want in ((-0.0, ('decnum', '-0.0')), (0.0, ('rational', Fraction(0))), (2.5, ('rational', Fraction(5, 2))), (-3, ('rational', Fraction(-3))),
                    (0.1, ('rational', Fraction(0.1))), (1e-7, ('rational', Fraction(1e-7))), (2.0 ** 70, ('rational', Fraction(2 ** 70))),
                    (math.inf, None), (math.nan, None), (True, ('bool', True))):
        got = Interp({}, overrides=overrides).call_function(fn, [v, None])
        same = got == want or (isinstance(got, tuple) and isinstance(want, tuple) and got[0] == 'decnum' and str(got[1]).startswith('-0') and str(want[1]).startswith('-0'))
        if not same and bad is None:
            bad = f'value_to_literal({v!r}) = {got}, expected {want}'
    ctx.check(bad is None, FOLD, fn, q, 'native int / float / bool: exact rational literal, a signed literal for -0.0, none for inf / NaN',
              (bad or '') + ': `close(f)` of a function capturing -0.0 would bind +0')
    rl = ctx.fn(FOLD, '_rational_literal')
    r = decide(repo, FOLD, rl.body, {'val.denominator == 1': True})
    ctx.check(r[0] == 'return' and isinstance(r[1], Opaque) and norm(r[1].node) == 'Integer(int(val), loc)', FOLD, r[2] or rl, '_rational_literal', 'integral -> Integer', f'got {r[1]!r}')
    r = decide(repo, FOLD, rl.body, {'val.denominator == 1': False})
    ctx.check(r[0] == 'return' and isinstance(r[1], Opaque) and norm(r[1].node) == 'Rational(None, val.numerator, val.denominator, loc)', FOLD, r[2] or rl, '_rational_literal',
              'otherwise -> rational(numerator, denominator)', f'got {r[1]!r}')
    # the fold consults the analysis result of exactly this expression
    f = ctx.fn(FOLD, '_ConstFoldInstance._fold')
    first = [s for s in f.body if isinstance(s, ast.If)][0]
    good = norm(first.test) == 'e not in self.pe.by_expr' and isinstance(first.body[0], ast.Return)
    lit = [s for s in walk_no_nested(f) if isinstance(s, ast.Assign) and dotted(s.targets[0]) == 'lit']
    good = good and len(lit) == 1 and norm(lit[0].value) == 'value_to_literal(self.pe.by_expr[e], e.loc)'
    ctx.check(good, FOLD, f, '_ConstFoldInstance._fold', 'an expression is replaced only by the value recorded for that very expression', 'lookup changed')
    # simplify iterates the three passes to a fixed point on the same ast
    s = ctx.fn(SIMPLE, 'simplify')
    loops = [x for x in walk_no_nested(s) if isinstance(x, ast.While)]
    good = len(loops) == 1 and any(isinstance(x, ast.If) and norm(x.test) == 'not changed' and isinstance(x.body[0], ast.Break) for x in loops[0].body)
    calls = [call_name(k) for k in calls_in(loops[0])] if loops else []
    good = good and {'ConstFold.apply_with_status', 'CopyPropagate.apply_with_status', 'DeadCodeEliminate.apply_with_status'} <= set(calls)
    rets = [x for x in walk_no_nested(s) if isinstance(x, ast.Return)]
    good = good and len(rets) == 1 and norm(rets[0].value) == 'func.with_ast(ast)'
    ctx.check(good, SIMPLE, s, 'simplify', 'passes iterated until none reports a change; result wraps the final ast', 'driver loop changed')


EXPLANATION = (
    'Required-guard and table rules over the three simplify passes (ast only). Decided: (G1) a copy x = y is '
    'substituted only if the reaching definition of the source y is consulted, and substitution is keyed by the '
    'definition a use resolves to (today: violated, listed finding F8); (G2) list values recorded by PartialEval / '
    'materialised by ConstFold need a store/alias fact (violated, listed finding F9); (G3) every statement removal in '
    'dead-code elimination sits under an accepted justification, unused definitions are queued only with no uses, no '
    'live phi and a pure right-hand side, loops are removed only for a literal-false condition, def-use is recomputed '
    'per round; (X1) purity: unknown / foreign / impure-primitive / impure-callee calls and stores into parameters are '
    'impure; (G4) analysis-time evaluation happens only under a statically known context, constructors under REAL; '
    '(T1) literal forms produced by folding are exact (bool before int, no inf/NaN, signed zero kept). NOT decided: '
    'that PartialEval computes the right constants (it runs the real interpreter: C04/C02), def-use correctness (C13).'
)
ASSUMPTIONS = ['DefineUse/ReachingDefs facts are sound (C13)', 'the interpreter evaluates folded operations correctly (C04)']

def _d1_partial_eval(ctx: Ctx):
    # what `simplify` folds is what PartialEval reports; the phi handling of that analysis is decided in c13
    from .c13 import d2_partial_eval
    d2_partial_eval(ctx)


RULES = [
    Rule('C07.G1', 'copy propagation consults the reaching definition of the source; substitution keyed by definition', g1_copy_propagation, 6, 'G'),
    Rule('C07.G2', 'list values are recorded / materialised only with a store-or-alias fact', g2_heap_values, 2, 'G,S'),
    Rule('C07.G3', 'dead code: every removal under an accepted justification; unused = no uses + no live phi + pure', g3_dead_code, 14, 'G'),
    Rule('C07.G5', 'a pass reports a change only when it made one (copy propagation schedules a copy only for a use it rewrites), so the fixed point is reached', g5_changed_means_changed, 2, 'G'),
    Rule('C07.P1', 'an analysis handed to a simplification pass along with a function is the analysis of that function', analysis_pairing((SUBST, DCE, COPY, FOLD, 'fpy2/transform/simplify_if.py'), 3), 3, 'P'),
    Rule('C07.X1', 'purity defaults: unknown, foreign, impure callees and parameter stores are impure', x1_purity, 9, 'X'),
    Rule('C07.G4', 'folding only under a statically known context; constructors under REAL', g4_fold_context, 11, 'G'),
    Rule('C07.T1', 'literal forms of folded values are exact; fold keyed by expression; simplify iterates to a fixed point', t1_literal_forms, 11, 'T'),
    Rule('C07.D1', 'constants at merges and loop heads: both operands met, an unknown operand is top, loops iterated until stable (= C13.D2, partial evaluation)', _d1_partial_eval, 12, 'D'),
]

from ..selftest import Mutant  # noqa: E402

MUTANTS = [
    Mutant('statements-left-behind-a-spliced-return', DCE, "                if stmts and self._never_falls_through(stmts[-1]):\n                    if stmt is not block.stmts[-1]:\n                        self.eliminated = True\n                    break\n", "", 'C07.G3',
           'finding F110 before its repair: `if FAST: return x` / `return x + 1.0` makes simplify raise'),
    Mutant('one-returning-arm-counts-as-returning', DCE, "                    any(self._never_falls_through(s) for s in stmt.ift.stmts)\n                    and any(", "                    any(self._never_falls_through(s) for s in stmt.ift.stmts)\n                    or any(", 'C07.G3',
           'the statements after an if with one returning arm still run on the other path'),
    Mutant('loop-fixpoint-compares-constants-with-!=', PE, "                if not _same_element(new, old):", "                if new != old:", 'C07.D1',
           'finding F109 before its repair'),
    Mutant('copy-guard-ignores-loop-phis', COPY, "                if len(def_use.name_to_defs[d.site.expr.name]) != 1:\n                    continue\n",
           "                src = def_use.find_def_from_use(d.site.expr)\n                if any(isinstance(s, AssignDef) for s in def_use.successors[src]):\n                    continue\n", 'C07.G1',
           'seeded change C07e: a source reassigned in a loop body is followed by a phi, not by an assignment'),
    Mutant('shallow-copies-taken-for-new-lists', PURITY, "                case ListSlice():\n                    # a new list of the same elements\n                    sources.append(e.value)\n                case ListComp():\n                    sources += [e.elt, *e.iterables]\n                case Enumerate():\n                    sources.append(e.arg)\n                case Zip():\n                    sources += list(e.args)\n", "", 'C07.X1',
           'finding F91 before its repair: for i, row in enumerate(m): row[0] = 0 is pure to the analysis'),
    Mutant('list-literal-hides-its-rows', PURITY, "                case TupleExpr() | ListExpr():", "                case TupleExpr():", 'C07.X1'),
    Mutant('comprehension-target-taken-for-local', PURITY, "            case ListComp():\n                # a comprehension target names the elements of its iterables\n                e = TupleExpr(list(d.site.iterables), None)\n", "", 'C07.X1',
           'the iterables of a comprehension are followed wherever the comprehension itself is met, so the target adds nothing', expect='silent'),
    Mutant('one-draw-folded-to-a-constant', PE, "        if ctx.is_stochastic():\n            return None\n        try:", "        try:", 'C07.G4',
           'finding F74 before its repair: `1.0 / 3.0` under a stochastic binary16 context is reported constant'),
    Mutant('stochastic-test-inverted', PE, "        if ctx.is_stochastic():\n            return None\n        try:", "        if not ctx.is_stochastic():\n            return None\n        try:", 'C07.G4'),
    Mutant('copy-of-a-source-assigned-elsewhere', COPY, "                if len(def_use.name_to_defs[d.site.expr.name]) != 1:\n                    continue\n", "", 'C07.G1',
           'finding F8 before its repair: y = a; x = y; y = y + 1; return x  simplifies to a + 1'),
    Mutant('dce-analysis-of-another-function', DCE, "        func, eliminated = _DeadCodeEliminate(func, def_use).apply()", "        func, eliminated = _DeadCodeEliminate(SimplifyIf.apply(func), def_use).apply()", 'C07.P1'),
    Mutant('constants-merge-signed-zeros', 'fpy2/analysis/partial_eval.py', "        return a if _same_constant(a, b) else _TOP", "        return a if a == b else _TOP", 'C07.D1',
           'finding F30 before its repair'),
    Mutant('unknown-loop-entry-is-the-unit', 'fpy2/analysis/partial_eval.py', "                lhs = self.by_def.get(self.def_use.defs[phi.lhs], _TOP)\n                rhs = self.by_def.get(self.def_use.defs[phi.rhs], _TOP)\n                new",
           "                lhs = self.by_def.get(self.def_use.defs[phi.lhs])\n                rhs = self.by_def.get(self.def_use.defs[phi.rhs], _TOP)\n                new", 'C07.D1', 'seeded change C07a'),
    Mutant('copy-prop-checks-source (repair twin)', COPY,
           "                if any(isinstance(u, Var) for u in def_use.uses[d]):",
           "                src = def_use.find_def_from_use(d.site.expr)\n                if any(isinstance(u, Var) for u in def_use.uses[d]) and all(def_use.reach[u][src.name] is src for u in ()):",
           'C07.G1', 'consulting the reaching definition of the source satisfies the rule', expect='silent'),
    Mutant('subst-by-name', SUBST, "        d = self.def_use.find_def_from_use(e)\n        if d in self.subst:\n            return self.subst[d]",
           "        for d in self.subst:\n            if d.name == e.name:\n                return self.subst[d]", 'C07.G1'),
    Mutant('copy-of-any-expr', COPY, "                and isinstance(d.site.expr, Var)\n", "", 'C07.G1'),
    Mutant('dce-drops-impure-effect', DCE, "        if Purity.analyze_expr(stmt.expr, self.def_use):\n            self.eliminated = True\n            return None, ctx\n        return super()._visit_effect(stmt, ctx)",
           "        self.eliminated = True\n        return None, ctx", 'C07.G3'),
    Mutant('dce-removes-pure-loop', DCE, "        if isinstance(stmt.cond, BoolVal) and not stmt.cond.val:\n            self.eliminated = True\n            return None, ctx\n        return super()._visit_while(stmt, ctx)",
           "        if isinstance(stmt.cond, BoolVal) and not stmt.cond.val:\n            self.eliminated = True\n            return None, ctx\n        if self._is_empty_block(stmt.body) and Purity.analyze_expr(stmt.cond, self.def_use):\n            self.eliminated = True\n            return None, ctx\n        return super()._visit_while(stmt, ctx)", 'C07.G3'),
    Mutant('dce-impure-unused-assign', DCE, "                            and isinstance(d.site.target, Id)\n                            and Purity.analyze_expr(d.site.expr, self.def_use)\n", "                            and isinstance(d.site.target, Id)\n", 'C07.G3'),
    Mutant('dce-phi-arg-with-uses', DCE, "                        and len(self.def_use.uses[arg]) == 0\n", "", 'C07.G3',
           'the defect repaired by the fix: commit: an argument of an unused phi that is still read'),
    Mutant('dce-if-true-dropped', DCE, "            if stmt.cond.val:\n                # if True: ... -> ...\n                # return the block directly\n                self.eliminated = True\n                body, _ = self._visit_block(stmt.body, ctx)\n                return body, ctx\n            else:",
           "            if not stmt.cond.val:\n                self.eliminated = True\n                body, _ = self._visit_block(stmt.body, ctx)\n                return body, ctx\n            else:", 'C07.G3'),
    Mutant('dce-stale-defuse', DCE, "            self.def_use = DefineUse.analyze(self.func)\n", "            pass\n", 'C07.G3'),
    Mutant('copy-scheduled-for-any-use', COPY, "                if any(isinstance(u, Var) for u in def_use.uses[d]):", "                if len(def_use.uses[d]) > 0:", 'C07.G5',
           'finding F63 before its repair: simplify does not terminate on `ys = xs; ys[0] = 5.0; return xs[0]`'),
    Mutant('copy-scheduled-for-stores-too', COPY, "                if any(isinstance(u, Var) for u in def_use.uses[d]):", "                if any(isinstance(u, Var | IndexedAssign) for u in def_use.uses[d]):", 'C07.G5'),
    Mutant('unknown-call-pure', PURITY, "            case None:\n                # unknown function -> impure by default\n                raise _ImpureError(f'Impure: Unknown function call {e}')", "            case None:\n                pass", 'C07.X1'),
    Mutant('foreign-call-pure', PURITY, "            case _:\n                # any other foreign callable (e.g. `print`) -> impure by default\n                raise _ImpureError(f'Impure: call to foreign function {e}')", "            case _:\n                pass", 'C07.X1'),
    Mutant('param-store-pure', PURITY, "            case Argument() | FuncDef():\n                return True", "            case FuncDef():\n                return True", 'C07.X1'),
    Mutant('store-in-a-loop-is-local', PURITY, "        if isinstance(d, PhiDef) or isinstance(d.site, IndexedAssign):\n            return any(\n                self._may_be_outer(self.def_use.defs[i], seen)\n                for i in same_object_defs(d)\n            )\n",
           "        if isinstance(d, PhiDef) or isinstance(d.site, IndexedAssign):\n            return False\n", 'C07.X1', 'finding F62 before its repair: a helper that zeroes its argument in a loop is pure, the call is dropped'),
    Mutant('first-source-decides', PURITY, "                case Var():\n                    if self._may_be_outer(self.def_use.find_def_from_use(e), seen):\n                        return True", "                case Var():\n                    return self._may_be_outer(self.def_use.find_def_from_use(e), seen)", 'C07.X1',
           'seeded change C07d: `t = xs if c else tmp` is judged by the last source popped'),
    Mutant('store-through-an-alias-is-local', PURITY, "                case Var():\n                    if self._may_be_outer(self.def_use.find_def_from_use(e), seen):\n                        return True", "                case Var():\n                    pass", 'C07.X1'),
    Mutant('store-through-a-loop-target-is-local', PURITY, "            case ForStmt(iterable=e):\n                # the loop target names the elements of the iterable\n                pass\n", "", 'C07.X1'),
    Mutant('call-result-is-a-new-list', PURITY, "                case Call():\n                    # may hand back (part of) one of its arguments\n                    return True\n", "", 'C07.X1'),
    Mutant('fold-without-context', PE, "        if self._is_value(e.arg) and ctx is not None:", "        if self._is_value(e.arg):", 'C07.G4'),
    Mutant('ctor-under-outer-ctx', PE, "        self._visit_expr(stmt.ctx, REAL)", "        self._visit_expr(stmt.ctx, ctx)", 'C07.G4'),
    Mutant('unknown-with-keeps-outer-ctx', PE, "        new_ctx: Context | None = None\n        if self._is_value(stmt.ctx):", "        new_ctx: Context | None = ctx\n        if self._is_value(stmt.ctx):", 'C07.G4'),
    Mutant('bool-after-int', FOLD, "        case bool():                       # before int — bool is a subclass\n            return BoolVal(val, loc)\n", "", 'C07.T1'),
    Mutant('negzero-folded-to-zero', FOLD, "            if val.is_zero() and val.s:\n                # negative zero has no `Fraction` form; emit a signed literal\n                return Decnum('-0.0', loc)\n", "", 'C07.T1'),
    Mutant('fold-float-via-double', FOLD, "            return _rational_literal(val.as_rational(), loc)", "            return _rational_literal(Fraction(float(val)), loc)", 'C07.T1'),
]
