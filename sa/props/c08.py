"""
C08 — Loop and iterator restructuring preserves results.

Decided: synthesised index arithmetic is emitted under the exact integer
context; the iterable is materialised once and read through the temporary;
zip/enumerate (snapshots in the interpreter) are replaced by live reads only
with a mutation fact; temporaries come from a gensym seeded with the program's
names; remainder handling of both strategies; reduce-fusion shape; hoisting
masks of ReduceFusion; while-unroll shape.
"""

from __future__ import annotations

import ast

from ..core import Ctx, Rule
from ..dataflow import derived_names, guards_of, parent_map
from ..facts import ShapeError, call_name, calls_in, dotted, kwarg, norm, walk_no_nested
from .hoist_rules import Hoister, hoist_mask_rule
from .pairing_rules import analysis_pairing

FOR_UNROLL = 'fpy2/transform/for_unroll.py'
SPLIT = 'fpy2/transform/split_loop.py'
ZIP = 'fpy2/transform/zip_elim.py'
ENUM = 'fpy2/transform/enumerate_elim.py'
ITER = 'fpy2/transform/iter_elim.py'
REDUCE = 'fpy2/transform/reduce_fusion.py'
WHILE = 'fpy2/transform/while_unroll.py'
UTILS = 'fpy2/transform/utils.py'
RENAME = 'fpy2/transform/rename_target.py'

LOOP_TRANSFORMS = [FOR_UNROLL, SPLIT, ZIP, ENUM, ITER, REDUCE, WHILE]
ROUNDED_NODES = {'Add', 'Sub', 'Mul', 'Div', 'Fmod', 'Mod', 'Remainder', 'Pow', 'Neg', 'Fma'}


# ----------------------------------------------------------------------
# F1 index arithmetic under the integer context

def _arith_helpers(mod) -> set[str]:
    """Module-level functions whose body is `return <RoundedNode>(...)`."""
    out = set()
    for st in mod.tree.body:
        if isinstance(st, ast.FunctionDef):
            body = [s for s in st.body if not (isinstance(s, ast.Expr) and isinstance(s.value, ast.Constant))]
            if len(body) == 1 and isinstance(body[0], ast.Return) and isinstance(body[0].value, ast.Call) \
                    and call_name(body[0].value) in ROUNDED_NODES:
                out.add(st.name)
    return out


def _int_params(fn: ast.FunctionDef) -> set[str]:
    """Parameters of `fn` whose value ends up inside the statements of an integer_ctx(...) call."""
    params = {a.arg for a in fn.args.args}
    out = set()
    for k in calls_in(fn):
        if call_name(k) == 'integer_ctx' and k.args:
            for n in ast.walk(k.args[0]):
                if isinstance(n, ast.Name) and n.id in params:
                    out.add(n.id)
    return out


def f1_index_arithmetic(ctx: Ctx):
    repo = ctx.repo
    total = 0
    for rel in LOOP_TRANSFORMS:
        mod = repo.module(rel)
        helpers = _arith_helpers(mod)
        arith = ROUNDED_NODES | helpers
        # per-function summaries for same-module helpers/methods
        summaries: dict[str, tuple[list[str], set[str]]] = {}
        for q, f in repo.functions(rel):
            summaries[q.split('.')[-1]] = ([a.arg for a in f.args.args], _int_params(f))
        for q, fn in repo.functions(rel):
            if fn.name in helpers:
                continue
            parents = parent_map(fn)
            for k in [c for c in walk_no_nested(fn) if isinstance(c, ast.Call)]:
                if call_name(k) not in arith:
                    continue
                # a node rebuilt from the user's own expression (transform visitors) is not synthesised arithmetic
                if any(isinstance(a, ast.Call) and (call_name(a) or '').startswith('self._visit_expr') for a in k.args):
                    continue
                # nested inside another synthesised arithmetic node: judged at the outermost one
                cur = k
                nested = False
                while id(cur) in parents:
                    cur = parents[id(cur)]
                    if isinstance(cur, ast.Call) and call_name(cur) in arith:
                        nested = True
                        break
                if nested:
                    continue
                total += 1
                ctx.functions_analysed.add((rel, q))
                okk, why = _flows_to_integer_ctx(fn, k, parents, summaries)
                ctx.check(okk, rel, k, q, norm(k),
                          f'synthesised arithmetic is emitted under the ambient rounding context ({why}): under a narrow context '
                          f'the index or bound is rounded and the loop reads the wrong elements')
    if total < 6:
        raise ShapeError(f'only {total} synthesised arithmetic constructions found')


def _flows_to_integer_ctx(fn, node, parents, summaries) -> tuple[bool, str]:
    # (1) lexically inside integer_ctx(...) or inside an argument of a helper whose parameter flows there
    cur = node
    child = node
    while id(cur) in parents:
        child = cur
        cur = parents[id(cur)]
        if isinstance(cur, ast.Call):
            cn = call_name(cur) or ''
            if cn == 'integer_ctx':
                return True, 'inside integer_ctx(...)'
            short = cn.split('.')[-1]
            if short in summaries and (cn.startswith('self.') or '.' not in cn):
                params, ints = summaries[short]
                pos = params[1:] if params and params[0] == 'self' else params
                for i, a in enumerate(cur.args):
                    if any(n is child or n is node for n in ast.walk(a)) and i < len(pos) and pos[i] in ints:
                        return True, f'argument `{pos[i]}` of {short}, which emits it under integer_ctx'
    # (2) bound to a local that is later handed to integer_ctx / such a helper parameter
    derived = derived_names(fn, lambda n: n is node)
    if derived:
        for k in calls_in(fn):
            cn = call_name(k) or ''
            short = cn.split('.')[-1]
            if cn == 'integer_ctx' and k.args and any(isinstance(n, ast.Name) and n.id in derived for n in ast.walk(k.args[0])):
                return True, f'via local `{sorted(derived)[0]}` into integer_ctx(...)'
            if short in summaries:
                params, ints = summaries[short]
                pos = params[1:] if params and params[0] == 'self' else params
                for i, a in enumerate(k.args):
                    if i < len(pos) and pos[i] in ints and any(isinstance(n, ast.Name) and n.id in derived for n in ast.walk(a)):
                        return True, f'via local into `{pos[i]}` of {short}'
        return False, f'bound to {sorted(derived)} which never reaches integer_ctx(...)'
    return False, 'not inside integer_ctx(...) and not bound to anything that is'


def f1b_reads_index_exact(ctx: Ctx):
    """Element reads index with a bare variable or literal (no arithmetic inside the read)."""
    repo = ctx.repo
    n = 0
    for rel in (FOR_UNROLL, SPLIT, ZIP, ENUM):
        helpers = _arith_helpers(repo.module(rel))
        for q, fn in repo.functions(rel):
            for k in calls_in(fn):
                if call_name(k) != 'ListRef' or len(k.args) < 2:
                    continue
                n += 1
                idx = k.args[1]
                bad = [c for c in ast.walk(idx) if isinstance(c, ast.Call) and call_name(c) in (ROUNDED_NODES | helpers)]
                ctx.check(not bad, rel, k, q, norm(k), f'the read index contains rounded arithmetic {norm(bad[0]) if bad else ""}')
    if n < 5:
        raise ShapeError(f'only {n} element reads found')


# ----------------------------------------------------------------------
# F2 iterable materialised once

def f2_materialise_once(ctx: Ctx):
    repo = ctx.repo
    # for_unroll / split_loop: first emitted statement binds a fresh temp to the (visited) iterable; reads go through it
    for rel, cls, builders in ((FOR_UNROLL, '_ForUnroll', ('_build_strict', '_build_peel')), (SPLIT, '_SplitLoop', ('_build_strict', '_build_peel'))):
        for b in builders:
            q = f'{cls}.{b}'
            fn = ctx.fn(rel, q)
            t_assign = [s for s in fn.body if isinstance(s, ast.Assign) and dotted(s.targets[0]) == 't']
            good_t = len(t_assign) == 1 and norm(t_assign[0].value) == 'self.gensym.refresh(self.temp_id)'
            em = [s for s in fn.body if isinstance(s, (ast.Assign, ast.AnnAssign)) and dotted(getattr(s, 'target', None) or s.targets[0]) == 'emitted']  # type: ignore
            first = norm(em[0].value) if em else ''
            good_e = first in ('[_assign(t, iterable)]', '[Assign(t, None, iterable, None)]')
            ctx.check(good_t and good_e, rel, fn, q, 'emits `t = <iterable>` first, t fresh', f't: {[norm(s.value) for s in t_assign]}, emitted starts {first}')
            # the iterable expression is not used again in this builder
            uses = [n for n in ast.walk(fn) if isinstance(n, ast.Name) and n.id == 'iterable' and isinstance(n.ctx, ast.Load)]
            ctx.check(len(uses) == 1, rel, fn, q, 'the iterable expression is emitted exactly once', f'{len(uses)} uses')
        # reads go through the temp parameter `t`
        for q, fn in repo.functions(rel):
            for k in calls_in(fn):
                if call_name(k) == 'ListRef':
                    ctx.check(norm(k.args[0]) in ('_var(t)', 'Var(t, None)'), rel, k, q, f'read through the temporary: {norm(k)[:60]}', 'element read does not go through the materialised temporary')
    # zip / enumerate statement path: every source bound to a fresh _src before the loop, reads through them
    for rel, cls in ((ZIP, '_ZipElimInstance'), (ENUM, '_EnumerateElimInstance')):
        q = f'{cls}._rewrite_for'
        fn = ctx.fn(rel, q)
        loops = [s for s in walk_no_nested(fn) if isinstance(s, ast.For) and norm(s.iter) == 'plan.args']
        good = False
        if len(loops) == 1:
            body = loops[0].body
            good = len(body) == 3 and norm(body[0]) == "src = self.gensym.fresh('_src')" \
                and norm(body[1]) == 'ctx.stmts.append(Assign(src, None, arg, None))' and norm(body[2]) == 'src_names.append(src)'
        ctx.check(good, rel, fn, q, 'each source bound once to a fresh `_src` ahead of the loop', 'source binding preamble changed')
        reads = [k for k in calls_in(fn) if call_name(k) == 'ListRef']
        ctx.check(bool(reads) and all(norm(k) == 'ListRef(Var(s, None), Var(idx, None), None)' for k in reads), rel, fn, q,
                  'per-iteration reads are `_src[idx]`', f'reads: {[norm(k) for k in reads]}')
        # comprehension path: sources are inlined, so they must be pure O(1) access paths
        cq = f'{cls}._rewrite_comp_stage'
        cf = ctx.fn(rel, cq)
        guards = [s for s in walk_no_nested(cf) if isinstance(s, ast.If) and norm(s.test) == 'not all((is_access_path(a) for a in plan.args))'
                  and isinstance(s.body[0], ast.Return)]
        first_access = min([k.lineno for k in calls_in(cf) if call_name(k) in ('index_access',)] or [10 ** 9])
        ctx.check(len(guards) == 1 and guards[0].lineno < first_access, rel, cf, cq, 'comprehension path refuses sources that are not access paths before inlining them',
                  'sources are inlined per iteration without the purity/O(1) guard')
    ap = ctx.fn(ITER, 'is_access_path')
    allowed = set()
    for m in [n for n in walk_no_nested(ap) if isinstance(n, ast.Match)]:
        for c in m.cases:
            pats = c.pattern.patterns if isinstance(c.pattern, ast.MatchOr) else [c.pattern]
            for p in pats:
                if isinstance(p, ast.MatchClass):
                    allowed.add(dotted(p.cls))
    ctx.check(allowed == {'Var', 'Fst', 'Snd', 'ListRef', 'Integer'}, ITER, ap, 'is_access_path', 'access paths: Var, fst/snd, indexing, integer constants only',
              f'accepts {sorted(a or "?" for a in allowed)}: anything that allocates, calls or rounds must not be re-evaluated per element')


# ----------------------------------------------------------------------
# G1 snapshot iterables

def _mutation_fact(n: ast.AST) -> bool:
    if isinstance(n, ast.Name) and n.id in ('IndexedAssign', 'Alias', 'Purity', 'Escape', 'ListSlice'):
        return True
    if isinstance(n, ast.Attribute) and n.attr in ('may_alias', 'is_mutated', 'mutates', 'aliases'):
        return True
    return False


def g1_snapshot_iterables(ctx: Ctx):
    """
    The interpreter materialises zip(...) / enumerate(...) into a new list before the loop
    (BytecodeCompiler: list(zip(..., strict=True)); _eval_enumerate builds a list), so the loop
    iterates a snapshot.  Replacing it by live `_src[i]` reads is only equivalent if the body
    cannot store into the sources, or the sources are copied.
    """
    repo = ctx.repo
    # premise: the interpreter does snapshot
    from .c04 import compiler_arms, names_called_in_arm
    z = compiler_arms(repo, '_visit_naryop').get('Zip')
    snap_zip = z is not None and 'list' in names_called_in_arm(z)
    en = repo.func('fpy2/interpret/byte.py', '_eval_enumerate')
    snap_enum = any(isinstance(s, ast.Return) and isinstance(s.value, ast.ListComp) for s in walk_no_nested(en))
    for rel, cls, snap, what in ((ZIP, '_ZipElimInstance', snap_zip, 'zip'), (ENUM, '_EnumerateElimInstance', snap_enum, 'enumerate')):
        q = f'{cls}._rewrite_for'
        fn = ctx.fn(rel, q)
        if not snap:
            ctx.ok(rel, fn, q, f'{what} is not materialised by the interpreter: live reads are equivalent', nontrivial=False)
            continue
        c = repo.cls(rel, cls)
        vf = [s for s in c.body if isinstance(s, ast.FunctionDef) and s.name == '_visit_for'][0]
        fact = any(_mutation_fact(n) for n in ast.walk(fn)) or any(_mutation_fact(n) for n in ast.walk(vf))
        ctx.check(fact, rel, fn, q, f'for ... in {what}(...): snapshot replaced by live indexed reads',
                  f'the interpreter iterates a list built from the sources before the loop starts, the rewrite reads `_src[i]` on every '
                  f'iteration; nothing checks that the loop body does not store into a source (no mutation/alias fact, no copy), so a body '
                  f'doing `xs[j] = ...` observes its own writes only after the rewrite')


# ----------------------------------------------------------------------
# F3 fresh names

def f3_fresh_names(ctx: Ctx):
    repo = ctx.repo
    n = 0
    for rel in LOOP_TRANSFORMS:
        for q, fn in repo.functions(rel):
            for k in calls_in(fn):
                if call_name(k) != 'Gensym':
                    continue
                n += 1
                arg = k.args[0] if k.args else kwarg(k, 'reserved')
                good = arg is not None and norm(arg) in ('reaching_defs.names()', 'def_use.names()', 'self.def_use.names()')
                ctx.check(good, rel, k, q, norm(k), 'the name generator is not seeded with the names the program already defines: a generated '
                                                    'temporary can capture a user variable')
    if n < 5:
        raise ShapeError(f'only {n} Gensym constructions found')
    # names placed in binding positions of emitted statements come from the generator or from the user's own target
    for rel in (FOR_UNROLL, SPLIT, ZIP, ENUM, REDUCE):
        for q, fn in repo.functions(rel):
            fresh = derived_names(fn, lambda x: isinstance(x, ast.Call) and (call_name(x) or '') in
                                  ('self.gensym.fresh', 'self.gensym.refresh', 'self._index_name'))
            params = {a.arg for a in fn.args.args}
            for k in calls_in(fn):
                cn = call_name(k)
                tgt = None
                if cn in ('Assign', 'ForStmt') and k.args:
                    tgt = k.args[0]
                elif cn == '_assign' and k.args:
                    tgt = k.args[0]
                if tgt is None:
                    continue
                names = {x.id for x in ast.walk(tgt) if isinstance(x, ast.Name)}
                user = any(isinstance(x, ast.Call) and call_name(x) in ('copy_target', 'self._visit_binding') for x in ast.walk(tgt)) \
                    or norm(tgt) in ('slot', 'target', 'stmt.target')
                good = user or bool(names & fresh) or bool(names & params)
                ctx.check(good, rel, k, q, f'binds {norm(tgt)} in {cn}(...)', 'an emitted binding uses a name that is neither generated nor the user\'s own target')
    # nested-loop temporaries get fresh names per unrolled copy
    q = '_ForUnroll._body_copy'
    fn = ctx.fn(FOR_UNROLL, q)
    tests = [s for s in walk_no_nested(fn) if isinstance(s, ast.If) and norm(s.test) == 'nested_gen']
    good = len(tests) == 1 and 'RenameTarget.apply_block(body, {g: self.gensym.refresh(g) for g in nested_gen})' in norm(tests[0].body[0], 400) \
        and norm(tests[0].orelse[0]) == 'copy = clone_block(body)'
    ctx.check(good, FOR_UNROLL, fn, q, 'temporaries minted for nested loops are renamed per copy; otherwise the body is cloned', 'per-copy renaming changed')
    vf = ctx.fn(FOR_UNROLL, '_ForUnroll._visit_for')
    txt = norm(vf, 100000)
    good = 'gen_before = set(self.gensym.generated)' in txt and 'nested_gen = set(self.gensym.generated) - gen_before' in txt
    ctx.check(good, FOR_UNROLL, vf, '_ForUnroll._visit_for', 'nested_gen = names generated while rewriting this body', 'bookkeeping of generated names changed')


# ----------------------------------------------------------------------
# F4 the generated loop control reads only temporaries of its own

def _named_id_ann(a: ast.AST | None) -> bool:
    return a is not None and 'NamedId' in {n.id for n in ast.walk(a) if isinstance(n, ast.Name)} and \
        not any(isinstance(n, ast.Subscript) for n in ast.walk(a))


def f4_control_names(ctx: Ctx):
    """The body of the loop being rewritten runs between the reads the generated control makes (`range(0, n, f)`, the
    chunk bound `i + f`, `n - fmod(n, f)`): a control name the body can assign changes the iteration space under way.
    So every name the builders put into the generated control is one the generator minted for this site, and a caller
    expression that feeds the control (the runtime split factor) is evaluated once, into such a name, ahead of the loop."""
    fresh_call = lambda x: isinstance(x, ast.Call) and (call_name(x) or '') in ('self.gensym.fresh', 'self.gensym.refresh')  # noqa: E731
    n_args = 0
    for rel, cls in ((FOR_UNROLL, '_ForUnroll'), (SPLIT, '_SplitLoop')):
        methods = {f.name: f for f in ctx.repo.cls(rel, cls).body if isinstance(f, ast.FunctionDef)}
        for name, fn in methods.items():
            q = f'{cls}.{name}'
            own_id_params = {a.arg for a in fn.args.args if _named_id_ann(a.annotation)}

            parents = parent_map(fn)

            def arms(node: ast.AST) -> dict[int, str]:
                return {id(t): arm for t, arm in guards_of(fn, node, parents) if arm in ('then', 'else')}

            def is_fresh(e: ast.AST) -> bool:
                if not isinstance(e, ast.Name):
                    return False
                if e.id in own_id_params:
                    return True         # checked where this method is called
                here = arms(e)
                # a definition in the other arm of an `if` the read sits in does not reach it
                defs = [s.value for s in walk_no_nested(fn) if isinstance(s, ast.Assign) and any(isinstance(t, ast.Name) and t.id == e.id for t in s.targets)
                        and not any(here.get(t) not in (None, arm) for t, arm in arms(s).items())]
                comp = [g.iter for c in ast.walk(fn) if isinstance(c, (ast.ListComp, ast.GeneratorExp)) for g in c.generators
                        if isinstance(g.target, ast.Name) and g.target.id == e.id]
                comp += [v for c in ast.walk(fn) if isinstance(c, (ast.ListComp, ast.GeneratorExp)) for g in c.generators
                         if isinstance(g.target, ast.Tuple) and isinstance(g.iter, ast.Call) and call_name(g.iter) == 'zip'
                         for t, v in zip(g.target.elts, g.iter.args) if isinstance(t, ast.Name) and t.id == e.id]
                if defs:
                    return all(fresh_call(d) or (isinstance(d, ast.ListComp) and fresh_call(d.elt)) for d in defs)
                if comp:
                    return all(is_fresh(it) for it in comp)
                return False
            for k in calls_in(fn):
                cn = call_name(k) or ''
                # (a) arguments bound to a NamedId parameter of a sibling method
                if cn.startswith('self.') and cn[5:] in methods:
                    callee = methods[cn[5:]]
                    params = callee.args.args[1:]
                    pairs = list(zip(params, k.args)) + [(p, kw.value) for kw in k.keywords for p in params + callee.args.kwonlyargs if p.arg == kw.arg]
                    for p, a in pairs:
                        if not _named_id_ann(p.annotation):
                            continue
                        n_args += 1
                        is_int = 'int' in {x.id for x in ast.walk(p.annotation) if isinstance(x, ast.Name)} and isinstance(a, ast.Name) and not is_fresh(a) \
                            and not any(isinstance(d, ast.Call) and (call_name(d) or '').startswith('self.') and call_name(d) not in ('self._static_factor',)
                                        for s in walk_no_nested(fn) if isinstance(s, ast.Assign) and any(isinstance(t, ast.Name) and t.id == a.id for t in s.targets) for d in [s.value])
                        ctx.check(is_fresh(a) or is_int, rel, k, q, f'{cn}(.. {p.arg}={norm(a)} ..): a control name is one the generator minted for this site (or a compile-time integer)',
                                  f'`{norm(a)}` is not bound from self.gensym.refresh/fresh in {name}: the loop body can assign the variable the generated control reads')
                # (b) names read by emitted control expressions
                if cn in ('Var', '_var') and k.args and isinstance(k.args[0], ast.Name):
                    n_args += 1
                    ctx.check(is_fresh(k.args[0]), rel, k, q, f'emitted read {norm(k)} is of a generated name', f'`{norm(k.args[0])}` is not a generated name')
    # (c) the runtime factor is evaluated once, unconditionally, into the control name
    q = '_SplitLoop._dynamic_prelude'
    fn = ctx.fn(SPLIT, q)
    rets = [s for s in walk_no_nested(fn) if isinstance(s, ast.Return)]
    elts = []
    if len(rets) == 1 and isinstance(rets[0].value, ast.Call) and rets[0].value.args and isinstance(rets[0].value.args[0], ast.List):
        elts = [norm(e) for e in rets[0].value.args[0].elts if not isinstance(e, ast.Starred)]
    good = 'Assign(f, None, factor, None)' in elts and 'Assign(n, None, Len(None, Var(t, None), None), None)' in elts \
        and any(e.startswith('AssertStmt(Compare([CompareOp.GE], [Var(f, None), Integer(1, None)]') for e in elts)
    ctx.check(good, SPLIT, rets[0] if rets else fn, q, 'the prelude always binds the factor and the length to their control names and rejects a factor below 1',
              f'unconditional prelude statements: {elts}')
    for b in ('_build_strict', '_build_peel'):
        bf = ctx.fn(SPLIT, f'_SplitLoop.{b}')
        uses = [n for n in ast.walk(bf) if isinstance(n, ast.Name) and n.id == 'factor' and isinstance(n.ctx, ast.Load)]
        at = [k for k in calls_in(bf) if call_name(k) == 'self._dynamic_prelude' and len(k.args) >= 4 and k.args[3] in uses]
        ctx.check(len(uses) == 1 and len(at) == 1, SPLIT, bf, f'_SplitLoop.{b}', 'the factor expression goes to the prelude, once, and nowhere else', f'{len(uses)} uses of `factor`')
    if n_args < 20:
        raise ShapeError(f'only {n_args} control-name positions read')


# ----------------------------------------------------------------------
# P1 remainder handling

def p1_remainder(ctx: Ctx):
    # ---- for_unroll
    q = '_ForUnroll._build_peel'
    fn = ctx.fn(FOR_UNROLL, q)
    txt = norm(fn, 100000)
    ctx.check('_assign(m, _sub(_var(n), _fmod(_var(n), _int(k))))' in txt and '_assign(n, _len(_var(t)))' in txt, FOR_UNROLL, fn, q,
              'PEEL, unknown length: n = len(t); m = n - fmod(n, k)', 'main-region bound formula changed')
    ctx.check('self._main_loop(t, _var(m), k, stmt.target, body, stmt.loc, nested_gen)' in txt, FOR_UNROLL, fn, q, 'main loop runs to m', 'main loop bound changed')
    ctx.check('_range(_var(m), _var(n), _int(1))' in txt and 'self._body_copy(stmt.target, t, _var(rem_idx), body=body, nested_gen=nested_gen)' in txt, FOR_UNROLL, fn, q,
              'residual loop over range(m, n, 1) runs one body copy per element', 'residual loop changed or missing')
    ctx.check('m = size // k * k' in txt and 'for p in range(m, size):' in txt and 'self._body_copy(stmt.target, t, _int(p), body=body, nested_gen=nested_gen)' in txt,
              FOR_UNROLL, fn, q, 'PEEL, static length: m = (size // k) * k, straight-line copies for p in [m, size)', 'static peel changed')
    ctx.check('if m > 0:' in txt, FOR_UNROLL, fn, q, 'empty main region dropped only when m == 0', 'guard changed')
    q = '_ForUnroll._build_strict'
    fn = ctx.fn(FOR_UNROLL, q)
    txt = norm(fn, 100000)
    ctx.check('AssertStmt(_eq(_fmod(_var(n), _int(k)), _int(0)), None, None)' in txt, FOR_UNROLL, fn, q, 'STRICT, unknown length: runtime assert fmod(n, k) == 0',
              'divisibility is no longer asserted at run time')
    ctx.check('assert size % k == 0' in txt, FOR_UNROLL, fn, q, 'STRICT, static length: divisibility established before rewriting', 'static divisibility check removed')
    q = '_ForUnroll._refuses'
    fn = ctx.fn(FOR_UNROLL, q)
    txt = norm(fn, 100000)
    ctx.check('if size is None or size % k == 0: return None' in txt.replace('\n', ' ') or ('size % k == 0' in txt and 'k = self.times + 1' in txt),
              FOR_UNROLL, fn, q, 'STRICT refuses a statically indivisible length (k = times + 1)', 'refusal condition changed')
    q = '_ForUnroll._main_loop'
    fn = ctx.fn(FOR_UNROLL, q)
    txt = norm(fn, 100000)
    ctx.check('_range(_int(0), bound, _int(k))' in txt, FOR_UNROLL, fn, q, 'main loop steps by k from 0 to the bound', 'range changed')
    ctx.check('offsets = [self.gensym.refresh(self.idx_id) for _ in range(1, k)]' in txt
              and '[_assign(off, _add(_var(idx), _int(j))) for j, off in zip(range(1, k), offsets)]' in txt, FOR_UNROLL, fn, q,
              'offsets i+1 .. i+(k-1), one fresh name each', 'offset computation changed')
    ctx.check('for index in [_var(idx), *(_var(off) for off in offsets)]:' in txt, FOR_UNROLL, fn, q, 'k body copies, reading t[i], t[i+1], ... in order', 'copy order changed')
    q = '_ForUnroll._body_copy'
    fn = ctx.fn(FOR_UNROLL, q)
    txt = norm(fn, 100000)
    ctx.check('stmts: list[Stmt] = [_assign(copy_target(target), ListRef(_var(t), index, None))]' in txt and 'stmts.extend(copy.stmts)' in txt, FOR_UNROLL, fn, q,
              'each copy: rebind the loop target to t[index], then the body (read adjacent to its body)', 'copy shape changed')
    # ---- split_loop
    q = '_SplitLoop._build_peel'
    fn = ctx.fn(SPLIT, q)
    txt = norm(fn, 100000)
    ctx.check('Assign(m_id, None, Sub(Var(n, None), Fmod(None, Var(n, None), Var(f, None), None), None), None)' in txt, SPLIT, fn, q,
              'PEEL, dynamic: m = n - fmod(n, f)', 'bound formula changed')
    ctx.check('self._chunk_loop(t, f, m_id, stmt.target, body, stmt.loc)' in txt and 'self._residual_loop(t, m_id, n, stmt.target, body, stmt.loc)' in txt, SPLIT, fn, q,
              'chunks cover [0, m), residual loop covers [m, n)', 'region bounds changed')
    ctx.check('m = size // fval * fval' in txt and 'if m < size:' in txt and 'self._residual_loop(t, m, size, stmt.target, body, stmt.loc)' in txt, SPLIT, fn, q,
              'PEEL, static: residual over [m, size) whenever m < size', 'static remainder changed')
    q = '_SplitLoop._build_strict'
    fn = ctx.fn(SPLIT, q)
    txt = norm(fn, 100000)
    ctx.check('AssertStmt(Compare([CompareOp.EQ], [Fmod(None, Var(n, None), Var(f, None), None), Integer(0, None)], None), None, None)' in txt, SPLIT, fn, q,
              'STRICT, dynamic: runtime assert fmod(n, f) == 0', 'divisibility assert changed')
    q = '_SplitLoop._dynamic_prelude'
    fn = ctx.fn(SPLIT, q)
    txt = norm(fn, 100000)
    ctx.check('AssertStmt(Compare([CompareOp.GE], [Var(f, None), Integer(1, None)], None), None, None)' in txt and 'Assign(n, None, Len(None, Var(t, None), None), None)' in txt,
              SPLIT, fn, q, 'dynamic factor asserted >= 1 (a non-positive step would skip the loop); n = len(t)', 'prelude changed')
    q = '_SplitLoop._chunk_loop'
    fn = ctx.fn(SPLIT, q)
    txt = norm(fn, 100000)
    ctx.check('Assign(hi, None, Add(Var(outer, None), self._ref(f), None), None)' in txt
              and 'Range3(None, Var(outer, None), Var(hi, None), Integer(1, None), None)' in txt
              and 'Range3(None, Integer(0, None), self._ref(bound), self._ref(f), None)' in txt, SPLIT, fn, q,
              'outer steps by f over [0, bound); inner covers [outer, outer + f)', 'chunk bounds changed')
    q = '_SplitLoop._residual_loop'
    fn = ctx.fn(SPLIT, q)
    txt = norm(fn, 100000)
    ctx.check('Range3(None, self._ref(lo), self._ref(hi), Integer(1, None), None)' in txt and '*clone_block(body).stmts' in txt, SPLIT, fn, q,
              'residual loop over [lo, hi) with a fresh copy of the body', 'residual loop changed')
    # ---- the static length both transforms decide the remainder with: stated by the array-size analysis and by nothing
    # else (a second opinion computed from the syntax of the iterable has to agree with Python's len(range(..)) on every
    # step and span, and is one more place to get floor / ceiling wrong)
    q = 'static_size'
    fn = ctx.fn(UTILS, q)
    params = [a.arg for a in fn.args.args]
    derived = {params[0]}
    for _ in range(4):
        for s in walk_no_nested(fn):
            if isinstance(s, ast.Assign) and any(isinstance(x, ast.Name) and x.id in derived for x in ast.walk(s.value)):
                derived |= {t.id for t in s.targets if isinstance(t, ast.Name)}
    for r in [s for s in walk_no_nested(fn) if isinstance(s, ast.Return)]:
        v = r.value
        from_analysis = v is None or (isinstance(v, ast.Constant) and v.value is None) or any(isinstance(x, ast.Name) and x.id in derived for x in ast.walk(v))
        ctx.check(from_analysis, UTILS, r, q, f'`{norm(r)}`: a static length comes from the array-size analysis (or is unknown)',
                  'a length computed beside the analysis: with `(stop - start) // step` the last element of range(0, 5, 2) is dropped by unroll_for and split')


# ----------------------------------------------------------------------
# T1 reduce fusion

def t1_reduce_fusion(ctx: Ctx):
    q = '_ReduceFusionInstance._fuse'
    fn = ctx.fn(REDUCE, q)
    txt = norm(fn, 100000)
    ctx.check('is_any = isinstance(e, AnyOf)' in txt and 'op = Or if is_any else And' in txt, REDUCE, fn, q, 'any combines with `or`, all with `and`', 'operator selection changed')
    ctx.check('ctx.stmts.append(Assign(acc, None, BoolVal(not is_any, e.loc), e.loc))' in txt, REDUCE, fn, q, 'seed: any -> False, all -> True', 'identity element changed')
    ctx.check('combine = op([Var(acc, e.loc), Var(elt, e.loc)], e.loc)' in txt, REDUCE, fn, q, 'accumulator first: acc <op> b', 'combine changed')
    ctx.check('body = StmtBlock([Assign(elt, None, elt_expr, e.loc), Assign(acc, None, combine, e.loc)])' in txt, REDUCE, fn, q,
              'the element is bound before combining, so short-circuiting skips no element evaluation', 'element is no longer bound first')
    appends = [k for k in calls_in(fn) if call_name(k) == 'ctx.stmts.append']
    loop = appends[1].args[0] if len(appends) == 2 and appends[1].args else None
    ctx.check(len(appends) == 2 and 'Assign(acc' in norm(appends[0]) and isinstance(loop, ast.Call) and call_name(loop) == 'ForStmt' and len(loop.args) >= 3
              and norm(loop.args[1]) == 'iterable', REDUCE, fn, q, 'seed emitted before the loop; the loop runs over the (once visited) iterable',
              f'emission order: {[norm(a)[:60] for a in appends]}')
    # a comprehension target is local to the comprehension, a `for` target is not: the loop must bind names of its own
    fresh = derived_names(fn, lambda x: isinstance(x, ast.Call) and (call_name(x) or '') in ('self.gensym.refresh', 'self.gensym.fresh'))
    renamed = derived_names(fn, lambda x: isinstance(x, ast.Call) and (call_name(x) or '') in ('RenameTarget.apply_block', 'RenameTarget.apply')
                            and len(x.args) >= 2 and bool({n.id for n in ast.walk(x.args[1]) if isinstance(n, ast.Name)} & fresh))
    tgt_ok = isinstance(loop, ast.Call) and len(loop.args) >= 3 and all(bool({n.id for n in ast.walk(a) if isinstance(n, ast.Name)} & renamed) for a in (loop.args[0], loop.args[2]))
    ctx.check(tgt_ok, REDUCE, loop or fn, q, 'the loop target and body are renamed to generator names (the iterable is not)',
              'the `for` rebinds, and leaves bound, an outer variable that has the comprehension target\'s name: `r = any([x > 1 for x in xs]); return x` returns the last element')
    ctx.check("acc = self.gensym.fresh('acc')" in txt and "elt = self.gensym.fresh('b')" in txt, REDUCE, fn, q, 'accumulator and element temporaries are fresh', 'names changed')
    ctx.check('elt_expr = self._visit_expr(comp.elt, None)' in txt, REDUCE, fn, q, 'nothing is hoisted out of the element expression', 'element visited with a preamble')
    ve = ctx.fn(REDUCE, '_ReduceFusionInstance._visit_expr')
    t = norm(ve, 100000)
    ctx.check('len(e.arg.targets) == 1' in t and 'isinstance(e, (AnyOf, AllOf))' in t and 'isinstance(ctx, _Ctx)' in t, REDUCE, ve, '_ReduceFusionInstance._visit_expr',
              'fuses only single-stage any/all where a statement slot exists', 'applicability guard changed')


# ----------------------------------------------------------------------
# W1 while unroll

def x2_generated_names_are_fresh(ctx: Ctx):
    """A rewriter takes the names it introduces -- loop counters, temporaries, renamed targets -- from a generator that
    never hands out the same name twice.  That is what keeps two rewrites of one function apart: the counter of a loop
    generated inside another generated loop must not be the outer one's (`[.. for a, b in zip(xs, ys) for c, d in zip(zs,
    ws)]` reads xs at the inner index otherwise).  The guarantee is lost the moment a generated name is *kept*: so, in
    every rewriter of `fpy2/transform`, no name obtained from `gensym.fresh` / `gensym.refresh` is stored in the
    rewriter's own state (a plain attribute of `self`), directly or through a local."""
    n = 0
    for rel in sorted(r_ for r_ in ctx.repo.modules if r_.startswith('fpy2/transform/') and r_.endswith('.py')):
        for q, fn in ctx.repo.functions(rel):
            gens = [k for k in calls_in(fn) if (call_name(k) or '').endswith(('gensym.fresh', 'gensym.refresh'))]
            if not gens or '.' not in q:
                continue
            n += len(gens)
            # locals that hold a generated name (or a container built from them)
            holds: set[str] = set()
            changed = True
            while changed:
                changed = False
                for s in ast.walk(fn):
                    if isinstance(s, ast.Assign) and len(s.targets) == 1 and isinstance(s.targets[0], ast.Name) and s.targets[0].id not in holds:
                        v = s.value
                        if any(x in gens for x in ast.walk(v)) or any(isinstance(x, ast.Name) and x.id in holds for x in ast.walk(v)):
                            holds.add(s.targets[0].id)
                            changed = True
            kept = []
            for s in ast.walk(fn):
                tgts = s.targets if isinstance(s, ast.Assign) else [s.target] if isinstance(s, (ast.AugAssign, ast.AnnAssign)) else []
                for t in tgts:
                    # (an entry of a table keyed by what the name is for -- `self.expr_to_name[e] = fresh` -- is one name
                    # per key, not one name for everything: only a plain slot is a name kept for reuse)
                    base = t
                    if isinstance(base, ast.Attribute) and isinstance(base.value, ast.Name) and base.value.id == 'self' and s.value is not None:
                        v = s.value
                        if any(x in gens for x in ast.walk(v)) or any(isinstance(x, ast.Name) and x.id in holds for x in ast.walk(v)):
                            kept.append(s)
            ctx.check(not kept, rel, kept[0] if kept else fn, q, f'{q}: the {len(gens)} generated name(s) are used where they are made, none is kept in the rewriter',
                      f'`{norm(kept[0])[:100]}` keeps a generated name for later rewrites: two loops generated in one function share a counter, and a loop nested in another reads the outer sources at the inner index' if kept else '')
    if n < 40:
        raise ShapeError(f'only {n} uses of the name generator found in fpy2/transform (66 confirmed by hand)')


def w1_while_unroll(ctx: Ctx):
    q = '_WhileUnroll._visit_while'
    fn = ctx.fn(WHILE, q)
    txt = norm(fn, 100000)
    ctx.check('ret_stmt: Stmt = WhileStmt(cond, body, stmt.loc)' in txt, WHILE, fn, q, 'innermost: the original loop', 'changed')
    loops = [s for s in walk_no_nested(fn) if isinstance(s, ast.For) and norm(s.iter) == 'range(self.times)']
    good = False
    if len(loops) == 1:
        b = [norm(s) for s in loops[0].body]
        good = b == ['cond = self._visit_expr(stmt.cond, ctx)', 'body, _ = self._visit_block(stmt.body, ctx)',
                     'unrolled = StmtBlock(body.stmts + [ret_stmt])', 'ret_stmt = If1Stmt(cond, unrolled, stmt.loc)']
    ctx.check(good, WHILE, fn, q, 'each unroll: if <cond>: <fresh body copy>; <rest> (condition re-tested before every copy)', 'unroll step changed')


EXPLANATION = (
    'Static rules over the loop/iterator transforms (ast only). Decided: (F1) every synthesised rounded arithmetic '
    'node (Add/Sub/Fmod/... and the _add/_sub/_fmod helpers) flows into the statement list of an integer_ctx(...) call, '
    'directly, through a local, or through a helper parameter that does; (F1b) element reads index with bare '
    'variables/literals; (F2) the iterable is bound once to a fresh temporary and all reads go through it, zip/enumerate '
    'sources are bound once, the comprehension path inlines only pure O(1) access paths; (G1) zip/enumerate are '
    'snapshots in the interpreter, replacing them by live reads needs a mutation fact (violated: listed finding F10); '
    '(F3) generators are seeded with the program\'s names, emitted bindings use generated names or the user\'s target, '
    'nested-loop temporaries are renamed per copy; (P1) PEEL: m = n - fmod(n,k), main loop to m, residual [m,n); '
    'STRICT: runtime assert or static refusal; chunk bounds; (T1) reduce fusion identity/operator/bind-before-combine; '
    '(S1) ReduceFusion masks conditionally evaluated positions (violated for while conditions and and/or tails: F18); '
    '(W1) while-unroll shape. NOT decided: the values of the index arithmetic, Python range semantics.'
)
ASSUMPTIONS = ['INTEGER context arithmetic is exact for the index range', 'gensym refresh/fresh never returns a reserved name']

REDUCE_HOISTER = Hoister(REDUCE, '_ReduceFusionInstance', 'the fused reduction loop', extra_positions=('with-header',))


# ----------------------------------------------------------------------
# X1 shadowing: a comprehension target shadows through nested tuple patterns too

def x1_shadowing_names(ctx: Ctx):
    """When a zip / enumerate target is replaced by an indexed read, an inner comprehension that re-binds the same name
    must keep its own variable.  `_binding_names` says which names a target binds; it is evaluated on nested patterns."""
    from ..minipy import Interp, Obj
    fn = ctx.fn(ITER, '_binding_names')
    funcs = {s.name: s for s in ctx.repo.module(ITER).tree.body if isinstance(s, ast.FunctionDef)}

    def name(n):
        return Obj('NamedId', base=n)

    def tup(*elts):
        return Obj('TupleBinding', elts=list(elts))
    under = Obj('UnderscoreId')
    a, b, c, d = name('a'), name('b'), name('c'), name('d')
    cases = [
        ('a', a, ['a']), ('_', under, []), ('(a, b)', tup(a, b), ['a', 'b']), ('((a, c), d)', tup(tup(a, c), d), ['a', 'c', 'd']),
        ('(a, (_, (b, c)))', tup(a, tup(under, tup(b, c))), ['a', 'b', 'c']), ('(_, _)', tup(under, under), []),
    ]
    bad = None
    for txt, target, want in cases:
        got = Interp(funcs).call_function(fn, [target])
        names = [x.fields['base'] for x in got]
        if names != want and bad is None:
            bad = f'target `{txt}` binds {want}, the helper reports {names}'
    ctx.check(bad is None, ITER, fn, '_binding_names', 'every name a target binds is reported, through nested tuple patterns, underscores excluded',
              (bad or '') + ': an inner comprehension re-binding a substituted name through a nested pattern would have its own variable replaced by the outer indexed read')
    # the scopes of a comprehension `[E for x in I0 for y in I1]`: I0 is evaluated in the enclosing scope, I1 sees x only, E
    # sees both.  SubstNames._visit_list_comp is evaluated, from its source, with x, y and an unrelated z all substituted.
    sn = ctx.fn(ITER, 'SubstNames._visit_list_comp')
    smeths = {n: f for n, (_, _, f) in ctx.repo.methods(ITER, 'SubstNames', inherited=False).items()}
    x, y, z = name('x'), name('y'), name('z')

    def var(n):
        return Obj('Var', name=n)
    rows = []
    for i0, i1, elt in ((x, x, x), (y, y, y), (z, z, z)):
        comp = Obj('ListComp', targets=[x, y], iterables=[var(i0), var(i1)], elt=var(elt), loc=None)
        me = Obj('SubstNames', _subst={x: 'X', y: 'Y', z: 'Z'})
        it = Interp(funcs, smeths, self_obj=me, is_a=lambda k, c: k == c)

        def visit(e, c, it=it):
            return it.call_function(smeths['_visit_var'], [e, c], bound_self=True) if isinstance(e, Obj) and e.kind == 'Var' else e
        it.overrides.update({'self._visit_expr': visit, 'self._visit_binding': lambda b, c: b, 'ListComp': lambda t, i, e, loc: (i, e),
                             'super()._visit_var': lambda e, c: e, 'super()._visit_list_comp': lambda e, c: ([visit(v, c) for v in e.fields['iterables']], visit(e.fields['elt'], c))})
        (g0, g1), ge = it.call_function(sn, [comp, None], bound_self=True)
        rows.append((i0.fields['base'], g0, g1, ge))
        restored = me.fields['_subst'] == {x: 'X', y: 'Y', z: 'Z'}
        ctx.check(restored, ITER, sn, 'SubstNames._visit_list_comp', 'the shadowed substitutions are restored after the comprehension', 'a substitution stays switched off after a nested comprehension')
    is_sub = lambda v: isinstance(v, str)  # noqa: E731
    got = {n: (is_sub(a), is_sub(b), is_sub(c)) for n, a, b, c in rows}
    want = {'x': (True, False, False), 'y': (True, True, False), 'z': (True, True, True)}
    ctx.check(got == want, ITER, sn, 'SubstNames._visit_list_comp', 'substitution follows the scopes of the stages: first iterable outer, a later iterable sees earlier targets only, the element sees all',
              f'(first iterable, second iterable, element) substituted: {got}, scopes give {want}: `[[x * 2 for x in x] for i, x in enumerate(xss)]` iterates over the outer x')
    # a stage that re-binds what an earlier stage eliminated (or what its inlined reads use) stops the rewrite
    sr = funcs.get('stage_rebinds')
    if sr is None:
        ctx.bad(ITER, None, 'stage_rebinds', 'a later stage re-binding an eliminated name', 'helper not found')
    else:
        xs, i_ = name('xs'), name('i')
        ref = Obj('ListRef', value=var(xs), index=var(i_))
        reads = lambda exprs: {v.fields['name'] for e in exprs for v in ([e.fields['value'], e.fields['index']] if e.kind == 'ListRef' else [e])}  # noqa: E731
        for label, target, want_stop in (('the eliminated target', x, True), ('the index of the inlined read', i_, True), ('the source of the inlined read', xs, True),
                                         ('through a nested pattern', tup(z, tup(i_, z)), True), ('an unrelated name', z, False), ('nothing', under, False)):
            got_stop = Interp(funcs, overrides={'names_read': reads}).call_function(sr, [{x: ref}, target])
            ctx.check(bool(got_stop) == want_stop, ITER, sr, 'stage_rebinds', f'a later stage binding {label}: {"the comprehension is left alone" if want_stop else "no obstacle"}',
                      f'answers {got_stop}: `[x for i, x in enumerate(xs) for x in ys]` is rewritten to read xs[i] where the inner x was meant')
    for rel, cls_ in ((ZIP, '_ZipElimInstance'), (ENUM, '_EnumerateElimInstance')):
        f = ctx.fn(rel, f'{cls_}._visit_list_comp')
        loops = [s for s in walk_no_nested(f) if isinstance(s, ast.For)]
        first = loops[0].body[0] if loops else None
        ok = isinstance(first, ast.If) and 'stage_rebinds(subst, target)' in norm(first.test) and isinstance(first.body[-1], ast.Return) and norm(first.body[-1].value) == 'super()._visit_list_comp(e, ctx)'
        ctx.check(ok, rel, f, f'{cls_}._visit_list_comp', 'each stage is tested for re-binding before anything of it is rewritten; a hit leaves the whole comprehension as it was', 'guard missing or late')
    es = ctx.fn(ENUM, '_EnumerateElimInstance._rewrite_comp_stage')
    ok = any(isinstance(s, ast.If) and norm(s.test) == 'idx in names_read(list(plan.args))' and isinstance(s.body[-1], ast.Return) and norm(s.body[-1].value) == 'None' for s in walk_no_nested(es))
    ctx.check(ok, ENUM, es, '_EnumerateElimInstance._rewrite_comp_stage', 'an index named like a source leaves the stage alone', '`[x for i, x in enumerate(i)]` becomes `[i[i] for i in range(len(i))]`')
    sv = ctx.fn(ITER, 'SubstNames._visit_var')
    ctx.check('replacement = self._subst.get(e.name)' in norm(sv, 2000), ITER, sv, 'SubstNames._visit_var', 'a variable is replaced only through the substitution map', 'changed')

RULES = [
    Rule('C08.F1', 'synthesised index arithmetic is emitted under the exact integer context', f1_index_arithmetic, 6, 'F'),
    Rule('C08.F1b', 'element reads index with a bare variable or literal', f1b_reads_index_exact, 5, 'F'),
    Rule('C08.F2', 'iterable materialised once; reads go through the temporary; comprehension path inlines only access paths', f2_materialise_once, 16, 'F'),
    Rule('C08.G1', 'zip/enumerate snapshots are replaced by live reads only with a mutation fact', g1_snapshot_iterables, 2, 'G'),
    Rule('C08.F3', 'temporaries come from a generator seeded with the program\'s names; per-copy renaming', f3_fresh_names, 25, 'F'),
    Rule('C08.F4', 'generated loop control reads only names minted for the site; a runtime split factor is evaluated once into one, ahead of the loop', f4_control_names, 20, 'F'),
    Rule('C08.P2', 'an analysis handed to a loop rewriter along with a function is the analysis of that function', analysis_pairing((FOR_UNROLL, SPLIT, ZIP, ENUM, REDUCE, WHILE, 'fpy2/transform/for_unpack.py', 'fpy2/transform/for_bundling.py', 'fpy2/transform/while_bundling.py', 'fpy2/transform/if_bundling.py'), 8), 8, 'P'),
    Rule('C08.P1', 'remainder handling: PEEL bounds, residual loop, STRICT assert/refusal, chunk bounds', p1_remainder, 18, 'P'),
    Rule('C08.T1', 'reduce fusion keeps identity, operator, and binds the element before combining', t1_reduce_fusion, 8, 'T'),
    Rule('C08.S1', 'ReduceFusion hoists nothing out of conditionally or repeatedly evaluated positions', hoist_mask_rule([REDUCE_HOISTER], 'C08.S1'), 8, 'S,X'),
    Rule('C08.W1', 'while unroll: condition re-tested before every body copy', w1_while_unroll, 2, 'P'),
    Rule('C08.X2', 'a name taken from the generator is used for the rewrite it was made for: none is kept in a rewriter\'s state', x2_generated_names_are_fresh, 20, 'X'),
    Rule('C08.X1', 'iterator elimination respects shadowing: every name a comprehension target binds (nested patterns included) keeps its own variable', x1_shadowing_names, 3, 'X'),
]

from ..selftest import Mutant  # noqa: E402

MUTANTS = [
    Mutant('one-loop-counter-for-every-generated-loop', 'fpy2/transform/zip_elim.py', "        idx = self.gensym.fresh('_i')\n        # A tupled plan feeds every source into one slot;", "        if getattr(self, '_counter', None) is None:\n            self._counter = self.gensym.fresh('_i')\n        idx = self._counter\n        # A tupled plan feeds every source into one slot;", 'C08.X2',
           'seeded change C08f: two zip stages of one comprehension share the counter'),
    Mutant('reduction-hoisted-out-of-a-with-header', REDUCE, "        context = self._visit_expr(stmt.ctx, None)\n", "        context = self._visit_expr(stmt.ctx, ctx)\n", 'C08.S1',
           'finding F121 before its repair: any([x + y > 2048 for x in xs]) in a with header is rounded under the FP16 around it'),
    Mutant('range-length-read-off-the-literals', UTILS, "    if array_size is None:\n        return None\n    bound = array_size.by_expr.get(iterable)",
           "    if isinstance(iterable, Range3) and all(isinstance(a, Integer) for a in (iterable.first, iterable.second, iterable.third)) and iterable.third.val > 0:\n        return max(0, (iterable.second.val - iterable.first.val) // iterable.third.val)\n    if array_size is None:\n        return None\n    bound = array_size.by_expr.get(iterable)", 'C08.P1',
           'seeded change C08e: range(0, 5, 2) is taken to have two elements'),
    Mutant('all-targets-shadow-every-iterable', ITER, "                iterables.append(self._visit_expr(iterable, ctx))\n                for name in _binding_names(target):\n                    if name in self._subst:\n                        shadowed[name] = self._subst.pop(name)\n",
           "                for name in _binding_names(target):\n                    if name in self._subst:\n                        shadowed[name] = self._subst.pop(name)\n                iterables.append(self._visit_expr(iterable, ctx))\n", 'C08.X1',
           'finding F90 before its repair: the first iterable of a nested comprehension loses the substitution'),
    Mutant('later-stage-may-rebind-the-index', ITER, "    return bool(bound & (set(subst) | names_read(list(subst.values()))))", "    return bool(bound & set(subst))", 'C08.X1'),
    Mutant('zip-stage-guard-dropped', ZIP, "            if subst and stage_rebinds(subst, target):\n", "            if False:\n", 'C08.X1',
           'finding F90 before its repair: [a for a, b in zip(xs, ys) for a in ys] reads xs'),
    Mutant('index-named-like-its-source', ENUM, "        if idx in names_read(list(plan.args)):\n", "        if False:\n", 'C08.X1'),
    Mutant('split-factor-variable-read-live', SPLIT, "            f = self.gensym.refresh(self.temp_id)\n            n = self.gensym.refresh(self.temp_id)\n            emitted.append(self._dynamic_prelude(t, f, n, factor, [\n                AssertStmt(",
           "            f = factor.name if isinstance(factor, Var) else self.gensym.refresh(self.temp_id)\n            n = self.gensym.refresh(self.temp_id)\n            emitted.append(self._dynamic_prelude(t, f, n, factor, [\n                AssertStmt(", 'C08.F4',
           'seeded change C08c: a body that assigns the factor variable changes the chunking under way'),
    Mutant('split-factor-bound-conditionally', SPLIT, "        return integer_ctx([\n            # `factor` is an arbitrary caller Expr feeding `range`/`fmod`,\n            # so it is evaluated exactly (unlike the iterable, kept ambient)\n            Assign(f, None, factor, None),",
           "        return integer_ctx([\n            *([] if isinstance(factor, Var) else [Assign(f, None, factor, None)]),", 'C08.F4'),
    Mutant('split-length-read-live', SPLIT, "            Assign(n, None, Len(None, Var(t, None), None), None),\n            *extra,", "            *extra,", 'C08.F4'),
    Mutant('unroll-remainder-reads-user-name', FOR_UNROLL, "            m = self.gensym.fresh('m')", "            m = NamedId('m')", 'C08.F4'),
    Mutant('zip-elim-analysis-of-another-function', ZIP, "        out = _ZipElimInstance(func, def_use).apply()", "        out = _ZipElimInstance(ForUnpack.apply(func), def_use).apply()", 'C08.P2'),
    Mutant('shadowing-misses-nested-patterns', ITER, "            out: list[NamedId] = []\n            for elt in target.elts:\n                out.extend(_binding_names(elt))\n            return out",
           "            return [elt for elt in target.elts if isinstance(elt, NamedId)]", 'C08.X1', 'seeded change C08b'),
    Mutant('shadowing-never-restored', ITER, "        finally:\n            self._subst.update(shadowed)", "        finally:\n            pass", 'C08.X1'),
    Mutant('offsets-under-ambient-ctx', FOR_UNROLL, 'main_body: list[Stmt] = [integer_ctx(offset_defs, loc)] if offset_defs else []', 'main_body: list[Stmt] = list(offset_defs)', 'C08.F1'),
    Mutant('peel-bound-under-ambient-ctx', FOR_UNROLL, "            emitted.append(integer_ctx([\n                _assign(n, _len(_var(t))),\n                _assign(m, _sub(_var(n), _fmod(_var(n), _int(k)))),\n            ], stmt.loc))",
           "            emitted.extend([\n                _assign(n, _len(_var(t))),\n                _assign(m, _sub(_var(n), _fmod(_var(n), _int(k)))),\n            ])", 'C08.F1'),
    Mutant('chunk-bound-inlined', SPLIT, "        hi_bind = integer_ctx([\n            Assign(hi, None, Add(Var(outer, None), self._ref(f), None), None)\n        ], None)",
           "        hi_bind = Assign(hi, None, Add(Var(outer, None), self._ref(f), None), None)", 'C08.F1'),
    Mutant('split-extra-outside-integer', SPLIT, "            Assign(n, None, Len(None, Var(t, None), None), None),\n            *extra,\n        ], loc)", "            Assign(n, None, Len(None, Var(t, None), None), None),\n        ], loc)", 'C08.F1'),
    Mutant('read-with-inline-offset', FOR_UNROLL, "for index in [_var(idx), *(_var(off) for off in offsets)]:\n            main_body.extend(self._body_copy(target, t, index, body=body, nested_gen=nested_gen))",
           "for index in [_var(idx), *(_var(off) for off in offsets)]:\n            main_body.append(_assign(copy_target(target), ListRef(_var(t), _add(index, _int(0)), None)))", 'C08.F1b'),
    Mutant('iterable-reevaluated', SPLIT, "ListRef(Var(t, None), Var(rem, None), None), None", "ListRef(Var(lo, None), Var(rem, None), None), None", 'C08.F2'),
    Mutant('comp-path-unguarded', ZIP, "        if not all(is_access_path(a) for a in plan.args):\n            return None\n", "", 'C08.F2'),
    Mutant('access-path-admits-calls', ITER, "        case Integer():                       # a constant index in ``arg[i]``\n            return True", "        case Integer() | Call():\n            return True", 'C08.F2'),
    Mutant('zip-checks-mutation (repair twin)', ZIP, "        plan = _plan(stmt.target, stmt.iterable)\n        if plan is None:\n            return super()._visit_for(stmt, ctx)\n        # Recursively",
           "        plan = _plan(stmt.target, stmt.iterable)\n        if plan is None or _stores_into_lists(stmt.body, IndexedAssign):\n            return super()._visit_for(stmt, ctx)\n        # Recursively", 'C08.G1',
           'consulting a store fact about the body satisfies the rule', expect='silent'),
    Mutant('fused-loop-keeps-the-comprehension-target', REDUCE, "        ctx.stmts.append(ForStmt(renamed.target, iterable, renamed.body, e.loc))", "        ctx.stmts.append(ForStmt(target, iterable, body, e.loc))", 'C08.T1',
           'finding F46 before its repair: `r = any([x > 1 for x in xs]); return x` returns the last element of xs'),
    Mutant('fused-loop-renames-the-iterable-too', REDUCE, "        loop = ForStmt(target, BoolVal(False, e.loc), body, e.loc)", "        loop = ForStmt(target, iterable, body, e.loc)", 'C08.T1',
           'still emits the un-renamed `iterable`: same program', expect='silent'),
    Mutant('fusion-chain-tail-unmasked', REDUCE, "            self._visit_expr(arg, ctx if i < 2 else None)\n            for i, arg in enumerate(e.args)", "            self._visit_expr(arg, ctx)\n            for i, arg in enumerate(e.args)", 'C08.S1',
           'finding F42 before its repair (ReduceFusion): `a < b < any([xs[i] > 0 for i in range(10)])` raises IndexError after fusion'),
    Mutant('gensym-unseeded', REDUCE, 'self.gensym = Gensym(reserved=def_use.names())', 'self.gensym = Gensym()', 'C08.F3'),
    Mutant('fixed-temp-name', ZIP, "            src = self.gensym.fresh('_src')\n            ctx.stmts.append(Assign(src, None, arg, None))", "            src = NamedId('_src')\n            ctx.stmts.append(Assign(src, None, arg, None))", 'C08.F2'),
    Mutant('nested-temporaries-shared', FOR_UNROLL, "        if nested_gen:\n            copy = RenameTarget.apply_block(\n                body, {g: self.gensym.refresh(g) for g in nested_gen}\n            )\n        else:\n            copy = clone_block(body)", "        copy = clone_block(body)", 'C08.F3'),
    Mutant('residual-loop-dropped', FOR_UNROLL, "            emitted.append(ForStmt(\n                rem_idx, _range(_var(m), _var(n), _int(1)), StmtBlock(rem_body), stmt.loc\n            ))\n", "", 'C08.P1'),
    Mutant('peel-bound-off', FOR_UNROLL, "_assign(m, _sub(_var(n), _fmod(_var(n), _int(k)))),", "_assign(m, _sub(_var(n), _int(k))),", 'C08.P1'),
    Mutant('strict-assert-dropped', FOR_UNROLL, "                AssertStmt(_eq(_fmod(_var(n), _int(k)), _int(0)), None, None),\n", "", 'C08.P1'),
    Mutant('split-residual-from-zero', SPLIT, "emitted.append(self._residual_loop(t, m_id, n, stmt.target, body, stmt.loc))", "emitted.append(self._residual_loop(t, 0, n, stmt.target, body, stmt.loc))", 'C08.P1'),
    Mutant('all-seeded-false', REDUCE, 'BoolVal(not is_any, e.loc)', 'BoolVal(False, e.loc)', 'C08.T1'),
    Mutant('element-inlined', REDUCE, "combine = op([Var(acc, e.loc), Var(elt, e.loc)], e.loc)", "combine = op([Var(acc, e.loc), elt_expr], e.loc)", 'C08.T1'),
    Mutant('ifexpr-mask-removed', REDUCE, "        ift = self._visit_expr(e.ift, None)\n        iff = self._visit_expr(e.iff, None)", "        ift = self._visit_expr(e.ift, ctx)\n        iff = self._visit_expr(e.iff, ctx)", 'C08.S1'),
    Mutant('boolop-tail-masked (repair twin)', REDUCE, "    def _visit_if_expr(self, e: IfExpr, ctx: Any) -> IfExpr:",
           "    def _visit_naryop(self, e, ctx: Any):\n        if isinstance(e, (And, Or)):\n            return type(e)([self._visit_expr(e.args[0], ctx)] + [self._visit_expr(a, None) for a in e.args[1:]], e.loc)\n        return super()._visit_naryop(e, ctx)\n\n"
           "    def _visit_if_expr(self, e: IfExpr, ctx: Any) -> IfExpr:", 'C08.S1', 'masking the and/or tails satisfies the rule', expect='silent'),
    Mutant('while-cond-mask-removed', REDUCE, "        cond = self._visit_expr(stmt.cond, None)\n        body, _ = self._visit_block(stmt.body, ctx)\n        return WhileStmt(cond, body, stmt.loc), ctx",
           "        cond = self._visit_expr(stmt.cond, ctx)\n        body, _ = self._visit_block(stmt.body, ctx)\n        return WhileStmt(cond, body, stmt.loc), ctx", 'C08.S1',
           'the defect repaired by the fix: commit'),
    Mutant('unroll-skips-condition', WHILE, "                ret_stmt = If1Stmt(cond, unrolled, stmt.loc)", "                ret_stmt = If1Stmt(BoolVal(True, None), unrolled, stmt.loc)", 'C08.W1'),
]
