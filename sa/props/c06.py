"""
C06 — A numeric literal denotes exactly the number written.

Decided: the literal's value is taken from its spelling (never only from the
double Python already rounded it to), it is lowered as an exact
Fraction(numerator, denominator) or the negative-zero helper, the two
spelling->Fraction converters handle every alternative their patterns admit,
and the value formulas of Rational / Digits / Integer / Hexnum.
"""

from __future__ import annotations

import ast
import re

from ..core import Ctx, Rule
from ..dataflow import depends_on, derived_names, parent_map
from ..facts import ShapeError, call_name, calls_in, dotted, kwarg, norm, walk_no_nested
from ..tables import Inst, Opaque, decide
from ..templates import field, flatten_list, is_name_node, is_node, single_assignments, template

PARSER = 'fpy2/frontend/parser.py'
BYTE = 'fpy2/interpret/byte.py'
FPYAST = 'fpy2/ast/fpyast.py'
FRACTIONS = 'fpy2/utils/fractions.py'
OPS = 'fpy2/ops.py'


def _is_source_text(n: ast.AST) -> bool:
    """An expression that reads the program text of the literal."""
    if isinstance(n, ast.Call) and call_name(n) in ('ast.get_source_segment',):
        return True
    if isinstance(n, ast.Attribute) and dotted(n) == 'self.lines':
        return True
    return False


def f1_literal_from_spelling(ctx: Ctx):
    """Every Integer/Decnum built for a Python float constant depends on the literal's source text."""
    repo = ctx.repo
    q = 'Parser._parse_constant'
    fn = ctx.fn(PARSER, q)
    # find the float arm: either inline or delegated to a helper method
    arm_roots: list[tuple[str, ast.AST]] = []
    for m in [n for n in walk_no_nested(fn) if isinstance(n, ast.Match)]:
        for c in m.cases:
            if isinstance(c.pattern, ast.MatchClass) and dotted(c.pattern.cls) == 'float':
                calls = [k for k in calls_in(c) if (call_name(k) or '').startswith('self._parse')]
                if calls:
                    for k in calls:
                        h = call_name(k).split('.', 1)[1]  # type: ignore
                        arm_roots.append((f'Parser.{h}', ctx.fn(PARSER, f'Parser.{h}')))
                else:
                    arm_roots.append((q, c))
    if not arm_roots:
        raise ShapeError('float arm of _parse_constant not found')
    n = 0
    for qn, root in arm_roots:
        derived = derived_names(root, _is_source_text)
        parents = parent_map(root)
        for k in calls_in(root):
            if call_name(k) in ('Integer', 'Decnum'):
                n += 1
                okk, why = depends_on(root, k, derived, _is_source_text, parents)
                ctx.check(okk, PARSER, k, qn, norm(k),
                          f'the literal is built from Python\'s double only ({why}): spellings with more than 17 digits, '
                          f'or integers above 2**53 written with an exponent, denote a neighbouring number')
    if n == 0:
        raise ShapeError('no literal constructions in the float arm')
    # int constants are taken as they are (Python ints are exact)
    r = decide(repo, PARSER, fn.body, {'e.value': Inst('int')}, on_assign=lambda st, e: isinstance(st, ast.Assign))
    good = r[0] == 'return' and isinstance(r[1], Opaque) and norm(r[1].node) == 'Integer(e.value, loc)'
    ctx.check(good, PARSER, r[2] or fn, q, 'int constant -> Integer(e.value)', f'got {r[1]!r}')
    r = decide(repo, PARSER, fn.body, {'e.value': Inst('bool')}, on_assign=lambda st, e: isinstance(st, ast.Assign))
    good = r[0] == 'return' and isinstance(r[1], Opaque) and norm(r[1].node) == 'BoolVal(e.value, loc)'
    ctx.check(good, PARSER, r[2] or fn, q, 'bool constant is tested before int (bool is an int subclass)', f'got {r[1]!r}')


def decnum_zero_sign(text: str) -> bool:
    """Whether the decimal text of a zero literal is written with a minus (what `Decnum.as_real` reads)."""
    return text.lstrip().startswith('-')


def f2_literal_lowering(ctx: Ctx):
    repo = ctx.repo
    q = 'BytecodeCompiler._rational_to_ast'
    fn = ctx.fn(BYTE, q)
    env = single_assignments(fn)
    vals = [s for s in walk_no_nested(fn) if isinstance(s, ast.Assign) and dotted(s.targets[0]) == 'val']
    ctx.check(len(vals) == 1 and norm(vals[0].value) == 'e.as_real()', BYTE, fn, q, 'value taken from e.as_real() (sign of zero kept)',
              f'got {norm(vals[0].value) if vals else None}')
    rets = [s for s in walk_no_nested(fn) if isinstance(s, ast.Return)]
    if len(rets) != 2:
        raise ShapeError('_rational_to_ast: expected the negative-zero and the Fraction returns')
    t0 = template(rets[0].value, env)
    g = [s for s in walk_no_nested(fn) if isinstance(s, ast.If) and norm(s.test) == 'isinstance(val, Float)']
    good = len(g) == 1 and any(rets[0] is s for s in g[0].body) and is_node(t0, 'Call') \
        and is_name_node(field(t0, 'func'), ('const', '__fpy_negzero'), 'Load') and flatten_list(field(t0, 'args')) == []
    ctx.check(good, BYTE, rets[0], q, 'negative zero -> __fpy_negzero()', 'a signed zero literal is not lowered through the helper')
    t1 = template(rets[1].value, env)
    args = flatten_list(field(t1, 'args')) if is_node(t1, 'Call') else None
    good = bool(args) and len(args) == 2 and is_name_node(field(t1, 'func'), ('const', '__fpy_fraction'), 'Load') \
        and all(is_node(a, 'Constant') for a in args) \
        and field(args[0], 'value') == ('name', 'val.numerator') and field(args[1], 'value') == ('name', 'val.denominator')
    ctx.check(good, BYTE, rets[1], q, 'literal -> __fpy_fraction(<numerator int>, <denominator int>)',
              'the literal is not lowered as an exact integer ratio')
    floats = [k for k in calls_in(fn) if call_name(k) == 'float']
    ctx.check(not floats, BYTE, fn, q, 'no float() on the lowering path', 'a double conversion is applied to the literal')
    for m in ('_visit_decnum', '_visit_hexnum', '_visit_integer', '_visit_rational', '_visit_digits'):
        f = ctx.fn(BYTE, f'BytecodeCompiler.{m}')
        rs = [s for s in walk_no_nested(f) if isinstance(s, ast.Return)]
        ctx.check(len(rs) == 1 and norm(rs[0].value) == 'self._rational_to_ast(e)', BYTE, f, f'BytecodeCompiler.{m}', 'lowered by _rational_to_ast',
                  f'got {norm(rs[0].value) if rs else None}')
    nz = ctx.fn(BYTE, '_neg_zero')
    rs = [s for s in walk_no_nested(nz) if isinstance(s, ast.Return)]
    c = rs[0].value if rs else None
    good = isinstance(c, ast.Call) and call_name(c) == 'Float' and isinstance(kwarg(c, 's'), ast.Constant) and kwarg(c, 's').value is True \
        and norm(kwarg(c, 'c') or '') == '0'
    ctx.check(good, BYTE, nz, '_neg_zero', 'the helper builds -0 (s=True, c=0)', f'got {norm(c) if c is not None else None}')
    # the only place a sign is folded into a literal: -0 and negative integers in _parse_unaryop
    pu = ctx.fn(PARSER, 'Parser._parse_unaryop')
    arm = None
    for m in [n for n in walk_no_nested(pu) if isinstance(n, ast.Match)]:
        for cse in m.cases:
            if isinstance(cse.pattern, ast.MatchClass) and dotted(cse.pattern.cls) == 'ast.USub':
                arm = cse
    if arm is None:
        raise ShapeError('USub arm not found')
    # a zero literal carries a sign (`as_real` is a Float exactly for a negative zero); negating it flips that sign
    for signed, want, label in ((False, '-0', '-<zero literal> folds to the literal -0.0'), (True, '0', '-<negative zero literal> folds to the literal +0.0')):
        try:
            r = decide(repo, PARSER, arm.body, {'isinstance(arg, RationalVal) and arg.as_rational() == 0': True, 'isinstance(arg, Integer)': False,
                                                'isinstance(arg.as_real(), Float)': signed}, on_assign=lambda st, e: isinstance(st, ast.Assign))
        except Exception as ex:     # the arm does not look at the sign of the zero at all
            r = ('undecided', ex, None)
        good = r[0] == 'return' and isinstance(r[1], Opaque) and isinstance(r[1].node, ast.Call) and call_name(r[1].node) == 'Decnum' \
            and isinstance(r[1].node.args[0], ast.Constant) and str(r[1].node.args[0].value).lstrip('+').startswith(want) \
            and decnum_zero_sign(str(r[1].node.args[0].value)) == (not signed)
        ctx.check(good, PARSER, r[2] or pu, 'Parser._parse_unaryop', label, f'got {r[1]!r}: `-(-0.0)` evaluates to -0.0')
    r = decide(repo, PARSER, arm.body, {'isinstance(arg, RationalVal) and arg.as_rational() == 0': False, 'isinstance(arg, Integer)': True},
               on_assign=lambda st, e: isinstance(st, ast.Assign))
    good = r[0] == 'return' and isinstance(r[1], Opaque) and norm(r[1].node) == 'Integer(-arg.val, loc)'
    ctx.check(good, PARSER, r[2] or pu, 'Parser._parse_unaryop', '-<integer literal> folds to Integer(-n)', f'got {r[1]!r}')
    r = decide(repo, PARSER, arm.body, {'isinstance(arg, RationalVal) and arg.as_rational() == 0': False, 'isinstance(arg, Integer)': False},
               on_assign=lambda st, e: isinstance(st, ast.Assign))
    good = r[0] == 'return' and isinstance(r[1], Opaque) and norm(r[1].node) == 'Neg(arg, loc)'
    ctx.check(good, PARSER, r[2] or pu, 'Parser._parse_unaryop', 'any other -x is the Neg operation (rounded under the active context)', f'got {r[1]!r}')
    # Decnum.as_real keeps the sign of a zero written with a minus
    f = ctx.fn(FPYAST, 'Decnum.as_real')
    tests = [s for s in walk_no_nested(f) if isinstance(s, ast.If)]
    good = len(tests) == 1 and 'r == 0' in norm(tests[0].test) and "startswith('-')" in norm(tests[0].test) \
        and isinstance(tests[0].body[0], ast.Return) and norm(tests[0].body[0].value) in ('Float(s=True, exp=0, c=0)', 'Float(s=True, c=0)')
    ctx.check(good, FPYAST, f, 'Decnum.as_real', 'zero spelled with a minus -> exact -0', 'sign of a written negative zero is lost')


# ----------------------------------------------------------------------
# F3 no binary64 detour between a spelling and its value

# calls that round to, or read back, a machine double (or hand the value to a library that does)
_DOUBLE_DETOURS = ('float', 'float.fromhex', 'float.hex', 'struct.pack', 'struct.unpack', 'Float.from_float', 'RealFloat.from_float', 'np.float64', 'numpy.float64',
                   'decimal.Decimal', 'Decimal')
_DOUBLE_METHODS = ('hex', 'as_integer_ratio', 'fromhex')
_DOUBLE_MODULES = ('math', 'cmath', 'gmp', 'gmpy2', 'np', 'numpy', 'struct')


def f3_no_double_detour(ctx: Ctx):
    """A literal that is given as text (a hexadecimal-float string, the text of `rational` / `digits` arguments, the
    decimal text `Decnum` carries) is turned into its value by integer and Fraction arithmetic only.  On the functions
    that carry the text from the call in the source to the Fraction -- the parser's bespoke literal forms, the literal
    nodes' `as_rational` / `as_real`, the converters of utils/fractions -- no call rounds to a machine double or reads
    one back: `float.fromhex(s).hex()` looks like a normalisation of the spelling and is a rounding to 53 digits."""
    sites = [(PARSER, f'Parser.{m}') for m in ('_parse_hexfloat', '_parse_rational', '_parse_digits')]
    for cls in ('Decnum', 'Hexnum', 'Integer', 'Rational', 'Digits'):
        if not ctx.repo.has_cls(FPYAST, cls):
            raise ShapeError(f'literal node class {cls} not found')
        for m in ('__init__', 'as_rational', 'as_real'):
            if ctx.repo.has_func(FPYAST, f'{cls}.{m}'):
                sites.append((FPYAST, f'{cls}.{m}'))
    for q, f in ctx.repo.functions(FRACTIONS):
        if '.' not in q and q != 'is_dyadic':
            sites.append((FRACTIONS, q))
    n = 0
    for rel, q in sites:
        fn = ctx.fn(rel, q)
        n += 1
        bad = []
        for k in calls_in(fn):
            cn = call_name(k) or ''
            head = cn.split('.')[0]
            if cn in _DOUBLE_DETOURS or head in _DOUBLE_MODULES or (isinstance(k.func, ast.Attribute) and k.func.attr in _DOUBLE_METHODS):
                bad.append(norm(k))
        ctx.check(not bad, rel, fn, q, 'spelling -> value without a machine double in between', f'{bad}: the spelling is rounded to 53 significant bits (and to the double exponent range) before the program sees it')
    # ... and from the value to the rounding: a literal under a rounding context reaches `Context._round_prepare` as a
    # Fraction (or a string).  Apart from the arm for an operand that *is* a native float, nothing there may pass
    # through a double: `float(x)` first and the context's rounding second is two roundings.
    CONTEXT = 'fpy2/number/context/context.py'
    q = 'Context._round_prepare'
    fn = ctx.fn(CONTEXT, q)
    native_arm = {id(x) for m in ast.walk(fn) if isinstance(m, ast.Match) for c in m.cases
                  if isinstance(c.pattern, ast.MatchClass) and dotted(c.pattern.cls) == 'float' for x in ast.walk(c)}
    bad = []
    for k in calls_in(fn):
        cn = call_name(k) or ''
        if id(k) in native_arm:
            continue
        if cn in _DOUBLE_DETOURS or cn.split('.')[0] in ('math', 'struct', 'np', 'numpy') or (isinstance(k.func, ast.Attribute) and k.func.attr in _DOUBLE_METHODS):
            bad.append(norm(k))
    n += 1
    ctx.check(not bad, CONTEXT, fn, q, 'a rational or textual operand reaches the rounding without a machine double in between',
              f'{bad}: the value is rounded to binary64 first and to the context second -- round(rational(10000000596046448, 10**16)) under binary32 gives 1.0, not 1 + 2**-23')
    # the text itself reaches the node: the Hexnum is built from the argument's own string
    q = 'Parser._parse_hexfloat'
    fn = ctx.fn(PARSER, q)
    rets = [s for s in walk_no_nested(fn) if isinstance(s, ast.Return)]
    good = len(rets) == 1 and isinstance(rets[0].value, ast.Call) and call_name(rets[0].value) == 'Hexnum' and len(rets[0].value.args) >= 2
    if good:
        text = rets[0].value.args[1]
        # `arg.val`, possibly through case / whitespace methods of str
        good = 'arg.val' in norm(text) and {x.id for x in ast.walk(text) if isinstance(x, ast.Name)} <= {'arg'} \
            and all(isinstance(k.func, ast.Attribute) and k.func.attr in ('lower', 'strip', 'casefold') for k in ast.walk(text) if isinstance(k, ast.Call))
    ctx.check(good, PARSER, rets[0] if rets else fn, q, 'the Hexnum node carries the string written in the source', f'got {[norm(r.value) for r in rets]}')
    if n < 12:
        raise ShapeError(f'only {n} functions on the literal path found')


# ----------------------------------------------------------------------
# S1 sibling converters over their regexes

def _regex_alternatives(pattern: str):
    """Which optional parts a mantissa may omit, read from the regex AST."""
    import re._parser as sre  # type: ignore
    tree = sre.parse(pattern)
    # look for a branch inside the mantissa group whose alternative starts with a literal '.'
    empty_int = False
    optional_frac = False
    optional_exp = False

    def walk(seq, depth=0):
        nonlocal empty_int, optional_frac, optional_exp
        for op, av in seq:
            name = str(op)
            if name == 'BRANCH':
                for alt in av[1]:
                    items = list(alt)
                    if items and str(items[0][0]) == 'LITERAL' and items[0][1] == ord('.'):
                        empty_int = True
                    walk(alt, depth + 1)
            elif name == 'SUBPATTERN':
                walk(av[3], depth + 1)
            elif name in ('MAX_REPEAT', 'MIN_REPEAT'):
                lo, hi, sub = av
                if lo == 0:
                    txt = str(list(sub))
                    if "LITERAL, 46" in txt or 'LITERAL, 46' in txt.replace('(', '').replace(')', ''):
                        optional_frac = True
                    if f'LITERAL, {ord("e")}' in txt or f'LITERAL, {ord("p")}' in txt:
                        optional_exp = True
                walk(sub, depth + 1)
    walk(tree)
    return empty_int, optional_frac, optional_exp


def s1_sibling_converters(ctx: Ctx):
    repo = ctx.repo
    mod = repo.module(FRACTIONS)
    pats = {}
    for name in ('_DECIMAL_PATTERN', '_HEXNUM_PATTERN'):
        node = mod.toplevel().get(name)
        v = getattr(node, 'value', None)
        if not (isinstance(v, ast.Call) and call_name(v) == 're.compile' and isinstance(v.args[0], ast.Constant)):
            raise ShapeError(f'{name} is not re.compile(<literal>)')
        pats[name] = v.args[0].value
        try:
            re.compile(pats[name])
        except re.error as e:
            ctx.bad(FRACTIONS, node, name, 'pattern compiles', str(e))
    for fname, pname, base, b in (('decnum_to_fraction', '_DECIMAL_PATTERN', 10, 10), ('hexnum_to_fraction', '_HEXNUM_PATTERN', 16, 2)):
        fn = ctx.fn(FRACTIONS, fname)
        empty_int, opt_frac, opt_exp = _regex_alternatives(pats[pname])
        uses = any(call_name(k) == 're.fullmatch' and dotted(k.args[0]) == pname for k in calls_in(fn))
        ctx.check(uses, FRACTIONS, fn, fname, f'matches with re.fullmatch({pname}, ...)', 'a partial match would accept trailing garbage')
        # empty integer part admitted by the pattern => handled before int('')
        if empty_int:
            handled = False
            for s in walk_no_nested(fn):
                if isinstance(s, ast.Assign) and dotted(s.targets[0]) == 'i' and isinstance(s.value, ast.IfExp):
                    t = norm(s.value.test)
                    if t in ("parts[0] == ''", "not parts[0]", "parts[0] == \"\"") and isinstance(s.value.body, ast.Constant) and s.value.body.value == '0':
                        handled = True
            ctx.check(handled, FRACTIONS, fn, fname, 'empty integer part (".5") read as 0',
                      f'{pname} admits a mantissa with no integer digits, but the converter passes the empty string to int()')
        # missing fraction admitted => f = None branch exists
        if opt_frac:
            has = any(isinstance(s, ast.Assign) and dotted(s.targets[0]) == 'f' and isinstance(s.value, ast.Constant) and s.value.value is None
                      for s in walk_no_nested(fn))
            ctx.check(has, FRACTIONS, fn, fname, 'missing fraction part handled (f = None)', 'no arm for a mantissa without "."')
        # the groups read are sign=1, mantissa=2, exponent=5 in both patterns
        groups = {}
        for s in walk_no_nested(fn):
            if isinstance(s, ast.Assign) and isinstance(s.value, ast.Call) and call_name(s.value) == 'm.group' and isinstance(s.value.args[0], ast.Constant):
                groups[dotted(s.targets[0])] = s.value.args[0].value
        ngroups = re.compile(pats[pname]).groups
        ctx.check(groups == {'sign': 1, 'mant': 2, 'exp': 5} and ngroups == 5, FRACTIONS, fn, fname, 'groups: sign=1, mantissa=2, exponent=5',
                  f'reads {groups} of {ngroups} groups')
        rets = [s for s in walk_no_nested(fn) if isinstance(s, ast.Return)]
        good = len(rets) == 1 and norm(rets[0].value) == f'_sci_to_fraction(sign, i, f, exp, {base}, {b})'
        ctx.check(good, FRACTIONS, fn, fname, f'_sci_to_fraction(sign, i, f, exp, digits base {base}, exponent base {b})',
                  f'got {norm(rets[0].value) if rets else None}')
    # the hexadecimal pattern reads the spellings of a hexadecimal floating-point number: digits, `x` and `p` in either case,
    # a point with digits on one side only.  (The pattern is a constant of the source; it is compiled here with the flags the
    # source gives it and put to a table of spellings.)
    node = mod.toplevel().get('_HEXNUM_PATTERN')
    flags = 0
    for a in getattr(node, 'value').args[1:]:
        for nm in (dotted(x) for x in ast.walk(a) if isinstance(x, (ast.Attribute, ast.Name))):
            if nm in ('re.IGNORECASE', 're.I'):
                flags |= re.IGNORECASE
    hexpat = re.compile(pats['_HEXNUM_PATTERN'], flags)
    good_ = ['0x1.8p1', '0x1.ABCp1', '0X1.8P1', '0x1.p3', '0x.8p0', '0x10', '-0x1.8p-3', '+0xAp+2', '0xfF.fFp0']
    bad_ = ['0x', '0x.p1', '1.8p1', '0x1.8p', '0x1.8q1', '0x1..8p1', '0xg']
    missed = [s_ for s_ in good_ if not hexpat.fullmatch(s_)]
    extra = [s_ for s_ in bad_ if hexpat.fullmatch(s_)]
    ctx.check(not missed and not extra, FRACTIONS, node, '_HEXNUM_PATTERN', f'reads the spellings of a hexadecimal number ({len(good_)} accepted, {len(bad_)} refused)',
              (f'refuses {missed}' if missed else f'accepts {extra}') + ': hexfloat(\'0x1.ABCp1\') is a ValueError although it spells 1711/512')
    hfn = ctx.fn(FRACTIONS, 'hexnum_to_fraction')
    if hexpat.fullmatch('0x1.p3'):
        handled = any(isinstance(s, ast.Assign) and dotted(s.targets[0]) == 'f' and isinstance(s.value, ast.IfExp) and norm(s.value.test) in ("parts[1] != ''", "parts[1]", "parts[1] == ''", "not parts[1]")
                      and any(isinstance(x, ast.Constant) and x.value is None for x in (s.value.body, s.value.orelse)) for s in walk_no_nested(hfn))
        ctx.check(handled, FRACTIONS, hfn, 'hexnum_to_fraction', 'an empty fraction part ("0x1.p3") is read as none', 'the pattern admits a point with no digits after it, and the converter passes the empty string to int()')
    # the shared formula
    fn = ctx.fn(FRACTIONS, '_sci_to_fraction')
    asg = {}
    for s in ast.walk(fn):
        if isinstance(s, ast.Assign) and isinstance(s.targets[0], ast.Name):
            asg.setdefault(s.targets[0].id, []).append(norm(s.value))
    want = {'sign': ['-1', '+1'], 'ipart': ['int(i, base)'], 'fpart': ['int(f, base)', '0'], 'efrac': ['-len(f)', '0'], 'exp': ['int(e)', '0']}
    for k, v in want.items():
        ctx.check(asg.get(k) == v, FRACTIONS, fn, '_sci_to_fraction', f'{k} = {v}', f'got {asg.get(k)}')
    rets = [s for s in walk_no_nested(fn) if isinstance(s, ast.Return)]
    good = len(rets) == 1 and norm(rets[0].value) == 'sign * (ipart + fpart * Fraction(base) ** efrac) * Fraction(b) ** exp'
    ctx.check(good, FRACTIONS, fn, '_sci_to_fraction', 'value = sign * (ipart + fpart * base**-len(f)) * b**exp, all in Fraction', f'got {norm(rets[0].value) if rets else None}')
    tests = [s for s in walk_no_nested(fn) if isinstance(s, ast.If)]
    ctx.check(any(norm(t.test) == "s is not None and s == '-'" for t in tests), FRACTIONS, fn, '_sci_to_fraction', "sign is negative iff the sign group is '-'", 'sign test changed')


# ----------------------------------------------------------------------
# T1 value formulas of the literal node classes

def t1_value_formulas(ctx: Ctx):
    want = {
        'Decnum.as_rational': 'decnum_to_fraction(self.val)',
        'Hexnum.as_rational': 'hexnum_to_fraction(self.val)',
        'Integer.as_rational': 'Fraction(self.val)',
        'Rational.as_rational': 'Fraction(self.p, self.q)',
        'Digits.as_rational': 'digits_to_fraction(self.m, self.e, self.b)',
    }
    for q, w in want.items():
        fn = ctx.fn(FPYAST, q)
        rets = [s for s in walk_no_nested(fn) if isinstance(s, ast.Return)]
        ctx.check(len(rets) == 1 and norm(rets[0].value) == w, FPYAST, fn, q, f'= {w}', f'got {norm(rets[0].value) if rets else None}')
    fn = ctx.fn(FRACTIONS, 'digits_to_fraction')
    rets = [s for s in walk_no_nested(fn) if isinstance(s, ast.Return)]
    ctx.check(len(rets) == 1 and norm(rets[0].value) == 'Fraction(m) * Fraction(b) ** e', FRACTIONS, fn, 'digits_to_fraction', 'm * b**e in exact rationals',
              f'got {norm(rets[0].value) if rets else None}')
    # parser argument order for rational(p, q) and digits(m, e, b)
    fn = ctx.fn(PARSER, 'Parser._parse_rational')
    rets = [s for s in walk_no_nested(fn) if isinstance(s, ast.Return)]
    ctx.check(norm(rets[-1].value) == 'Rational(func, p.val, q.val, loc)', PARSER, fn, 'Parser._parse_rational', 'rational(p, q) -> Rational(p, q)', f'got {norm(rets[-1].value)}')
    fn = ctx.fn(PARSER, 'Parser._parse_digits')
    rets = [s for s in walk_no_nested(fn) if isinstance(s, ast.Return)]
    ctx.check(norm(rets[-1].value) == 'Digits(func, m_e.val, e_e.val, b_e.val, loc)', PARSER, fn, 'Parser._parse_digits', 'digits(m, e, b) -> Digits(m, e, b)', f'got {norm(rets[-1].value)}')
    src = {'m_e': 'e.args[0]', 'e_e': 'e.args[1]', 'b_e': 'e.args[2]'}
    for s in walk_no_nested(fn):
        if isinstance(s, ast.Assign) and dotted(s.targets[0]) in src:
            n = dotted(s.targets[0])
            # (through the expression parser, or through the helper that reads `-0` as the integer 0 and hands everything
            # else to it: which of the two is not what fixes the argument order)
            ok_ = isinstance(s.value, ast.Call) and call_name(s.value) in ('self._parse_expr', 'self._parse_integer_argument') and [norm(a) for a in s.value.args] == [src[n]]
            ctx.check(ok_, PARSER, s, 'Parser._parse_digits', f'{n} read from {src[n]}', f'got {norm(s.value)}')
    # `-0` as an integer argument: the sign fold of a negated zero makes it a signed decimal literal, which these two forms
    # would refuse; the helper they read their arguments through answers the integer 0 for it and nothing else special
    helper = ctx.repo.methods(PARSER, 'Parser', inherited=False).get('_parse_integer_argument')
    if helper is not None:
        hf = helper[2]
        rets = [r for r in walk_no_nested(hf) if isinstance(r, ast.Return)]
        special = [r for r in rets if isinstance(r.value, ast.Call) and call_name(r.value) == 'Integer' and r.value.args and norm(r.value.args[0]) == '0']
        general = [r for r in rets if norm(r.value) == f'self._parse_expr({hf.args.args[1].arg})']
        ctx.check(len(rets) == 2 and len(special) == 1 and len(general) == 1, PARSER, hf, 'Parser._parse_integer_argument', 'an integer argument is the parsed expression, or the integer 0 for `-0`', f'returns {[norm(r.value) for r in rets]}')
    # Digits / Rational constructors store fields in the order given
    for cls, fields in (('Digits', ['m', 'e', 'b']), ('Rational', ['p', 'q'])):
        init = ctx.fn(FPYAST, f'{cls}.__init__')
        params = [a.arg for a in init.args.args][2:2 + len(fields)]
        stores = {dotted(s.targets[0]): norm(s.value) for s in walk_no_nested(init) if isinstance(s, ast.Assign)}
        good = params == fields and all(stores.get(f'self.{f}') == f for f in fields)
        ctx.check(good, FPYAST, init, f'{cls}.__init__', f'fields {fields} stored from same-named parameters in order', f'params {params}, stores {stores}')
    # ops-level constructors agree with the node classes
    for name, w in (('digits', 'digits_to_fraction'), ('hexfloat', 'hexnum_to_fraction')):
        fn = ctx.fn(OPS, name)
        used = {call_name(k) for k in calls_in(fn)}
        ctx.check(w in used, OPS, fn, name, f'ops.{name} converts with {w}', f'calls {sorted(u for u in used if u)}')


EXPLANATION = (
    'Static rules over the parser, the literal node classes, utils/fractions.py and the literal lowering of the '
    'bytecode compiler. Decided: (F1) every Integer/Decnum the parser builds for a Python float constant is data- or '
    'control-dependent on the literal\'s source text (ast.get_source_segment / self.lines), never on the double alone; '
    'int and bool constants pass through; (F2) literals are lowered from as_real() as __fpy_fraction(num, den) with '
    'integer constants or __fpy_negzero(), no float() on the path; -0 and negative integer literals are the only '
    'folded signs; (S1) decnum/hexnum converters use fullmatch, read the same groups, handle every alternative '
    'their regex admits (empty integer part, missing fraction) and share one exact formula; (T1) as_rational of '
    'Decnum/Hexnum/Integer/Rational/Digits and the argument order of rational(p,q)/digits(m,e,b). NOT decided: '
    'Python\'s own int()/Fraction arithmetic; that the source segment returned by ast is the literal (trusted).'
)
ASSUMPTIONS = ['ast.get_source_segment returns the literal as written', 'Fraction and int(str, base) are exact']

RULES = [
    Rule('C06.F1', 'a float literal is built from its spelling, never from Python\'s double alone', f1_literal_from_spelling, 4, 'F,G'),
    Rule('C06.F3', 'no machine double between the text of a literal and its value (hexfloat / rational / digits / decimal converters)', f3_no_double_detour, 12, 'F'),
    Rule('C06.F2', 'literals lower to an exact integer ratio or the negative-zero helper; sign folds only for -0 and -<int>', f2_literal_lowering, 14, 'F'),
    Rule('C06.S1', 'decimal and hexadecimal converters handle every alternative their patterns admit; shared exact formula', s1_sibling_converters, 16, 'S'),
    Rule('C06.T1', 'as_rational formulas and argument order of rational / digits / hexfloat', t1_value_formulas, 15, 'T'),
    # "under any other context ... rounded once": a literal that is not a dyadic rational (0.1, rational(1, 15)) reaches the
    # format through `mpfr_call`, whose single-rounding structure is decided once, in engine_rules
    Rule('C06.F4', 'a non-dyadic literal is rounded once: the round-to-odd wrapper keeps the digits the final rounding needs, for a precision and for a digit position (= C02.F1)',
         lambda ctx: __import__('sa.props.engine_rules', fromlist=['f1_round_to_odd']).f1_round_to_odd(ctx), 12, 'F'),
]

from ..selftest import Mutant  # noqa: E402

MUTANTS = [
    Mutant('hexadecimal-literals-in-lower-case-only', FRACTIONS, "(p([-+]?[0-9]+))?', re.IGNORECASE)", "(p([-+]?[0-9]+))?')", 'C06.S1',
           'finding F132 before its repair: hexfloat(\'0x1.ABCp1\') is refused'),
    Mutant('empty-hexadecimal-fraction-handed-to-int', FRACTIONS, "        f = parts[1] if parts[1] != '' else None    # `0x1.p3`\n", "        f = parts[1]\n", 'C06.S1'),
    Mutant('narrow-formats-prepared-through-a-double', 'fpy2/number/context/context.py', "        p, n = self.round_params()\n        return mpfr_value(x, prec=p, n=n)",
           "        p, n = self.round_params()\n        if isinstance(x, Fraction) and p is not None and 2 * p + 2 <= 53:\n            return RealFloat.from_float(float(x))\n        return mpfr_value(x, prec=p, n=n)", 'C06.F3',
           'seeded change C06e: a literal under binary32 is rounded to binary64 first'),
    Mutant('negated-negative-zero-stays-negative', PARSER, "                    if isinstance(arg.as_real(), Float):\n                        return Decnum('0.0', loc)\n", "", 'C06.F2',
           'finding F38 before its repair: -(-0.0) is -0.0'),
    Mutant('hexfloat-spelling-normalised-through-a-double', PARSER, "        return Hexnum(func, arg.val, loc)", "        return Hexnum(func, float.fromhex(arg.val).hex(), loc)", 'C06.F3',
           'seeded change C06c: hexfloat(\'0x1.00000000000008p+0\') is 1 under the real context'),
    Mutant('hexfloat-case-folded', PARSER, "        return Hexnum(func, arg.val, loc)", "        return Hexnum(func, arg.val.lower(), loc)", 'C06.F3', 'accepts more spellings, changes no value', expect='silent'),
    Mutant('hex-converter-through-a-double', FRACTIONS, "    return _sci_to_fraction(sign, i, f, exp, 16, 2)", "    return Fraction(float.fromhex(m.group(0)))", 'C06.F3'),
    Mutant('digits-through-pow', FRACTIONS, "    return Fraction(m) * Fraction(b) ** e", "    return Fraction(m * math.pow(b, e))", 'C06.F3'),
    Mutant('literal-from-spelling (repair twin)', PARSER,
           "            case float():\n                if e.value.is_integer():\n                    return Integer(int(e.value), loc)\n                else:\n                    return Decnum(str(e.value), loc)",
           "            case float():\n                text = ast.get_source_segment(''.join(self.lines), e)\n                exact = Fraction(text.replace('_', ''))\n"
           "                if exact.denominator == 1:\n                    return Integer(int(exact), loc)\n                else:\n                    return Decnum(text, loc)",
           'C06.F1', 'reading the spelling back from the source text satisfies the rule', expect='silent'),
    Mutant('lower-through-float', BYTE, "pyast.Constant(value=val.numerator, kind=None, **attrs),\n                pyast.Constant(value=val.denominator, kind=None, **attrs)",
           "pyast.Constant(value=float(val), kind=None, **attrs)", 'C06.F2'),
    Mutant('negzero-dropped', BYTE, "        if isinstance(val, Float):", "        if False:", 'C06.F2'),
    Mutant('neg-zero-fold-removed', PARSER, "                if isinstance(arg, RationalVal) and arg.as_rational() == 0:", "                if False:", 'C06.F2'),
    Mutant('hex-empty-int', FRACTIONS, "        i = '0' if parts[0] == '' else parts[0]\n        f = parts[1] if parts[1] != '' else None    # `0x1.p3`\n",
           "        i = parts[0]\n        f = parts[1] if parts[1] != '' else None    # `0x1.p3`\n", 'C06.S1'),
    Mutant('hex-exponent-base-16', FRACTIONS, 'return _sci_to_fraction(sign, i, f, exp, 16, 2)', 'return _sci_to_fraction(sign, i, f, exp, 16, 16)', 'C06.S1'),
    Mutant('fraction-digits-miscounted', FRACTIONS, 'efrac = -len(f)', 'efrac = -len(f) + 1', 'C06.S1'),
    Mutant('dec-exponent-group', FRACTIONS, "    mant = m.group(2)\n    exp = m.group(5)\n\n    if '.' in mant:\n        parts = mant.split('.')\n        assert len(parts) == 2\n        i = '0' if parts[0] == '' else parts[0]\n        f = parts[1]\n    else:\n        i = mant\n        f = None\n\n    return _sci_to_fraction(sign, i, f, exp, 10, 10)",
           "    mant = m.group(2)\n    exp = m.group(4)\n\n    if '.' in mant:\n        parts = mant.split('.')\n        assert len(parts) == 2\n        i = '0' if parts[0] == '' else parts[0]\n        f = parts[1]\n    else:\n        i = mant\n        f = None\n\n    return _sci_to_fraction(sign, i, f, exp, 10, 10)", 'C06.S1'),
    Mutant('rational-swapped', FPYAST, 'return Fraction(self.p, self.q)', 'return Fraction(self.q, self.p)', 'C06.T1'),
    Mutant('digits-args-swapped', PARSER, 'return Digits(func, m_e.val, e_e.val, b_e.val, loc)', 'return Digits(func, m_e.val, b_e.val, e_e.val, loc)', 'C06.T1'),
    Mutant('digits-formula', FRACTIONS, 'return Fraction(m) * Fraction(b) ** e', 'return Fraction(m) * Fraction(e) ** b', 'C06.T1'),
]
