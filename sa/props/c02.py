"""
C02 — Arithmetic rounds the exact result exactly once.
"""

from __future__ import annotations

from ..core import Rule
from . import engine_rules as E
from .boundary_rules import native_float_specials
from .memo_rules import memo_keys_rule

EXPLANATION = (
    'Static rules over fpy2/ops.py, fpy2/number/engine and fpy2/number/gmputils.py for the arithmetic operations '
    '(add, sub, mul, div, fma, sqrt, cbrt, hypot, fmod, remainder, mod, pow, ceil/floor/trunc/roundint, neg, fabs, '
    'copysign, fdim, fmax, fmin). Decided: every ops.<f> converts its operands, asks engine.<f> with them in order, '
    'and on every returning path rounds the first non-None answer through _normalize exactly once with no other '
    'rounding (S1); _normalize calls ctx.round(x) exactly once except for a Fraction under REAL (P1); both engines '
    'implement every abstract method with the abstract operand order and some engine answers each op (X1); each '
    'MPFR engine method refuses Fractions, takes (prec, n) from ctx.round_params(), refuses exact contexts and '
    'makes one _mpfr_eval call with the matching MPFR primitive and operands in order (S2); the round-to-odd '
    'wrapper truncates (RoundToZero), always asks for prec+2 digits, hands each fix-up the ternary of the value it '
    'fixes, returns the 2-digit probe only for specials or e <= n, and bumps an even significand iff inexact (F1); '
    'each callable handed to the wrapper is a single MPFR operation (F2); RealEngine ceil/floor/trunc/roundint use '
    'RTP/RTN/RTZ/RNA at n=-1, sub/fma are compositions of exact ops (T1); NaN/inf/zero arms of RealEngine '
    'add/mul/div equal the IEEE 754 tables (T2); the two helper-answered MPFR methods: _mod takes math.floor of one '
    'round-to-odd division kept down to the units digit (n <= -1, no precision cap) whatever the target context and '
    'returns x - q*y in exact arithmetic, with the special-operand table of Python\'s %; _fdim is NaN / one '
    'subtraction at the target (prec, n) / +0 (G1); no memo table in the engines is keyed by less than it was computed '
    'from (M1). NOT decided: MPFR itself, signs of exact zero results, invalid/divzero flag inference.'
)
ASSUMPTIONS = [
    'MPFR (gmpy2) computes each primitive correctly under RoundToZero and reports a truthful ternary value',
    'RealFloat / Fraction arithmetic is exact (C05)',
    'ctx.round is correct rounding (C01)',
]

RULES = [
    Rule('C02.S1', 'ops.<f>: operands converted, engine.<f>(operands in order, ctx), one _normalize on every returning path', E.s1_ops_skeleton('C02'), 100, 'S,P'),
    Rule('C02.P1', '_normalize rounds exactly once (Fraction under REAL passes unrounded)', E.p1_normalize, 3, 'P'),
    Rule('C02.X1', 'both engines implement every abstract op with the abstract operand order; some engine answers', E.x1_engines_complete('C02'), 60, 'X'),
    Rule('C02.S2', 'MPFR engine methods: refuse Fractions, (prec,n) from ctx, one _mpfr_eval with the matching primitive', E.s2_mpfr_methods('C02'), 50, 'S,T'),
    Rule('C02.F1', 'round-to-odd wrapper: RoundToZero, prec+2 digits, ternary of the fixed value, sticky fold', E.f1_round_to_odd, 12, 'F'),
    Rule('C02.F3', 'a value MPFR hands back is used only after its overflow / underflow flags were consulted (MPFR has an exponent range of its own)', E.f3_mpfr_exponent_range, 1, 'F'),
    Rule('C02.F2', 'every callable handed to the wrapper is a single MPFR operation', E.f2_single_operation('C02'), 15, 'F'),
    Rule('C02.S3', 'local MPFR wrappers compute the operation they are named after (neg, abs, pow, lgamma = first component of gmp.lgamma); special operands reach MPFR with their sign', E.s3_wrapper_primitives, 4, 'S,T'),
    Rule('C02.S4', 'a native float operand keeps the sign of a NaN or an infinity on the way in (read with copysign, not `<`)', native_float_specials, 4, 'S,T'),
    Rule('C02.G1', 'helper-answered MPFR methods: _mod takes floor of a quotient kept to the units digit and subtracts exactly; _fdim is one subtraction at (prec, n); special-operand tables', E.g1_helper_methods, 14, 'G,T'),
    Rule('C02.M1', 'a remembered engine result is keyed by every input it was computed from', memo_keys_rule(('fpy2/number/engine/', 'fpy2/number/gmputils.py', 'fpy2/ops.py'), 'operands, precision and digit position'), 1, 'M'),
    Rule('C02.T1', 'RealEngine: ceil/floor/trunc/roundint = RTP/RTN/RTZ/RNA at n=-1; sub, fma composed of exact ops', E.t1_real_engine, 9, 'T'),
    Rule('C02.T2', 'RealEngine add/mul/div special-value arms equal the IEEE 754 tables', E.t2_real_specials, 48, 'T'),
    # an operation on a rational operand gets its exact result from the real engine and hands it to `ctx.round`: the one
    # rounding is `_round_prepare`'s, and a binary64 on the way to it is a second one
    Rule('C02.F4', 'an exact rational result reaches the one rounding without a machine double in between (= C06.F3, Context._round_prepare)',
         lambda ctx: __import__('sa.props.c06', fromlist=['f3_no_double_detour']).f3_no_double_detour(ctx), 15, 'F'),
]

from ..selftest import Mutant  # noqa: E402

OPS, GMP, REAL, GU = E.OPS, E.GMP, E.REAL, E.GMPUTILS

MUTANTS = [
    Mutant('nan-sign-read-with-less-than', 'fpy2/number/number/floats.py', "        if math.isnan(x):\n            s = math.copysign(1, x) < 0\n            return Float.nan(s=s, ctx=ctx)\n        elif math.isinf(x):\n            s = x < 0\n            return Float.inf(s=s, ctx=ctx)",
           "        if math.isnan(x) or math.isinf(x):\n            return Float(s=x < 0, isnan=math.isnan(x), isinf=math.isinf(x), ctx=ctx)", 'C02.S4',
           'seeded change C02e: copysign(3.0, -nan) is +3.0'),
    Mutant('nan-operand-loses-its-sign', 'fpy2/number/gmputils.py', "            return gmp.set_sign(gmp.nan(), x.s)", "            return gmp.nan()", 'C02.S3',
           'finding F79 before its repair: copysign(3, -NaN) is +3'),
    Mutant('sub-is-add-of-a-rounded-negation', 'fpy2/ops.py', "    xr = _cvt_to_real(x)\n    yr = _cvt_to_real(y)\n    for engine in ENGINES:\n        r = engine.sub(xr, yr, ctx)\n        if r is not None:\n            r = _zero_sum(r, ctx, (_is_negative(xr), not _is_negative(yr)))\n            return _normalize(r, ctx, (xr, yr))\n\n    raise NotImplementedError(f'sub() not implemented for ctx={ctx}')",
           "    return add(x, neg(y, ctx), ctx)", 'C02.S1', 'seeded change C02d: the negation is rounded before the sum is'),
    Mutant('fdim-is-a-rounded-sub-then-max', 'fpy2/ops.py', "    xr = _cvt_to_real(x)\n    yr = _cvt_to_real(y)\n    for engine in ENGINES:\n        r = engine.fdim(xr, yr, ctx)\n        if r is not None:\n            return _normalize(r, ctx, (xr, yr))\n\n    raise NotImplementedError(f'fdim() not implemented for ctx={ctx}')",
           "    return fmax(sub(x, y, ctx), 0, ctx)", 'C02.S1'),
    Mutant('zero-times-fraction-loses-its-sign', REAL, "        elif (isinstance(x, Float) and x.is_zero()) or (isinstance(y, Float) and y.is_zero()):\n            # 0 * y = 0; the separate case keeps the sign of a zero operand,\n            # which the rational product below cannot carry\n            s = _signbit(x) != _signbit(y)\n            return Float(s=s, c=0, ctx=REAL)\n", "", 'C02.T2',
           'finding F52 before its repair: mul(1/3, -0.0) is +0'),
    Mutant('zero-product-takes-sign-of-x', REAL, "            s = _signbit(x) != _signbit(y)\n            return Float(s=s, c=0, ctx=REAL)\n        else:\n            # both are finite\n            match x, y:\n                case Float(), Float():\n                    r = x.as_real() * y.as_real()",
           "            s = _signbit(x)\n            return Float(s=s, c=0, ctx=REAL)\n        else:\n            # both are finite\n            match x, y:\n                case Float(), Float():\n                    r = x.as_real() * y.as_real()", 'C02.T2'),
    Mutant('mod-exact-multiple-is-plus-zero', GMP, "            if r.is_zero():\n                # an exact multiple: like every other result of this\n                # operation, the zero takes the sign of `y`\n                return Float(x=r, s=y.s)\n", "", 'C02.G1',
           'finding F53 before its repair: mod(4, -2) is +0'),
    Mutant('mod-quotient-at-target-precision', GMP, "            q = math.floor(_mpfr_eval(gmp.div, x, y, n=-1))",
           "            prec, n = ctx.round_params()\n            if prec is None:\n                n = min(n, -1)\n            q = math.floor(_mpfr_eval(gmp.div, x, y, prec=prec, n=n))", 'C02.G1',
           'seeded change C02c: mod(2**60 + 5, 7) under FP64 is 13'),
    Mutant('mod-quotient-to-the-twos-digit', GMP, "            q = math.floor(_mpfr_eval(gmp.div, x, y, n=-1))", "            q = math.floor(_mpfr_eval(gmp.div, x, y, n=0))", 'C02.G1'),
    Mutant('mod-quotient-finer', GMP, "            q = math.floor(_mpfr_eval(gmp.div, x, y, n=-1))", "            q = math.floor(_mpfr_eval(gmp.div, x, y, n=-4))", 'C02.G1',
           'more fraction digits than needed: same floor', expect='silent'),
    Mutant('mod-remainder-operands-swapped', GMP, "            r = x - q * y", "            r = y - q * x", 'C02.G1'),
    Mutant('mod-zero-takes-sign-of-x', GMP, "            # if x is zero, +/-0 is returned\n            return Float(x=x, s=y.s)", "            # if x is zero, +/-0 is returned\n            return Float(x=x, s=x.s)", 'C02.G1'),
    Mutant('fdim-subtracts-the-other-way', GMP, "            return _mpfr_eval(gmp.sub, x, y, prec=prec, n=n)\n        else:\n            # otherwise, returns +0", "            return _mpfr_eval(gmp.sub, y, x, prec=prec, n=n)\n        else:\n            # otherwise, returns +0", 'C02.G1'),
    Mutant('sub-operands-swapped', OPS, 'r = engine.sub(xr, yr, ctx)', 'r = engine.sub(yr, xr, ctx)', 'C02.S1'),
    Mutant('fma-dispatches-to-mul', OPS, 'r = engine.fma(xr, yr, zr, ctx)', 'r = engine.mul(xr, yr, ctx)', 'C02.S1'),
    Mutant('double-rounding-in-div', OPS, 'r = engine.div(xr, yr, ctx)\n        if r is not None:\n            return _normalize(r, ctx, (xr, yr))',
           'r = engine.div(xr, yr, ctx)\n        if r is not None:\n            return _normalize(ctx.round(r), ctx, (xr, yr))', 'C02.S1'),
    Mutant('sqrt-unrounded', OPS, 'r = engine.sqrt(xr, ctx)\n        if r is not None:\n            return _normalize(r, ctx, (xr,))',
           'r = engine.sqrt(xr, ctx)\n        if r is not None:\n            return r', 'C02.S1'),
    Mutant('normalize-rounds-twice', OPS, '        result = ctx.round(x)\n', '        result = ctx.round(ctx.round(x))\n', 'C02.P1'),
    Mutant('normalize-real-shortcut-widened', OPS, 'if ctx is REAL and isinstance(x, Fraction):', 'if isinstance(x, Fraction):', 'C02.P1'),
    Mutant('real-engine-sub-arity', REAL, 'def sub(self, x: EngineArg, y: EngineArg, ctx: Context)', 'def sub(self, y: EngineArg, x: EngineArg, ctx: Context)', 'C02.X1'),
    Mutant('mpfr-hypot-wrong-primitive', GMP, '_mpfr_eval(gmp.hypot, x, y, prec=prec, n=n)', '_mpfr_eval(gmp.add, x, y, prec=prec, n=n)', 'C02.S2'),
    Mutant('mpfr-sub-operands-swapped', GMP, '_mpfr_eval(gmp.sub, x, y, prec=prec, n=n)\n\n    def fma', '_mpfr_eval(gmp.sub, y, x, prec=prec, n=n)\n\n    def fma', 'C02.S2'),
    Mutant('mpfr-mul-ignores-subnormal-position', GMP, '_mpfr_eval(gmp.mul, x, y, prec=prec, n=n)', '_mpfr_eval(gmp.mul, x, y, prec=prec, n=None)', 'C02.S2'),
    Mutant('mpfr-div-fraction-unchecked', GMP, 'def div(self, x: EngineArg, y: EngineArg, ctx: Context) -> EngineRes:\n        if isinstance(x, Fraction) or isinstance(y, Fraction):',
           'def div(self, x: EngineArg, y: EngineArg, ctx: Context) -> EngineRes:\n        if isinstance(x, Fraction):', 'C02.S2'),
    Mutant('one-guard-digit', GU, 'result = _mpfr_call_with_prec(prec + 2, fn, args)\n        return _round_odd(result, result.rc != 0)\n\ndef mpfr_value',
           'result = _mpfr_call_with_prec(prec + 1, fn, args)\n        return _round_odd(result, result.rc != 0)\n\ndef mpfr_value', 'C02.F1'),
    Mutant('mpfr-rounds-to-nearest', GU, 'round=gmp.RoundToZero', 'round=gmp.RoundToNearest', 'C02.F1'),
    Mutant('sticky-dropped', GU, 'return _round_odd(result, result.rc != 0)\n\n        # need to re-compute', 'return _round_odd(result, False)\n\n        # need to re-compute', 'C02.F1'),
    Mutant('sticky-fold-on-odd', GU, 'if c % 2 == 0 and inexact:', 'if c % 2 == 1 and inexact:', 'C02.F1'),
    Mutant('probe-returned-unguarded', GU, '        if e <= n:\n            return _round_odd(result, result.rc != 0)', '        if e <= n + 1:\n            return _round_odd(result, result.rc != 0)', 'C02.F1'),
    Mutant('neg-composite', GMP, 'def _gmp_neg(x):\n    return -x', 'def _gmp_neg(x):\n    return -(x * 1)', 'C02.F2'),
    Mutant('ceil-rounds-down', REAL, 'return self._real_rint(x, RoundingMode.RTP)', 'return self._real_rint(x, RoundingMode.RTN)', 'C02.T1'),
    Mutant('rint-at-wrong-position', REAL, 'r = x.as_real().round(None, -1, rm)', 'r = x.as_real().round(None, 0, rm)', 'C02.T1'),
    Mutant('fma-drops-none', REAL, '        if mul_result is None:\n            return None\n', '', 'C02.T1'),
    Mutant('inf-minus-inf-is-inf', REAL, '# Inf + -Inf = NaN\n                    return Float(isnan=True, ctx=REAL)', '# Inf + -Inf = NaN\n                    return Float(s=_signbit(x), isinf=True, ctx=REAL)', 'C02.T2'),
    Mutant('zero-times-inf-is-inf', REAL, '            if _is_zero(x):\n                # 0 * Inf = NaN\n                return Float(isnan=True, ctx=REAL)', '            if False:\n                return Float(isnan=True, ctx=REAL)', 'C02.T2'),
    Mutant('div-by-inf-sign', REAL, '# x / Inf = 0\n            return Float(s=s, c=0, ctx=REAL)', '# x / Inf = 0\n            return Float(s=_signbit(x), c=0, ctx=REAL)', 'C02.T2'),
]
