"""
C10 — Rounding-lowering rewrites leave the rounding function unchanged.

Decided: threshold/comparator pairing of the overflow unfolding (verifier and
emitter agree, strict vs non-strict by threshold kind), refuse-don't-approximate
defaults of every block rewriter, random bits never dropped when a context is
rebuilt, identity rewrites guarded by round_is_identity, special-value probes
emitted verbatim, strategy wrappers, hoisting masks of the two rounding
rewrites.
"""

from __future__ import annotations

import ast

from ..core import Ctx, Rule
from ..dataflow import guards_of, parent_map
from ..facts import ShapeError, call_name, calls_in, dotted, kwarg, norm, walk_no_nested
from ..tables import Inst, Opaque, Sym, decide
from .hoist_rules import Hoister, hoist_mask_rule
from .pairing_rules import analysis_pairing

T = 'fpy2/transform/'
OVERFLOW = T + 'unfold_overflow.py'
SPECIAL = T + 'unfold_special.py'
NEGZERO = T + 'unfold_neg_zero.py'
F2F = T + 'float_to_fixed.py'
RESCALE = T + 'rescale_fixed.py'
RELIM = T + 'round_elim.py'
RINS = T + 'round_insert.py'
UTILS = T + 'utils.py'
FMT_ANALYSIS = 'fpy2/analysis/format_infer/analysis.py'
STRATS = 'fpy2/strategies/'

BLOCK_REWRITERS = [
    (OVERFLOW, '_UnfoldOverflowInstance'), (SPECIAL, '_UnfoldSpecialInstance'), (NEGZERO, '_UnfoldNegZeroInstance'),
    (F2F, '_FloatToFixedInstance'), (RESCALE, '_RescaleFixedInstance'),
]


def CO(m):
    return Sym('CompareOp', m)


# ----------------------------------------------------------------------
# T1 threshold <-> comparator pairing

def _triples_emitter(fn) -> set[tuple[str, str, str, str]]:
    """(operand kind, op, threshold, overflow value) from `past(<operand>, CompareOp.X, src.<bound>, src.<over>, ...)`."""
    out = set()
    for k in calls_in(fn):
        if call_name(k) == 'past' and len(k.args) >= 4:
            operand = 'rounded' if norm(k.args[0]).startswith('Var(t') else 'operand'
            out.add((operand, (dotted(k.args[1]) or '').split('.')[-1], (dotted(k.args[2]) or '').split('.')[-1], (dotted(k.args[3]) or '').split('.')[-1]))
    return out


def _triples_verifier(fn) -> set[tuple[str, str, str, str]]:
    """Same, from `if _holds(<x|t>, CompareOp.X, src.<bound>): return src.<over>`."""
    out = set()
    for s in ast.walk(fn):
        if isinstance(s, ast.If) and isinstance(s.test, ast.Call) and call_name(s.test) == '_holds' and len(s.test.args) == 3 \
                and len(s.body) == 1 and isinstance(s.body[0], ast.Return):
            a = s.test.args
            operand = 'rounded' if norm(a[0]) == 't' else 'operand'
            out.add((operand, (dotted(a[1]) or '').split('.')[-1], (dotted(a[2]) or '').split('.')[-1], (dotted(s.body[0].value) or '').split('.')[-1]))
    return out


ORACLE_PAIRS = {
    ('rounded', 'GT', 'maxval', 'over_pos'), ('rounded', 'LT', 'neg_maxval', 'over_neg'),
    ('operand', 'GE', 'infval', 'over_pos'), ('operand', 'LE', 'neg_infval', 'over_neg'),
}


def t1_threshold_pairing(ctx: Ctx):
    repo = ctx.repo
    em = ctx.fn(OVERFLOW, '_UnfoldOverflowInstance._unfold')
    ve = ctx.fn(OVERFLOW, '_Prober._emitted')
    e3 = _triples_emitter(em)
    v3 = _triples_verifier(ve)
    if len(e3) < 4 or len(v3) < 4:
        raise ShapeError(f'expected 4 threshold checks each; emitter {len(e3)}, verifier {len(v3)}')
    for tr in sorted(e3 | v3 | ORACLE_PAIRS):
        operand, op, bound, over = tr
        why = []
        if tr not in e3:
            why.append('not emitted')
        if tr not in v3:
            why.append('not what the static verifier assumes')
        if tr not in ORACLE_PAIRS:
            why.append('a value that merely exceeds maxval need not overflow (it may round back), so the rounded result is compared strictly with '
                       'maxval and the raw operand non-strictly with infval, positive side with the positive overflow value')
        ctx.check(not why, OVERFLOW, em, '_UnfoldOverflowInstance._unfold', f'{operand} {op} {bound} -> {over}', '; '.join(why))
    # the early checks are outermost (before the rounding), the post-rounding checks wrap the plain assignment
    txt = norm(em, 100000)
    i_round = txt.find('rounding = ContextStmt(')
    i_gt = txt.find('rest = past(Var(t, loc), CompareOp.GT')
    i_early = txt.find('if self.early_check:')
    ctx.check(0 <= i_round < i_gt < i_early, OVERFLOW, em, '_UnfoldOverflowInstance._unfold', 'order: round under the unbounded format, compare the result, early checks outermost',
              'emission order changed')
    # _holds is the comparison it is named after
    h = ctx.fn(OVERFLOW, '_holds')
    want = {'GE': 'c >= 0', 'LE': 'c <= 0', 'GT': 'c > 0', 'LT': 'c < 0'}
    for m, w in want.items():
        kind, val, st = decide(repo, OVERFLOW, h.body, {'x.isnan': False, 'x.isinf': False, 'op': CO(m)}, on_assign=lambda s, e: isinstance(s, ast.Assign))
        ctx.check(kind == 'return' and isinstance(val, Opaque) and norm(val.node) == w, OVERFLOW, st or h, '_holds', f'{m} decides {w}', f'got {val!r}')
    kind, val, st = decide(repo, OVERFLOW, h.body, {'x.isnan': True}, on_assign=lambda s, e: isinstance(s, ast.Assign))
    ctx.check(kind == 'return' and val is False, OVERFLOW, st or h, '_holds', 'NaN compares false to every bound', f'got {val!r}')
    # the rounding happens under the unbounded counterpart built from the same precision / position / mode
    ub = ctx.fn(OVERFLOW, '_unbounded')
    t = norm(ub, 100000)
    ctx.check('MPSFloatContext(ctx.pmax, ctx.emin, ctx.rm)' in t, OVERFLOW, ub, '_unbounded', 'float counterpart keeps precision, emin and rounding mode', 'changed')
    ctx.check('MPFixedContext(ctx.nmin, ctx.rm,' in t and 'nan_value=ctx.nan_value' in t and 'inf_value=ctx.inf_value' in t, OVERFLOW, ub, '_unbounded',
              'fixed counterpart keeps position, mode and special-value rules', 'changed')
    # the overflow constant must be the same for every overflowing operand of a sign, else declined
    ov = ctx.fn(OVERFLOW, '_Prober._overflow')
    t = norm(ov, 100000)
    ctx.check('if not all((same_value(a, b) for a, b in zip(near, far))): return None' in t.replace('\n', ' ') or ('same_value(a, b)' in t and 'return None' in t), OVERFLOW, ov, '_Prober._overflow',
              'an overflow value that varies with the operand is declined', 'changed')


# ----------------------------------------------------------------------
# X1 refuse, don't approximate

def x1_refusal_defaults(ctx: Ctx):
    repo = ctx.repo
    for rel, cls in BLOCK_REWRITERS:
        c = repo.cls(rel, cls)
        own = {s.name: s for s in c.body if isinstance(s, ast.FunctionDef)}
        for need in ('_candidate', '_verify', '_rewrite'):
            ctx.check(need in own, rel, c, cls, f'defines {need}', 'BlockRewriter hook missing: the default _verify accepts every candidate')
        v = own.get('_verify')
        if v is None:
            continue
        q = f'{cls}._verify'
        body = [s for s in v.body if not (isinstance(s, ast.Expr) and isinstance(s.value, ast.Constant))]
        first = body[0] if body else None
        good = isinstance(first, ast.Assign) and norm(first.value) == 'self.eval_info.by_expr.get(stmt.ctx)' and dotted(first.targets[0]) == 'ctx'
        second = body[1] if len(body) > 1 else None
        last = body[-1] if body else None
        # idiom A: `if not isinstance(ctx, Context): return Declined(...)` right after the lookup
        idiom_a = isinstance(second, ast.If) and norm(second.test) == 'not isinstance(ctx, Context)' \
            and isinstance(second.body[0], ast.Return) and call_name(second.body[0].value) == 'Declined'
        # idiom B: positive class gates on the looked-up value, and the fall-through default is a refusal
        idiom_b = isinstance(second, ast.If) and norm(second.test).startswith('isinstance(ctx, ') \
            and isinstance(last, ast.Return) and call_name(last.value) == 'Declined'
        good = good and (idiom_a or idiom_b)
        ctx.check(good, rel, v, q, 'a context that is not statically known is declined first',
                  'the rewrite no longer refuses a block whose context it cannot evaluate')
        cand = own.get('_candidate')
        if cand is not None:
            t = norm(cand, 4000)
            ctx.check('rounding_block(stmt, casts=self._casts)' in t, rel, cand, f'{cls}._candidate', 'candidates are pure rounding blocks (rounding_block)', 'candidate shape changed')
    # class ladders end in a refusal
    q = '_describe'
    fn = ctx.fn(F2F, q)
    r = decide(repo, F2F, fn.body, {'ctx': Inst('RealContext')}, lenient=True)
    ctx.check(r[0] == 'return' and isinstance(r[1], Opaque) and call_name(r[1].node) == 'Declined', F2F, r[2] or fn, q, 'an unknown context class is declined', f'got {r[1]!r}')
    r = decide(repo, F2F, fn.body, {'ctx': Inst('EFloatContext'), 'ctx.eoffset != 0': True})
    ctx.check(r[0] == 'return' and isinstance(r[1], Opaque) and call_name(r[1].node) == 'Declined', F2F, r[2] or fn, q, 'a shifted exponent encoding is declined', f'got {r[1]!r}')
    for rel, cls, ladder in ((OVERFLOW, '_UnfoldOverflowInstance', 'not isinstance(ctx, _BoundedCtx)'), (NEGZERO, '_UnfoldNegZeroInstance', 'not isinstance(ctx, _FixedCtx)')):
        v = ctx.fn(rel, f'{cls}._verify')
        tests = [s for s in v.body if isinstance(s, ast.If) and norm(s.test) == ladder]
        ctx.check(len(tests) == 1 and call_name(tests[0].body[0].value) == 'Declined', rel, v, f'{cls}._verify', f'{ladder} -> Declined', 'class gate changed')
    # rounding_block: bound contexts, annotated assigns, non-variable operands, casts (unless asked) are no candidates
    rb = ctx.fn(UTILS, 'rounding_block')
    t = norm(rb, 100000)
    ctx.check('if not isinstance(stmt.target, UnderscoreId): return None' in t.replace('\n', ' ') or 'not isinstance(stmt.target, UnderscoreId)' in t, UTILS, rb, 'rounding_block',
              'a block that binds its context (`with C as c`) is not a candidate', 'changed')
    ctx.check('case Cast(arg=Var() as v) if casts:' in t and 'case Round(arg=Var() as v):' in t and 'case Assign(target=NamedId(), type=None) | ReturnStmt():' in t, UTILS, rb, 'rounding_block',
              'only `x = round(v)` / `return round(v)` over variables (casts only on request)', 'candidate patterns changed')
    # the dispatcher: a declined candidate is never rewritten and takes no index
    vb = ctx.fn(UTILS, 'BlockRewriter._visit_block')
    t = norm(vb, 100000)
    i_dec = t.find('if isinstance(verified, Declined):')
    i_idx = t.find('idx = self.site_idx')
    i_rw = t.find('emitted = self._rewrite(s, verified)')
    ctx.check(0 <= i_dec < i_idx < i_rw, UTILS, vb, 'BlockRewriter._visit_block', 'verify -> (declined: record, skip) -> count -> rewrite', 'dispatch order changed')


# ----------------------------------------------------------------------
# F2 random bits never dropped

CTX_CTORS = {'MPSFloatContext', 'MPFixedContext', 'MPBFixedContext', 'MPBFloatContext', 'MPFloatContext', 'FixedContext', 'SMFixedContext', 'IEEEContext', 'EFloatContext'}


def f2_random_bits(ctx: Ctx):
    repo = ctx.repo
    n = 0
    for rel in (OVERFLOW, SPECIAL, NEGZERO, F2F, RESCALE):
        mod = repo.module(rel)
        # refusal of stochastic sources anywhere in a verify/describe function of the module
        refuses = False
        for q, fn in repo.functions(rel):
            for s in ast.walk(fn):
                if isinstance(s, ast.If) and norm(s.test) in ('ctx.num_randbits != 0', 'ctx.is_stochastic()', 'self.ctx.is_stochastic()') \
                        and isinstance(s.body[0], ast.Return) and call_name(s.body[0].value) == 'Declined':
                    refuses = True
        for q, fn in repo.functions(rel):
            for k in calls_in(fn):
                cn = (call_name(k) or '')
                short = cn.split('.')[-1]
                rebuilds = short in CTX_CTORS and any(isinstance(a, ast.Attribute) and dotted(a.value) in ('ctx', 'src', 'src.ctx') for a in ast.walk(k))
                with_params = cn in ('ctx.with_params', 'src.ctx.with_params')
                param_dict = False
                if not (rebuilds or with_params):
                    continue
                n += 1
                args_txt = norm(k, 4000)
                forwards = ('ctx.num_randbits' in args_txt and 'ctx.rng' in args_txt) or with_params
                ctx.check(forwards or refuses, rel, k, q, norm(k)[:90],
                          'a context is rebuilt from the source context without its num_randbits / rng, and the module does not refuse stochastic sources: '
                          'the rewritten program would round deterministically')
        # keyword dictionaries used to rebuild a context (rescale_fixed)
        for q, fn in repo.functions(rel):
            for d in [x for x in ast.walk(fn) if isinstance(x, ast.Dict)]:
                keys = [kk.value for kk in d.keys if isinstance(kk, ast.Constant)]
                if 'rm' in keys and ({'nmin', 'pmax', 'overflow', 'inf_value', 'nan_value', 'num_randbits'} & set(keys)):
                    n += 1
                    vals = {kk.value: norm(v) for kk, v in zip(d.keys, d.values) if isinstance(kk, ast.Constant)}
                    good = vals.get('num_randbits') == 'ctx.num_randbits' and vals.get('rng') == 'ctx.rng'
                    ctx.check(good or refuses, rel, d, q, 'context parameter dictionary forwards num_randbits and rng', f'got {vals}')
    if n < 4:
        raise ShapeError(f'only {n} context rebuild sites found')
    # UnfoldSpecial keeps the source context (or with_params of it) - never a fresh construction
    d = ctx.fn(SPECIAL, '_without_specials')
    t = norm(d, 4000)
    ctx.check('return ctx.with_params(**kwargs)' in t, SPECIAL, d, '_without_specials', 'special rules are shed with with_params (everything else, random bits included, is kept)', 'changed')
    # RoundInsert refuses stochastic targets
    v = ctx.fn(RINS, '_RoundInsertInstance._verify')
    first = [s for s in v.body if isinstance(s, ast.If)][0]
    ctx.check(norm(first.test) == 'self.ctx.is_stochastic()' and call_name(first.body[0].value) == 'Declined', RINS, v, '_RoundInsertInstance._verify',
              'a stochastic target is refused (it is not an identity even on representable values: it consumes a draw)', 'changed')


# ----------------------------------------------------------------------
# G1 identity rewrites guarded by round_is_identity

def g1_identity_guard(ctx: Ctx):
    repo = ctx.repo
    q = '_RoundElimInstance._is_eliminable'
    fn = ctx.fn(RELIM, q)
    t = norm(fn, 100000)
    ctx.check('if not round_is_identity(unrounded, ctx): return False' in t.replace('\n', ' ') or ('not round_is_identity(unrounded, ctx)' in t), RELIM, fn, q,
              'a rounding is eliminated only if round_is_identity(unrounded format, resolved context)', 'guard changed')
    ctx.check('if ctx is None or ctx is REAL:' in t, RELIM, fn, q, 'an unresolved scope (or REAL) is never eliminated', 'changed')
    ctx.check('unrounded = self._unrounded_format(e)' in t and 'ctx = self._resolved_ctx(e)' in t, RELIM, fn, q, 'format and context are those of this very expression', 'changed')
    # every rewrite in _visit_expr is under _is_eliminable
    ve = ctx.fn(RELIM, '_RoundElimInstance._visit_expr')
    parents = parent_map(ve)
    rew = [r for r in walk_no_nested(ve) if isinstance(r, ast.Return) and norm(r.value) in ('self._visit_expr(e.arg, ctx)', 'self._hoist(e, ctx)')]
    if len(rew) != 2:
        raise ShapeError('RoundElim rewrite sites not found')
    for r in rew:
        g = ' && '.join(norm(x, 4000) for x, arm in guards_of(ve, r, parents))
        ctx.check('self._is_eliminable(e)' in g, RELIM, r, '_RoundElimInstance._visit_expr', f'{norm(r.value)} only when eliminable', f'guards: {g[:200]}')
    hoistret = [r for r in rew if 'hoist' in norm(r.value)][0]
    g = ' && '.join(norm(x, 4000) for x, arm in guards_of(ve, hoistret, parents))
    ctx.check('isinstance(ctx, _Ctx)' in g and 'isinstance(e, (Add, Sub, Mul, Abs, Neg))' in g, RELIM, hoistret, '_RoundElimInstance._visit_expr',
              'only exact +, -, *, abs, neg are moved under REAL, and only where a statement slot exists', f'guards: {g[:200]}')
    # the unrounded format of each op is computed with the matching exact operator
    uf = ctx.fn(RELIM, '_RoundElimInstance._unrounded_format')
    want = {'Add': 'operator.add', 'Sub': 'operator.sub', 'Mul': 'operator.mul', 'Abs': 'abs', 'Neg': 'operator.neg'}
    for m in [x for x in walk_no_nested(uf) if isinstance(x, ast.Match)]:
        for c in m.cases:
            if isinstance(c.pattern, ast.MatchClass) and dotted(c.pattern.cls) in want:
                cls = dotted(c.pattern.cls)
                call = c.body[0].value if isinstance(c.body[0], ast.Return) else None  # type: ignore
                got = norm(call.args[-1]) if isinstance(call, ast.Call) and call.args else None
                fields = [norm(a) for a in call.args[:-1]] if isinstance(call, ast.Call) else []
                wf = ['self.format_info.by_expr.get(e.first)', 'self.format_info.by_expr.get(e.second)'] if cls in ('Add', 'Sub', 'Mul') else ['self.format_info.by_expr.get(e.arg)']
                ctx.check(got == want[cls] and fields == wf, RELIM, c.pattern, '_RoundElimInstance._unrounded_format', f'{cls}: exact {want[cls]} of its operands\' formats',
                          f'got {got} over {fields}')
    # the hoist: operands bound under the original context, the op alone under REAL
    h = ctx.fn(RELIM, '_RoundElimInstance._hoist')
    t = norm(h, 100000)
    ctx.check('ContextStmt(UnderscoreId(), ForeignVal(REAL, loc), block, loc)' in t and 'block = StmtBlock([Assign(result_name, None, rebuilt, loc)])' in t
              and 'rebuilt = rebuild(e, new_operands)' in t, RELIM, h, '_RoundElimInstance._hoist', 'the operation alone is evaluated under REAL', 'changed')
    ctx.check('ctx.stmts.append(Assign(t_op, None, new_operand, loc))' in t and 'if isinstance(new_operand, Var):' in t, RELIM, h, '_RoundElimInstance._hoist',
              'non-variable operands are bound under the original context first (their own roundings stay)', 'changed')
    # RoundInsert
    v = ctx.fn(RINS, '_RoundInsertInstance._verify')
    t = norm(v, 100000)
    ctx.check('if not round_is_identity(bound, self.ctx):' in t and 'if not isinstance(bound, (AbstractFormat, SetFormat)):' in t, RINS, v, '_RoundInsertInstance._verify',
              'a rounding is inserted only where round_is_identity(bound, target); unbounded formats are declined', 'changed')
    ctx.check('not bound.specials_contained_in(AbstractFormat.from_format(target))' in t, RINS, v, '_RoundInsertInstance._verify', 'special values must be representable in the target too', 'changed')
    ve = ctx.fn(RINS, '_RoundInsertInstance._visit_expr')
    t = norm(ve, 100000)
    i_ver = t.find('else self._verify(e)')
    i_idx = t.find('idx = self.site_idx')
    i_h = t.find('hoisted = self._hoist(e, ctx)')
    ctx.check(0 <= i_ver < i_idx < i_h and 'if declined is not None:' in t, RINS, ve, '_RoundInsertInstance._visit_expr', 'verify -> refuse or count -> hoist', 'order changed')
    ctx.check('not self.scopes.is_exact(e)' in t, RINS, ve, '_RoundInsertInstance._visit_expr', 'only operations under an exact scope are given a format', 'changed')
    h = ctx.fn(RINS, '_RoundInsertInstance._hoist')
    t = norm(h, 100000)
    ctx.check('ContextStmt(UnderscoreId(), ForeignVal(self.ctx, loc), block, loc)' in t and 'rebuild(e, args)' in t, RINS, h, '_RoundInsertInstance._hoist', 'the operation alone is evaluated under the target', 'changed')
    # round_is_identity decision table
    ri = ctx.fn(FMT_ANALYSIS, 'round_is_identity')
    AF, CX = Inst('AbstractFormat'), Inst('Context')
    r = decide(repo, FMT_ANALYSIS, ri.body, {'unrounded': None, 'ctx': CX, 'ctx is REAL': False}, lenient=True)
    ctx.check(r[0] == 'return' and r[1] is False, FMT_ANALYSIS, r[2] or ri, 'round_is_identity', 'unknown format -> False', f'got {r[1]!r}')
    r = decide(repo, FMT_ANALYSIS, ri.body, {'unrounded': AF, 'ctx': None, 'ctx is REAL': False}, lenient=True)
    ctx.check(r[0] == 'return' and r[1] is False, FMT_ANALYSIS, r[2] or ri, 'round_is_identity', 'unknown context -> False', f'got {r[1]!r}')
    r = decide(repo, FMT_ANALYSIS, ri.body, {'unrounded': AF, 'ctx': CX, 'ctx is REAL': True})
    ctx.check(r[0] == 'return' and r[1] is True, FMT_ANALYSIS, r[2] or ri, 'round_is_identity', 'REAL -> True', f'got {r[1]!r}')
    env = {'unrounded': AF, 'ctx': CX, 'ctx is REAL': False, 'isinstance(unrounded, SetFormat)': False, 'not isinstance(ctx_fmt, AbstractableFormat)': True}
    r = decide(repo, FMT_ANALYSIS, ri.body, env, on_assign=lambda s, e: isinstance(s, ast.Assign))
    ctx.check(r[0] == 'return' and r[1] is False, FMT_ANALYSIS, r[2] or ri, 'round_is_identity', 'a target format that cannot be abstracted -> False', f'got {r[1]!r}')
    env['not isinstance(ctx_fmt, AbstractableFormat)'] = False
    r = decide(repo, FMT_ANALYSIS, ri.body, env, on_assign=lambda s, e: isinstance(s, ast.Assign))
    ctx.check(r[0] == 'return' and isinstance(r[1], Opaque) and norm(r[1].node) == 'unrounded <= AbstractFormat.from_format(ctx_fmt)', FMT_ANALYSIS, r[2] or ri, 'round_is_identity',
              'otherwise: containment of the unrounded format in the target format', f'got {r[1]!r}')
    env2 = {'unrounded': AF, 'ctx': CX, 'ctx is REAL': False, 'isinstance(unrounded, SetFormat)': True}
    r = decide(repo, FMT_ANALYSIS, ri.body, env2, on_assign=lambda s, e: isinstance(s, ast.Assign))
    ctx.check(r[0] == 'return' and isinstance(r[1], Opaque) and norm(r[1].node) == '_all_representable_in(unrounded.values, ctx_fmt)', FMT_ANALYSIS, r[2] or ri, 'round_is_identity',
              'finite value set: every value representable', f'got {r[1]!r}')


# ----------------------------------------------------------------------
# T2 special-value probes

def t2_special_probes(ctx: Ctx):
    d = ctx.fn(SPECIAL, '_describe')
    probes = {}
    for s in walk_no_nested(d):
        if isinstance(s, ast.Assign) and call_name(s.value) == '_special_pair':
            probes[dotted(s.targets[0])] = norm(s.value.args[1])  # type: ignore
    want = {'nan': 'Float(isnan=True)', 'inf': 'Float(isinf=True)', 'zero': 'Float(c=0)'}
    ctx.check(probes == want, SPECIAL, d, '_describe', 'probes NaN, infinity and zero of the source context itself', f'got {probes}')
    sp = ctx.fn(SPECIAL, '_special_pair')
    t = norm(sp, 4000)
    ctx.check('pos = try_round(ctx, positive)' in t and 'neg = try_round(ctx, Float(x=positive, s=True))' in t and 'return (pos, neg)' in t, SPECIAL, sp, '_special_pair',
              'each probe is taken for both signs (five distinct values with +0/-0, +inf/-inf, NaN)', 'changed')
    ctx.check('if pos is None or neg is None: return None' in t.replace('\n', ' ') or ('pos is None or neg is None' in t), SPECIAL, sp, '_special_pair', 'a refused special is not stated as a branch', 'changed')
    u = ctx.fn(SPECIAL, '_UnfoldSpecialInstance._unfold')
    t = norm(u, 100000)
    ctx.check('assign(sign_choice(src.zero[0], src.zero[1], arg(), loc))' in t and 'Compare([CompareOp.EQ], [arg(), Integer(0, loc)], loc)' in t, SPECIAL, u,
              '_UnfoldSpecialInstance._unfold', 'zero branch: x == 0 -> the probe\'s own results, chosen by the operand\'s sign', 'changed')
    ctx.check('((ValueClass.INF, IsInf, src.inf), (ValueClass.NAN, IsNan, src.nan))' in t and 'assign(sign_choice(pair[0], pair[1], arg(), loc))' in t, SPECIAL, u,
              '_UnfoldSpecialInstance._unfold', 'isinf -> the infinity probe, isnan -> the NaN probe', 'branch/probe pairing changed')
    ctx.check('type(e)(e.func, arg(), loc)' in t and 'ContextStmt(UnderscoreId(), ctx_expr,' in t, SPECIAL, u, '_UnfoldSpecialInstance._unfold',
              'the remaining rounding is the same operation (round or cast) under the source/dropped context', 'changed')
    sc = ctx.fn(UTILS, 'sign_choice')
    t = norm(sc, 4000)
    ctx.check('IfExpr(Signbit(None, operand, loc), value_literal(neg, loc), value_literal(pos, loc), loc)' in t, UTILS, sc, 'sign_choice', 'signbit(x) ? negative result : positive result', 'changed')
    vl = ctx.fn(UTILS, 'value_literal')
    t = norm(vl, 4000)
    ctx.check("Decnum('-0.0', loc)" in t and 'ConstNan(None, loc) if v.isnan else ConstInf(None, loc)' in t and 'Neg(e, loc) if v.s else e' in t, UTILS, vl, 'value_literal',
              'literal forms: -0.0, nan(), inf(), negated by sign', 'changed')
    # shedding: only rules no finite operand can reach
    sh = ctx.fn(SPECIAL, '_shedable')
    t = norm(sh, 4000)
    ctx.check('if ctx.enable_inf or ctx.inf_value is not None: return ValueClass.NAN' in t.replace('\n', ' ') or ('ctx.enable_inf or ctx.inf_value is not None' in t and 'return ValueClass.NAN' in t), SPECIAL, sh, '_shedable',
              'where a finite overflow can produce an infinity, the infinity rule stays in the format', 'changed')


# ----------------------------------------------------------------------
# P1 strategy wrappers

STRATEGY_WRAPPERS = [
    ('special_unfold.py', 'unfold_special', 'UnfoldSpecial'), ('overflow_unfold.py', 'unfold_overflow', 'UnfoldOverflow'),
    ('neg_zero_unfold.py', 'unfold_neg_zero', 'UnfoldNegZero'), ('float_lower.py', 'lower_float', 'FloatToFixed'),
    ('fixed_rescale.py', 'rescale_fixed', 'RescaleFixed'), ('round_insert.py', 'insert_round', 'RoundInsert'),
]


def t9_exponent_of_a_rational(ctx: Ctx):
    """The lowered form of a rounding reads the exponent of the operand with `logb`.  Under `fp.REAL` the operand may be a
    non-dyadic rational (`t = x / 3`), which `round` accepts; so must `logb`, or the lowered program raises where the source
    returns.  `ops.logb` is evaluated, from its source, on rationals of both signs on either side of a power of two: the
    answer is floor(log2|q|)."""
    from fractions import Fraction

    from ..minipy import Interp
    OPS = 'fpy2/ops.py'
    fn = ctx.fn(OPS, 'logb')
    funcs = {n: f for n, f in ctx.repo.functions(OPS) if '.' not in n}
    # the lowering does read the exponent that way
    F2F = T + 'float_to_fixed.py'
    uses = [k for q, f in ctx.repo.functions(F2F) for k in calls_in(f) if call_name(k) == 'Logb']
    if not uses:
        raise ShapeError('float_to_fixed no longer builds a Logb node: re-derive the premise')
    for q in (Fraction(1, 3), Fraction(2, 3), Fraction(10, 3), Fraction(-5, 7), Fraction(1, 1000), Fraction(1023, 3), Fraction(-4, 3), Fraction(7, 5)):
        it = Interp(funcs, globals_={'Fraction': Fraction}, is_a=lambda k, c: k == c,
                    overrides={'_cvt_to_real': lambda x: x, 'is_dyadic': lambda x: False, 'RealFloat.from_int': lambda n: n, 'ctx.round': lambda v, **k: v})
        try:
            got: object = it.call_function(fn, [q, 'CTX'])
        except ShapeError as ex:
            if 'table function raises' not in str(ex):
                raise
            got = 'raises'
        except Exception as ex:
            got = f'raises {type(ex).__name__}'
        want = 0
        while Fraction(2) ** want > abs(q):
            want -= 1
        while Fraction(2) ** (want + 1) <= abs(q):
            want += 1
        ctx.check(got == want, OPS, fn, 'logb', f'logb({q}) = {want}', f'answers {got}: `with fp.REAL: t = x / 3` / `with fp.FP16: y = round(t)` lowered by float_to_fixed raises where the source returns')


def g2_scopeless_operations(ctx: Ctx):
    """The context analysis records every operation under the scope whose context rounds it -- except one in the header
    of a `with` (`with fp.MPFixedContext(n - 1):`), which is evaluated exactly and recorded under none (`_visit_context`
    does not visit the context expression).  `find_scope_from_use` raises KeyError for such an operation, so a pass
    that asks for the scope of every operation it meets must ask in a way that answers: the two scope questions of the
    rounding passes are evaluated, from their source, on an operation with a scope of each kind and on one without."""
    from ..minipy import Interp, Obj
    CU = 'fpy2/analysis/context_use.py'
    vc = ctx.fn(CU, '_ContextUseInstance._visit_context') if ctx.repo.has_func(CU, '_ContextUseInstance._visit_context') else None
    if vc is None:
        raise ShapeError('_visit_context of the context analysis not found')
    visits_header = any(call_name(k) in ('self._visit_expr',) and k.args and norm(k.args[0]) == 'stmt.ctx' for k in calls_in(vc))
    ctx.note('the context analysis ' + ('records' if visits_header else 'does not record') + ' the operations of a with header under a scope')
    fs = ctx.fn(CU, 'ContextUseAnalysis.find_scope_from_use')
    raises = any(isinstance(n, ast.Raise) for n in ast.walk(fs))

    class NoScope(Exception):
        pass

    def mk_ctx_use(table):
        def find(e):
            if e in table:
                return table[e]
            raise NoScope()
        return Obj('ContextUseAnalysis', use_to_scope=table, find_scope_from_use=find)
    REAL, FP = Obj('Context', label='REAL'), Obj('Context', label='FP64')
    op_real, op_fp, op_sym, op_none = (Obj('Add', label=l) for l in ('under REAL', 'under FP64', 'under a symbolic scope', 'in a with header'))
    table = {op_real: Obj('ContextScope', ctx=REAL), op_fp: Obj('ContextScope', ctx=FP), op_sym: Obj('ContextScope', ctx=Obj('NamedId'))}
    for rel, q, want in ((RINS, 'ExactScopes.is_exact', {op_real: True, op_fp: False, op_sym: False, op_none: False}),
                         (RELIM, '_RoundElimInstance._resolved_ctx', {op_real: REAL, op_fp: FP, op_sym: None, op_none: None})):
        fn = ctx.fn(rel, q)
        cls = q.split('.')[0]
        meths = {n: f for n, (_, _, f) in ctx.repo.methods(rel, cls, inherited=False).items()}
        for op, w in want.items():
            me = Obj(cls, ctx_use=mk_ctx_use(table), outer=None, outer_ctx=None)
            it = Interp({}, meths, self_obj=me, globals_={'REAL': REAL}, is_a=lambda k, c: k == c)
            try:
                got: object = it.call_function(fn, [op], bound_self=True)
            except NoScope:
                got = 'KeyError'
            if op is op_none and (visits_header or not raises):
                ctx.ok(rel, fn, q, f'an operation {op.fields["label"]}: the analysis answers for it')
                continue
            ctx.check(got is w or got == w, rel, fn, q, f'an operation {op.fields["label"]}: ' + ('not a candidate' if w in (False, None) else 'its scope\'s context'),
                      f'answers {got if not isinstance(got, Obj) else got.fields.get("label")}: insert_round, its sites() and refusals() (or RoundElim) fail with KeyError on '
                      '`with fp.MPFixedContext(n - 1): ...`, the shape float_to_fixed itself produces')


def p1_strategy_wrappers(ctx: Ctx):
    repo = ctx.repo
    n = 0
    for fname, fn_name, cls in STRATEGY_WRAPPERS:
        rel = STRATS + fname
        if not repo.has_module(rel):
            raise ShapeError(f'{rel} missing')
        funcs = [f for q, f in repo.functions(rel) if '.' not in q and not q.startswith('_')]
        for f in funcs:
            rets = [s for s in walk_no_nested(f) if isinstance(s, ast.Return) and s.value is not None]
            if not rets:
                continue
            n += 1
            last = rets[-1].value
            inner = [k for k in calls_in(last) if (call_name(k) or '').endswith('.apply_with_edits')]
            good = isinstance(last, ast.Call) and call_name(last) == 'func.with_edits' and len(inner) == 1 \
                and norm(inner[0].args[0]) == 'func.ast' and (call_name(inner[0]) or '').split('.')[0] == cls
            wh = kwarg(inner[0], 'where') if inner else None
            good = good and (wh is None or norm(wh) == 'func.rebase(where)')
            ctx.check(good, rel, f, f.name, f'{f.name}: func.with_edits({cls}.apply_with_edits(func.ast, where=func.rebase(where), ...))',
                      f'got {norm(last)[:160]}')
    if n < 6:
        raise ShapeError(f'only {n} strategy wrappers found')


EXPLANATION = (
    'Static rules over the rounding-lowering transforms (ast only). Decided: (T1) in the overflow unfolding the emitter and '
    'the static verifier use identical (operand, comparator, threshold, overflow value) tuples and those are: rounded > maxval, '
    'rounded < -maxval, operand >= infval, operand <= -infval; _holds decides each comparator as named; the unbounded '
    'counterpart keeps precision/position/mode; (X1) every block rewriter defines candidate/verify/rewrite, declines a '
    'statically unknown context first, class ladders end in Declined, candidates are pure rounding blocks, a declined block '
    'is neither rewritten nor counted; (F2) wherever a context is rebuilt from the source context, num_randbits and rng are '
    'forwarded or stochastic sources are refused; (G1) RoundElim/RoundInsert rewrite only under round_is_identity of this '
    'expression\'s format and context, with the exact-operator format per op; round_is_identity decision table; (T2) '
    'UnfoldSpecial probes NaN/inf/zero in both signs of the source context and emits the probe\'s own results; (S1) both '
    'rounding rewrites mask while conditions, conditional-expression arms, and/or tails and comprehension elements; (P1) '
    'strategy wrappers go through apply_with_edits and with_edits with a rebased cursor. NOT decided: emin/expmin clamps '
    'and scale factors of FloatToFixed/RescaleFixed, that emitted text computes what the verifier assumed beyond T1.'
)
ASSUMPTIONS = ['format inference bounds are sound (C14)', 'Context.round is correct (C01)', 'PartialEval values are sound (C13)']

ROUND_HOISTERS = [
    Hoister(RELIM, '_RoundElimInstance', 'an operation together with the bindings of its operands'),
    Hoister(RINS, '_RoundInsertInstance', 'an operation together with the bindings of its operands'),
]

# ----------------------------------------------------------------------
# T3 the overflow policy of a bounded float format is read off BOTH probes

def f5_prober_signed_bounds(ctx: Ctx):
    """The description `_Prober.describe` hands to the emitter states four thresholds, two per sign: the largest value and
    the first value past it.  A bounded fixed-point format need not be symmetric (two's complement; an MPB format with its
    own `neg_maxval`), so each is asked of the format *with its sign*: the argument filling a field `neg_<q>` of `_Source`
    is `ctx.<q>(s=True).as_real()`, the one filling `<q>` is `ctx.<q>().as_real()` -- never derived from the other
    sign's.  (The emitter and the prober's own consistency test both read the description, so they cannot see this.)"""
    q = '_Prober.describe'
    fn = ctx.fn(OVERFLOW, q)
    cdef = ctx.repo.cls(OVERFLOW, '_Source')
    fields = [s.target.id for s in cdef.body if isinstance(s, ast.AnnAssign) and isinstance(s.target, ast.Name)]
    builds = [k for k in calls_in(fn) if call_name(k) == '_Source']
    if len(builds) != 1:
        raise ShapeError(f'_Prober.describe: {len(builds)} constructions of _Source')
    b = builds[0]
    given = dict(zip(fields, b.args))
    given.update({k.arg: k.value for k in b.keywords if k.arg})
    defs: dict[str, list[ast.AST]] = {}
    for st in ast.walk(fn):
        if isinstance(st, ast.Assign) and len(st.targets) == 1 and isinstance(st.targets[0], ast.Name):
            defs.setdefault(st.targets[0].id, []).append(st.value)
    n = 0
    for quantity in ('maxval', 'infval'):
        for neg in (False, True):
            f = ('neg_' if neg else '') + quantity
            if f not in given:
                raise ShapeError(f'_Source has no field `{f}`')
            e = given[f]
            src = defs.get(e.id, []) if isinstance(e, ast.Name) else [e]
            want = (f'ctx.{quantity}(s=True).as_real()',) if neg else (f'ctx.{quantity}().as_real()', f'ctx.{quantity}(s=False).as_real()')
            n += 1
            ctx.check(len(src) == 1 and norm(src[0]) in want, OVERFLOW, src[0] if src else b, q, f'`{f}` of the description is asked of the format with its sign (`{want[0]}`)',
                      f'`{f}` is `{norm(src[0]) if src else "?"}`: for MPBFixedContext(-1, 100, RNE, SATURATE, neg_maxval=-200) under early_check=True the threshold below zero is -201, '
                      'not the mirror of the one above; -199 is representable and the lowered program returns -200')
    if n != 4:
        raise ShapeError('prober thresholds: table shrank')


def t3_overflow_policy(ctx: Ctx):
    """`_overflow_policy` rounds a value past each bound and names the policy: infinite (+inf and -inf), NaN (both NaN),
    saturating (each bound kept, with its sign).  Anything asymmetric -- a substitute on one side -- has no fixed-point
    counterpart and must be declined.  The decision tail is evaluated for every pair of probe outcomes."""
    from ..minipy import Interp, Obj
    q = '_overflow_policy'
    fn = ctx.fn(F2F, q)
    tries = [i for i, s in enumerate(fn.body) if isinstance(s, ast.Try)]
    if len(tries) != 1:
        raise ShapeError('_overflow_policy: probe block not found')
    tail = fn.body[tries[0] + 1:]

    def probe(kind: str) -> Obj:
        real = {'max': 'MAX', 'negmax': 'NEGMAX', 'other': 'OTHER'}.get(kind)
        return Obj('Float', isinf=kind in ('+inf', '-inf'), isnan=kind == 'nan', s=kind in ('-inf', 'negmax'),
                   is_nar=(lambda k=kind: k in ('+inf', '-inf', 'nan')), as_real=(lambda r=real: r))
    kinds = ('+inf', '-inf', 'nan', 'max', 'negmax', 'other')
    bad = None
    n = 0
    for kp in kinds:
        for kn in kinds:
            it = Interp({}, globals_={'maxval': 'MAX', 'neg_maxval': 'NEGMAX'})
            got = it.run_stmts(tail, {'pos': probe(kp), 'neg': probe(kn)})
            n += 1
            want = ('enum', '_Policy', 'INFINITE') if (kp, kn) == ('+inf', '-inf') else ('enum', '_Policy', 'NAN_ON_OVERFLOW') if (kp, kn) == ('nan', 'nan') \
                else ('enum', '_Policy', 'SATURATING') if (kp, kn) == ('max', 'negmax') else None
            if got != want and bad is None:
                bad = f'past the positive bound -> {kp}, past the negative bound -> {kn}: policy {got[2] if got else None}, expected {want[2] if want else "declined"}'
    ctx.check(bad is None, F2F, fn, q, f'the policy is named only when both probes agree with it ({n} outcome pairs)',
              (bad or '') + ': a context whose two sides overflow differently would be lowered to a fixed-point context that treats them alike')


# ----------------------------------------------------------------------
# T4 UnfoldNegZero's refusal predicate

def t4_sign_survives(ctx: Ctx):
    """`round(x)` under a format with -0 is rewritten to `copysign(round'(x), x)` under the same format without it.  That
    is the same function exactly when every zero the original produces carries the operand's sign.  The routes to a
    zero that does not: a wrapping overflow, and a NaN or an infinity that the format replaces by a zero (taken when the
    special itself is not enabled).  The predicate is evaluated, from its source, on every combination of class,
    overflow mode, the two enable flags and the two substitutes, and compared with that route table."""
    from ..minipy import Interp, Obj
    fn = ctx.fn(NEGZERO, '_sign_survives')
    mod = ctx.repo.module(NEGZERO)
    funcs = {s.name: s for s in mod.tree.body if isinstance(s, ast.FunctionDef)}
    is_a = lambda k, c: k == c or (k in ('MPBFixedContext',) and c in ('MPFixedContext', '_FixedCtx')) or (k == 'MPFixedContext' and c == '_FixedCtx')  # noqa: E731
    subs = {
        'none': None,
        'zero': Obj('Float', is_nar=lambda: False, is_zero=lambda: True, isnan=False, isinf=False),
        'nonzero': Obj('Float', is_nar=lambda: False, is_zero=lambda: False, isnan=False, isinf=False),
        'nan': Obj('Float', is_nar=lambda: True, is_zero=lambda: False, isnan=True, isinf=False),
    }
    n = 0
    bad = None
    for kind, overflows in (('MPFixedContext', (None,)), ('MPBFixedContext', ('WRAP', 'SATURATE', 'OVERFLOW'))):
        for ov in overflows:
            for en_nan in (True, False):
                for en_inf in (True, False):
                    for kn, vn in subs.items():
                        for ki, vi in subs.items():
                            c = Obj(kind, enable_nan=en_nan, enable_inf=en_inf, nan_value=vn, inf_value=vi,
                                    overflow=('enum', 'OverflowMode', ov) if ov else None)
                            got = Interp(funcs, is_a=is_a).call_function(fn, [c])
                            want = not (ov == 'WRAP' or (not en_nan and kn == 'zero') or (not en_inf and ki == 'zero'))
                            n += 1
                            if got and not want and bad is None:       # refusing more than needed is safe
                                bad = (f'{kind}(overflow={ov}, enable_nan={en_nan}, nan_value={kn}, enable_inf={en_inf}, inf_value={ki}): the predicate offers the rewrite, '
                                       f'but a zero of foreign sign is reachable')
    ctx.check(bad is None, NEGZERO, fn, '_sign_survives', f'the rewrite is offered only where no zero of foreign sign is reachable ({n} format configurations)',
              (bad or '') + ' -- copysign hands that zero the sign of the NaN / infinity / wrapped operand')
    # the predicate gates the rewrite
    users = [(q, k) for q, f in ctx.repo.functions(NEGZERO) for k in calls_in(f) if call_name(k) == '_sign_survives']
    ctx.check(len(users) >= 1, NEGZERO, fn, '_sign_survives', 'the predicate is consulted by the rewriter', 'no caller')


def t8_special_operands(ctx: Ctx):
    """What UnfoldOverflow's emitted program does with NaN and the infinities has to be what the source context does --
    including *refusing* them: a branch can assign a value, it cannot raise.  `_Prober._specials`, evaluated from its
    source: for each special, (source result, emitted result) agree -> no branch; both are values and differ -> a branch
    with the source's values; the source refuses where the emitted program would not -> the context is declined."""
    from ..minipy import Interp, Obj
    fn = ctx.fn(OVERFLOW, '_Prober._specials')
    NAN, NNAN, PINF, NINF = Obj('nan'), Obj('-nan'), Obj('+inf'), Obj('-inf')
    A, B, C = Obj('value A'), Obj('value B'), Obj('value C')
    rows = [
        ('the source refuses NaN, the emitted program returns one', {NAN: None, NNAN: None, PINF: A, NINF: B}, {NAN: C, NNAN: C, PINF: A, NINF: B}, 'declined'),
        ('the source refuses the infinities, the emitted program saturates them', {NAN: A, NNAN: A, PINF: None, NINF: None}, {NAN: A, NNAN: A, PINF: B, NINF: C}, 'declined'),
        ('the source refuses one sign only', {NAN: A, NNAN: A, PINF: B, NINF: None}, {NAN: A, NNAN: A, PINF: B, NINF: C}, 'declined'),
        ('both refuse the same specials', {NAN: None, NNAN: None, PINF: A, NINF: B}, {NAN: None, NNAN: None, PINF: A, NINF: B}, 'no branch'),
        ('both give the same values', {NAN: A, NNAN: A, PINF: B, NINF: C}, {NAN: A, NNAN: A, PINF: B, NINF: C}, 'no branch'),
        ('values differ for the infinities', {NAN: A, NNAN: A, PINF: B, NINF: C}, {NAN: A, NNAN: A, PINF: A, NINF: A}, 'branch'),
    ]
    for label, want, emitted, verdict in rows:
        it = Interp({}, {}, globals_={'_NAN': NAN, '_POS_INF': PINF, '_NEG_INF': NINF}, self_obj=Obj('_Prober', ctx='SRC'),
                    overrides={'Float': lambda x=None, s=None: NNAN, 'try_round': lambda c, x, w=want: w[x], 'self._emitted': lambda x, src, g=emitted: g[x],
                               'agrees': lambda a, b: a is b})
        got = it.call_function(fn, ['src'], bound_self=True)
        if verdict == 'declined':
            ok = got is None
        elif verdict == 'no branch':
            ok = isinstance(got, tuple) and all(x is None for x in got)
        else:
            ok = isinstance(got, tuple) and got[0] is None and got[1] == (want[PINF], want[NINF])
        ctx.check(ok, OVERFLOW, fn, '_Prober._specials', f'{label}: {verdict}',
                  f'answers {got!r}: MPBFloatContext(..., SATURATE, enable_inf=False) raises on +inf, the rewritten program returns the largest value')


def t7_wrapping_declined(ctx: Ctx):
    """UnfoldOverflow writes the overflow value out as a constant, so it needs a format whose overflow is one.  It asks by
    rounding two operands far apart; a wrapping format answers modulo its number of values, and two probes can agree by
    arithmetic accident (they do whenever that number divides 2**63 - 1).  So the overflow *mode* has to be asked too:
    `_Prober._overflow`, evaluated from its source with both probes agreeing, must still decline a WRAP context, and
    accept the others."""
    from ..minipy import Interp, Obj
    fn = ctx.fn(OVERFLOW, '_Prober._overflow')
    getattr_ = lambda o, a, d=None: o.fields.get(a, d) if isinstance(o, Obj) else d  # noqa: E731
    for mode in ('WRAP', 'SATURATE', 'OVERFLOW', None):
        val = Obj('Float')
        fields = {'round': lambda x, v=val: v}
        if mode is not None:
            fields['overflow'] = ('enum', 'OverflowMode', mode)
        me = Obj('_Prober', ctx=Obj('Context', **fields))
        it = Interp({}, {}, self_obj=me, overrides={'shift': lambda b, k: (b, k), 'same_value': lambda a, b: a is b, 'getattr': getattr_})
        got = it.call_function(fn, ['MAX', 'NEGMAX'], bound_self=True)
        if mode == 'WRAP':
            ctx.check(got is None, OVERFLOW, fn, '_Prober._overflow', 'a wrapping format is declined even when the two overflow probes agree',
                      f'answers {got!r}: SMFixedContext(0, 3) (7 values, 2**63 = 1 mod 7) is lowered to a constant overflow, and 4 rounds to -1 instead of -3')
        else:
            ctx.check(isinstance(got, tuple) and len(got) == 2, OVERFLOW, fn, '_Prober._overflow', f'overflow mode {mode}: agreeing probes give the constant pair', f'answers {got!r}')


def t6_zero_sum_scopes(ctx: Ctx):
    """A rounding that does not change the value can still decide the sign of a zero: terms of unlike sign that cancel
    give -0 where the scope rounds toward negative and +0 elsewhere (ops._zero_sum).  So neither pass may move an
    addition or a subtraction across such a scope: RoundElim must not call its rounding removable, RoundInsert must
    decline to place it under such a target.  Both predicates are evaluated, from their source, with every other
    condition favourable."""
    from ..minipy import Interp, Obj
    ELIM, INSERT = T + 'round_elim.py', T + 'round_insert.py'
    getattr_ = lambda o, a, d=None: o.fields.get(a, d) if isinstance(o, Obj) else d  # noqa: E731
    fe = ctx.fn(ELIM, '_RoundElimInstance._is_eliminable')
    fi = ctx.fn(INSERT, '_RoundInsertInstance._verify')
    rows = 0
    for kind in ('Add', 'Sub'):
        for rm in ('RTN', 'RNE'):
            scope = Obj('IEEEContext', rm=('enum', 'RM', rm), format=lambda: Obj('Format'), is_stochastic=lambda: False)
            unrounded = Obj('SetFormat')
            it = Interp({}, {}, globals_={'REAL': Obj('RealContext')}, is_a=lambda k, c: k == c,
                        overrides={'self._resolved_ctx': lambda e, s=scope: s, 'self._unrounded_format': lambda e, u=unrounded: u, 'round_is_identity': lambda a, b: True, 'getattr': getattr_})
            got = it.call_function(fe, [Obj(kind)], bound_self=True)
            rows += 1
            if rm == 'RTN':
                ctx.check(got is False, ELIM, fe, '_RoundElimInstance._is_eliminable', f'{kind} under a round-toward-negative scope keeps its rounding',
                          'called removable: `x - x` under an RTN scope is -0.0, hoisted under REAL it is +0.0')
            else:
                ctx.check(got is True, ELIM, fe, '_RoundElimInstance._is_eliminable', f'{kind} under a round-to-nearest scope with an exactly representable result is removable', f'got {got!r}')
            me = Obj('_RoundInsertInstance', ctx=scope, scopes=Obj('scopes', format_info=Obj('info', by_expr={})))
            it = Interp({}, {}, is_a=lambda k, c: k == c, self_obj=me,
                        overrides={'round_is_identity': lambda a, b: True, 'getattr': getattr_, 'Declined': lambda why: Obj('Declined', why=why),
                                   'AbstractFormat.from_format': lambda f: f})
            e = Obj(kind)
            me.fields['scopes'].fields['format_info'].fields['by_expr'][e] = Obj('SetFormat')
            got = it.call_function(fi, [e], bound_self=True)
            rows += 1
            if rm == 'RTN':
                ctx.check(isinstance(got, Obj) and got.kind == 'Declined', INSERT, fi, '_RoundInsertInstance._verify', f'{kind} is not placed under a round-toward-negative target',
                          'accepted: `x - x` under REAL is +0.0, under the inserted RTN rounding it is -0.0')
            else:
                ctx.check(got is None, INSERT, fi, '_RoundInsertInstance._verify', f'{kind} with a representable result is placed under a round-to-nearest target', f'got {got!r}')
    if rows < 8:
        raise ShapeError('zero-sum scope table shrank')


def t5_shed_rules(ctx: Ctx):
    """UnfoldSpecial may take the infinity rule out of a format only if no *finite* operand reaches the infinity.  A
    finite operand reaches it by overflowing under OverflowMode.OVERFLOW when the overflow of *either* sign rounds to the
    infinity (RTP: the positive side only, RTN: the negative side only), or -- with random bits -- on a draw that rounds
    away, whatever the base mode.  `_shedable` is evaluated, from its source, on every combination of class, overflow
    mode, to-infinity behaviour of the two signs, random bits and the two infinity parameters."""
    from itertools import product

    from ..minipy import Interp, Obj
    fn = ctx.fn(SPECIAL, '_shedable')
    mod = ctx.repo.module(SPECIAL)
    funcs = {s.name: s for s in mod.tree.body if isinstance(s, ast.FunctionDef)}
    NANF, INFF = 1, 2
    n = 0
    bad = None
    for kind, ov, pos_inf, neg_inf, k, en_inf, inf_value in product(('MPBFloatContext', 'MPBFixedContext', 'MPFloatContext'), ('OVERFLOW', 'SATURATE', 'WRAP'),
                                                                   (False, True), (False, True), (0, 2, None), (False, True), (None, 'a value')):
        c = Obj(kind, overflow=('enum', 'OverflowMode', ov), num_randbits=k, enable_inf=en_inf, inf_value=inf_value,
                _overflow_to_infinity=lambda s, p=pos_inf, q=neg_inf: q if s else p)
        it = Interp(funcs, globals_={'ValueClass': {'NAN': NANF, 'INF': INFF}})
        got = it.call_function(fn, [c])
        n += 1
        bounded = kind != 'MPFloatContext'
        reaches = bounded and ov == 'OVERFLOW' and (pos_inf or neg_inf or k != 0)
        keeps_meaning = en_inf or inf_value is not None          # a refused infinity stays refused after shedding
        if isinstance(got, int) and got & INFF and reaches and keeps_meaning and bad is None:
            side = 'a negative' if (neg_inf and not pos_inf) else 'a'
            bad = (f'{kind}(overflow={ov}, +overflow to inf: {pos_inf}, -overflow to inf: {neg_inf}, num_randbits={k}, enable_inf={en_inf}, inf_value={inf_value}): '
                   f'the infinity rule is shed although {side} finite operand past the bound rounds to the infinity')
    ctx.check(bad is None, SPECIAL, fn, '_shedable', f'the infinity rule is shed only where no finite operand reaches the infinity ({n} configurations)',
              (bad or '') + ' -- under RTN `round(-70000)` in a format bounded by 65504 is -inf, and the rewritten program raises "Cannot round to infinity"')
    if n < 432:
        raise ShapeError(f'only {n} configurations evaluated')


# ----------------------------------------------------------------------
# F3 rebuilt formats / contexts carry every parameter over under its own name

def f3_rebuild_parameters(ctx: Ctx):
    from .rebuild_rules import name_agreement
    name_agreement(ctx, RESCALE, '_shift_format')
    name_agreement(ctx, RESCALE, '_rescale')
    name_agreement(ctx, OVERFLOW, '_unbounded')
    name_agreement(ctx, NEGZERO, '_without_neg_zero')


RULES = [
    Rule('C10.T3', 'float-to-fixed: the overflow policy is accepted only when both overflow probes show it', t3_overflow_policy, 1, 'T'),
    Rule('C10.T4', 'negative-zero unfolding is refused exactly where a zero of foreign sign is reachable (wrap, or a zero substituted for a disabled NaN / infinity)', t4_sign_survives, 2, 'T'),
    Rule('C10.T8', 'overflow unfolding: a special the source refuses and the emitted program would accept declines the context', t8_special_operands, 6, 'T'),
    Rule('C10.T7', 'overflow unfolding declines a wrapping format by its mode, not only by two probes that may coincide', t7_wrapping_declined, 4, 'T'),
    Rule('C10.T6', 'no addition or subtraction is moved across a round-toward-negative scope (its rounding decides the sign of a zero sum)', t6_zero_sum_scopes, 8, 'T'),
    Rule('C10.T5', 'special-value unfolding sheds the infinity rule only where no finite operand reaches the infinity (either sign, random bits)', t5_shed_rules, 1, 'T'),
    Rule('C10.F3', 'a rebuilt format / context receives every carried-over parameter under its own name (no swapped or shifted arguments)', f3_rebuild_parameters, 30, 'F'),
    Rule('C10.F5', 'the four thresholds the overflow prober describes are each asked of the format with their own sign', f5_prober_signed_bounds, 4, 'F'),
    Rule('C10.P2', 'an analysis handed to a lowering rewriter along with a function is the analysis of that function', analysis_pairing((T + 'float_to_fixed.py', T + 'unfold_overflow.py', T + 'unfold_special.py', T + 'unfold_neg_zero.py', T + 'round_elim.py', T + 'round_insert.py', T + 'rescale_fixed.py'), 10), 10, 'P'),
    Rule('C10.T1', 'overflow unfolding: emitter and verifier use the same (operand, comparator, threshold) pairs; strict for maxval, non-strict for infval', t1_threshold_pairing, 13, 'T,F'),
    Rule('C10.X1', 'block rewriters refuse what they cannot reproduce: unknown context first, class ladders end in Declined', x1_refusal_defaults, 30, 'X,P'),
    Rule('C10.F2', 'random bits are forwarded or stochastic sources refused wherever a context is rebuilt', f2_random_bits, 6, 'F,P'),
    Rule('C10.G1', 'roundings are removed / inserted only under round_is_identity; decision table of round_is_identity', g1_identity_guard, 22, 'G'),
    Rule('C10.T9', 'the exponent the lowered rounding reads (logb) is defined for every operand the rounding accepts, a non-dyadic rational included', t9_exponent_of_a_rational, 8, 'T'),
    Rule('C10.G2', 'the rounding passes answer for an operation the context analysis records under no scope (a with header)', g2_scopeless_operations, 8, 'G'),
    Rule('C10.T2', 'UnfoldSpecial probes the source context for NaN, inf, zero (both signs) and emits the probe results', t2_special_probes, 9, 'T'),
    Rule('C10.S1', 'RoundElim / RoundInsert hoist nothing out of conditionally or repeatedly evaluated positions', hoist_mask_rule(ROUND_HOISTERS, 'C10.S1'), 12, 'S,X'),
    Rule('C10.P1', 'strategy wrappers: with_edits(apply_with_edits(func.ast, where=func.rebase(where)))', p1_strategy_wrappers, 6, 'P'),
]

from ..selftest import Mutant  # noqa: E402

MUTANTS = [
    Mutant('logb-refuses-a-rational', 'fpy2/ops.py', "    t = _cvt_to_real(x)\n    if isinstance(t, Fraction):", "    t = _cvt_to_float(x)\n    if isinstance(t, Fraction):", 'C10.T9',
           'finding F131 before its repair: the lowered rounding of x / 3 raises ValueError'),
    Mutant('logb-of-a-rational-off-by-one-below-a-power-of-two', 'fpy2/ops.py', "        if (n << max(-e, 0)) < (d << max(e, 0)):\n            e -= 1      # abs(t) < 2 ** e\n", "", 'C10.T9'),
    Mutant('insert-round-asks-for-a-scope-that-is-not-there', RINS, "        scope = self.ctx_use.use_to_scope.get(e)   # type: ignore[call-overload]\n        if scope is None:\n            # an operation in the header of a `with` is evaluated exactly but\n            # belongs to no scope: there is no block to give it a format in\n            return False\n",
           "        scope = self.ctx_use.find_scope_from_use(e)   # type: ignore[arg-type]\n", 'C10.G2', 'finding F125 before its repair'),
    Mutant('elim-round-asks-for-a-scope-that-is-not-there', RELIM, "        scope = self.ctx_use.use_to_scope.get(e)\n        if scope is None:\n            return None\n", "        scope = self.ctx_use.find_scope_from_use(e)\n", 'C10.G2', 'finding F125 before its repair'),
    Mutant('refused-special-left-to-the-rounding', OVERFLOW, "            want = (try_round(self.ctx, pos), try_round(self.ctx, neg))\n", "            want = (try_round(self.ctx, pos), try_round(self.ctx, neg))\n            if want[0] is None and want[1] is None:\n                out.append(None)\n                continue\n", 'C10.T8',
           'seeded change C10e: a bounded float context that refuses the infinities is rewritten to one that saturates them'),
    Mutant('one-sided-refusal-gets-a-branch', OVERFLOW, "            elif want[0] is None or want[1] is None:", "            elif want[0] is None and want[1] is None:", 'C10.T8'),
    Mutant('wrapping-format-judged-by-two-probes', OVERFLOW, "        if getattr(self.ctx, 'overflow', None) is OverflowMode.WRAP:", "        if False:", 'C10.T7',
           'finding F86 before its repair: SMFixedContext(0, 3) lowered to a constant overflow'),
    Mutant('saturating-format-declined-too', OVERFLOW, "        if getattr(self.ctx, 'overflow', None) is OverflowMode.WRAP:", "        if getattr(self.ctx, 'overflow', None) is not OverflowMode.OVERFLOW:", 'C10.T7'),
    Mutant('round-elim-hoists-sums-out-of-rtn', T + 'round_elim.py', "        if isinstance(e, (Add, Sub)) and getattr(ctx, 'rm', None) is RM.RTN:", "        if False:", 'C10.T6',
           'finding F72 before its repair: x - x under an RTN binary16 scope is -0.0, hoisted it is +0.0'),
    Mutant('round-insert-places-sums-under-rtn', T + 'round_insert.py', "        if isinstance(e, (Add, Sub)) and getattr(self.ctx, 'rm', None) is RM.RTN:", "        if isinstance(e, Add) and getattr(self.ctx, 'rm', None) is RM.RTN:", 'C10.T6'),
    Mutant('shed-asks-the-positive-overflow-only', SPECIAL, "    if ctx.num_randbits == 0 and not any(ctx._overflow_to_infinity(s) for s in (False, True)):", "    if ctx.num_randbits == 0 and not ctx._overflow_to_infinity(False):", 'C10.T5',
           'seeded change C10d: under RTN a negative overflow is -inf'),
    Mutant('shed-ignores-random-bits', SPECIAL, "    if ctx.num_randbits == 0 and not any(ctx._overflow_to_infinity(s) for s in (False, True)):", "    if not any(ctx._overflow_to_infinity(s) for s in (False, True)):", 'C10.T5',
           'finding F70 before its repair: under RTZ with random bits 65530 rounds to +inf on some draws'),
    Mutant('shed-whatever-the-overflow-mode', SPECIAL, "    if ctx.overflow is not OverflowMode.OVERFLOW:\n        return both     # saturating", "    if ctx.overflow is OverflowMode.OVERFLOW:\n        return both     # saturating", 'C10.T5'),
    Mutant('zero-substitutes-ignored-when-a-special-is-on', NEGZERO, "    subs = (\n        ([] if ctx.enable_nan else [ctx.nan_value])\n        + ([] if ctx.enable_inf else [ctx.inf_value])\n    )",
           "    if ctx.enable_nan or ctx.enable_inf:\n        return True\n    subs = (ctx.nan_value, ctx.inf_value)", 'C10.T4', 'seeded change C10c'),
    Mutant('zero-substitutes-consulted-when-enabled', NEGZERO, "    subs = (\n        ([] if ctx.enable_nan else [ctx.nan_value])\n        + ([] if ctx.enable_inf else [ctx.inf_value])\n    )",
           "    subs = (ctx.nan_value, ctx.inf_value)", 'C10.T4', 'refuses more than needed, which the property allows', expect='silent'),
    Mutant('wrap-not-refused', NEGZERO, "    if isinstance(ctx, MPBFixedContext) and ctx.overflow is OverflowMode.WRAP:\n        return False", "    if isinstance(ctx, MPBFixedContext) and ctx.overflow is OverflowMode.SATURATE:\n        return False", 'C10.T4'),
    Mutant('sign-survives-respelled', NEGZERO, "    return not any(v is not None and not v.is_nar() and v.is_zero() for v in subs)", "    for v in subs:\n        if v is not None and not v.is_nar() and v.is_zero():\n            return False\n    return True", 'C10.T4',
           'the same table', expect='silent'),
    Mutant('negative-early-threshold-mirrored', T + 'unfold_overflow.py', "            neg_infval = ctx.infval(s=True).as_real()\n", "            neg_infval = RealFloat(s=True, x=infval)\n", 'C10.F5',
           'seeded change C10g: an asymmetric bounded fixed-point format under early_check=True'),
    Mutant('negative-bound-mirrored', T + 'unfold_overflow.py', "            neg_maxval = ctx.maxval(s=True).as_real()\n", "            neg_maxval = ctx.maxval(s=False).as_real()\n", 'C10.F5'),
    Mutant('overflow-sites-classified-on-another-function', T + 'unfold_overflow.py', "        class_info = ValueClassInfer.analyze(func)\n        return _UnfoldOverflowInstance(func, eval_info, class_info).list_sites(within)",
           "        class_info = ValueClassInfer.analyze(func)\n        return _UnfoldOverflowInstance(Simplify.apply(func), eval_info, class_info).list_sites(within)", 'C10.P2'),
    Mutant('saturation-read-off-one-probe', F2F, "        if pos.as_real() == maxval and neg.as_real() == neg_maxval:", "        if pos.as_real() == maxval:", 'C10.T3', 'seeded change C10b'),
    Mutant('infinite-policy-ignores-negative-side', F2F, "    if pos.isinf and neg.isinf and not pos.s and neg.s:", "    if pos.isinf and not pos.s:", 'C10.T3'),
    Mutant('nan-policy-either-side', F2F, "    if pos.isnan and neg.isnan:", "    if pos.isnan or neg.isnan:", 'C10.T3'),
    Mutant('shifted-format-swaps-nan-inf', RESCALE, "                fmt.nmin + k, fmt.enable_nan, fmt.enable_inf, fmt.enable_neg_zero,\n            )\n        case _:", "                fmt.nmin + k, fmt.enable_inf, fmt.enable_nan, fmt.enable_neg_zero,\n            )\n        case _:", 'C10.F3',
           'seeded change C10a: a NaN-only fixed-point context comes back infinity-only after rescale_fixed'),
    Mutant('rescaled-context-swaps-substitutes', RESCALE, "        'inf_value': ctx.inf_value,\n        'nan_value': ctx.nan_value,", "        'inf_value': ctx.nan_value,\n        'nan_value': ctx.inf_value,", 'C10.F3'),
    Mutant('unbounded-context-swaps-flags', OVERFLOW, "                enable_nan=ctx.enable_nan,\n                enable_inf=ctx.enable_inf,", "                enable_nan=ctx.enable_inf,\n                enable_inf=ctx.enable_nan,", 'C10.F3'),
    Mutant('neg-zero-rebuild-shifts-arguments', NEGZERO, "                ctx.nmin, ctx.pos_maxval, ctx.rm, ctx.overflow,\n                ctx.num_randbits,", "                ctx.nmin, ctx.pos_maxval, ctx.overflow, ctx.rm,\n                ctx.num_randbits,", 'C10.F3'),
    Mutant('post-check-nonstrict', OVERFLOW, "rest = past(Var(t, loc), CompareOp.GT, src.maxval, src.over_pos, rest)", "rest = past(Var(t, loc), CompareOp.GE, src.maxval, src.over_pos, rest)", 'C10.T1',
           'maxval itself would be turned into the overflow value'),
    Mutant('early-check-at-maxval', OVERFLOW, "body = past(arg(), CompareOp.GE, src.infval, src.over_pos, body, g)", "body = past(arg(), CompareOp.GE, src.maxval, src.over_pos, body, g)", 'C10.T1'),
    Mutant('negative-side-positive-value', OVERFLOW, "rest = past(Var(t, loc), CompareOp.LT, src.neg_maxval, src.over_neg, rest)", "rest = past(Var(t, loc), CompareOp.LT, src.neg_maxval, src.over_pos, rest)", 'C10.T1'),
    Mutant('verifier-drifts', OVERFLOW, "        if _holds(t, CompareOp.GT, src.maxval):\n            return src.over_pos", "        if _holds(t, CompareOp.GE, src.maxval):\n            return src.over_pos", 'C10.T1'),
    Mutant('holds-ge-strict', OVERFLOW, "        case CompareOp.GE:\n            return c >= 0", "        case CompareOp.GE:\n            return c > 0", 'C10.T1'),
    Mutant('unbounded-default-mode', OVERFLOW, "return MPSFloatContext(ctx.pmax, ctx.emin, ctx.rm)", "return MPSFloatContext(ctx.pmax, ctx.emin)", 'C10.T1'),
    Mutant('unknown-ctx-not-declined', NEGZERO, "        if not isinstance(ctx, Context):\n            return Declined('the context is not statically known')\n        if not isinstance(ctx, _FixedCtx):", "        if not isinstance(ctx, _FixedCtx):", 'C10.X1'),
    Mutant('unknown-class-approximated', F2F, "        case _:\n            return Declined(\n                'the context is not a float format this lowering knows '", "        case _:\n            pass\n    if False:\n            return Declined(\n                'the context is not a float format this lowering knows '", 'C10.X1'),
    Mutant('bound-context-candidate', UTILS, "    if not isinstance(stmt.target, UnderscoreId):\n        return None\n    args: list[Var] = []", "    args: list[Var] = []", 'C10.X1'),
    Mutant('stochastic-not-refused-overflow', OVERFLOW, "        if ctx.num_randbits != 0:\n            return Declined(\n                'stochastic rounding would have to draw its bits under the '\n                'same format'\n            )\n", "", 'C10.F2'),
    Mutant('neg-zero-rebuild-drops-rng', NEGZERO, "                ctx.num_randbits,\n                neg_maxval=ctx.neg_maxval, rng=ctx.rng,", "                0,\n                neg_maxval=ctx.neg_maxval,", 'C10.F2',
           'caught only together with the refusal; alone it is masked by the stochastic refusal', expect='silent'),
    Mutant('rescale-drops-randbits', RESCALE, "        'num_randbits': ctx.num_randbits,\n        'rng': ctx.rng,", "        'num_randbits': 0,\n        'rng': None,", 'C10.F2'),
    Mutant('insert-into-stochastic', RINS, "        if self.ctx.is_stochastic():\n            return Declined(\n                'the target rounds stochastically, so it is not an identity on '\n                'a value it represents'\n            )\n", "", 'C10.F2'),
    Mutant('elim-without-identity', RELIM, "        if not round_is_identity(unrounded, ctx):\n            return False\n", "", 'C10.G1'),
    Mutant('elim-sub-as-add', RELIM, "            case Sub():\n                return exact_binop(\n                    self.format_info.by_expr.get(e.first),\n                    self.format_info.by_expr.get(e.second),\n                    operator.sub,",
           "            case Sub():\n                return exact_binop(\n                    self.format_info.by_expr.get(e.first),\n                    self.format_info.by_expr.get(e.second),\n                    operator.add,", 'C10.G1'),
    Mutant('collapse-unconditional', RELIM, "        if (\n            isinstance(e, (Round, Cast))\n            and self._is_eliminable(e)\n        ):", "        if (\n            isinstance(e, (Round, Cast))\n        ):", 'C10.G1'),
    Mutant('identity-for-unknown-format', FMT_ANALYSIS, "    if unrounded is None or ctx is None:\n        return False\n    if ctx is REAL:", "    if ctx is None:\n        return False\n    if unrounded is None or ctx is REAL:", 'C10.G1'),
    Mutant('insert-ignores-specials', RINS, "            and not bound.specials_contained_in(AbstractFormat.from_format(target))", "            and False", 'C10.G1'),
    Mutant('inf-branch-nan-value', SPECIAL, "        for atom, test, pair in ((ValueClass.INF, IsInf, src.inf),\n                                 (ValueClass.NAN, IsNan, src.nan)):", "        for atom, test, pair in ((ValueClass.INF, IsInf, src.nan),\n                                 (ValueClass.NAN, IsNan, src.inf)):", 'C10.T2'),
    Mutant('sign-choice-swapped', UTILS, "        value_literal(neg, loc), value_literal(pos, loc), loc,", "        value_literal(pos, loc), value_literal(neg, loc), loc,", 'C10.T2'),
    Mutant('zero-probe-is-one', SPECIAL, "    zero = _special_pair(ctx, Float(c=0))", "    zero = _special_pair(ctx, Float(c=1))", 'C10.T2'),
    Mutant('elim-chain-tail-unmasked', RELIM, "            self._visit_expr(arg, ctx if i < 2 else None)\n            for i, arg in enumerate(e.args)", "            self._visit_expr(arg, ctx)\n            for i, arg in enumerate(e.args)", 'C10.S1',
           'finding F42 before its repair (RoundElim)'),
    Mutant('insert-chain-tail-unmasked', RINS, "            self._visit_expr(arg, ctx if i < 2 else None)\n            for i, arg in enumerate(e.args)", "            self._visit_expr(arg, ctx)\n            for i, arg in enumerate(e.args)", 'C10.S1',
           'finding F42 before its repair (RoundInsert)'),
    Mutant('elim-boolop-tail-unmasked', RELIM, "            rest = [self._visit_expr(arg, None) for arg in e.args[1:]]", "            rest = [self._visit_expr(arg, ctx) for arg in e.args[1:]]", 'C10.S1', 'the defect repaired by the fix: commit'),
    Mutant('insert-while-unmasked', RINS, "    def _visit_while(self, stmt: WhileStmt, ctx: Any):\n        return super()._visit_while(stmt, None)[0], ctx", "    def _visit_while(self, stmt: WhileStmt, ctx: Any):\n        return super()._visit_while(stmt, ctx)[0], ctx", 'C10.S1'),
    Mutant('wrapper-bypasses-edits', STRATS + 'overflow_unfold.py', "func.with_edits(UnfoldOverflow.apply_with_edits(", "func.with_ast(UnfoldOverflow.apply(", 'C10.P1'),
]
