"""
C05 — Number values behave as the real numbers they denote.

Decided: sign handling of the unary operators in both number classes
(siblings), IEEE special-value tables of Float.__add__/__mul__/__pow__,
the comparison tables (Float.compare, RealFloat.compare, the rich-comparison
dunders, Ordering.reverse / from_compare, CompareOp.invert and its symbol
tables), exact-or-raise conversions, hashing through the denoted value.
Not decided: the integer arithmetic of +, *, **, split, normalize, bit.
"""

from __future__ import annotations

import ast

from .boundary_rules import native_float_specials
from ..core import Ctx, Rule
from ..facts import ShapeError, call_name, calls_in, dotted, kwarg, norm, walk_no_nested
from ..tables import Inst, Opaque, Sym, decide, module_dict
from .engine_rules import _classify_float_call

REALS = 'fpy2/number/number/reals.py'
FLOATS = 'fpy2/number/number/floats.py'
NATIVE = 'fpy2/number/native.py'
ORDERING = 'fpy2/utils/ordering.py'
COMPARE = 'fpy2/utils/compare.py'

ORD = lambda m: Sym('Ordering', m)   # noqa: E731


# ----------------------------------------------------------------------
# X1 the exact types compute with integers only

EXACT_MODULES = ('fpy2/number/number/reals.py', 'fpy2/number/number/floats.py', 'fpy2/utils/bits.py', 'fpy2/utils/fractions.py')
# what of `math` classifies or builds a special float without rounding anything
MATH_EXACT = {'isnan', 'isinf', 'isfinite', 'copysign', 'nan', 'inf'}


def x1_integer_arithmetic_only(ctx: Ctx):
    """"Exactly, whatever the significand width": the arbitrary-precision types and the helpers they decide by (is this
    integer a power of two, is this rational dyadic) may not route a value through a binary64 -- `math.log2(k)`,
    `math.sqrt`, `float(k)`, `a / b` on integers all round once the operand passes 53 bits, and nothing fails: the answer
    is just wrong for wide operands.  In the modules of the exact types every use of `math` is one of the classifying
    ones, no number is converted with `float(...)`, and no true division appears outside a Fraction."""
    n = 0
    for rel in EXACT_MODULES:
        tree = ctx.repo.module(rel).tree
        funcs = dict(ctx.repo.functions(rel))
        for q, fn in funcs.items():
            for node in ast.walk(fn):
                if isinstance(node, ast.Attribute) and isinstance(node.value, ast.Name) and node.value.id == 'math':
                    n += 1
                    ctx.check(node.attr in MATH_EXACT, rel, node, q, f'`math.{node.attr}` classifies or names a special float (no rounding)',
                              f'`math.{node.attr}` computes in binary64: for operands wider than 53 bits the answer is rounded -- is_power_of_two(2**60 + 1) becomes True, '
                              'so 1 / (2**60 + 1) is taken for a dyadic rational and converted inexactly without an error')
                if isinstance(node, ast.Call) and isinstance(node.func, ast.Name) and node.func.id == 'float' and node.args \
                        and not (isinstance(node.args[0], ast.Constant) and isinstance(node.args[0].value, str)):
                    n += 1
                    ctx.check(q.endswith(('__float__', 'bits_to_float')), rel, node, q, f'`{norm(node)[:40]}` is the conversion to a native float itself',
                              'a value is routed through a binary64 inside exact arithmetic')
                if isinstance(node, ast.BinOp) and isinstance(node.op, ast.Div):
                    n += 1
                    ctx.bad(rel, node, q, f'`{norm(node)[:50]}`', 'true division yields a binary64 for integer operands; exact code divides with Fraction or //')
    if n < 12:
        raise ShapeError(f'only {n} uses of float-valued facilities found in the exact modules (13 math uses confirmed by hand)')


# ----------------------------------------------------------------------
# T3 RealFloat with a non-finite Python float, and with operand types it does not know

def t3_realfloat_foreign_operands(ctx: Ctx):
    import math
    from ..minipy import Interp, Obj
    # the implementation is the last definition of a name (the earlier ones are @overload stubs)
    meths = {s.name: s for s in ctx.repo.cls(REALS, 'RealFloat').body if isinstance(s, ast.FunctionDef)}
    overrides = {'math.isnan': math.isnan, 'math.isinf': math.isinf, 'math.copysign': math.copysign}
    glob = {'math': {'nan': math.nan, 'inf': math.inf}}

    def rf(s: bool, c: int) -> Obj:
        return Obj('RealFloat', _s=s, _c=c, _exp=0)

    def show(x) -> str:
        return 'nan' if isinstance(x, float) and math.isnan(x) else repr(x)
    for op, fn in (('__mul__', meths.get('__mul__')), ('__add__', meths.get('__add__'))):
        if fn is None:
            raise ShapeError(f'RealFloat.{op} not found')
        bad = None
        n = 0
        for s in (False, True):
            for c in (0, 3):
                for other in (math.inf, -math.inf, math.nan):
                    me = rf(s, c)
                    it = Interp({}, methods=meths, globals_=dict(glob), overrides=overrides, self_obj=me)
                    got = it.call_function(fn, [other], bound_self=True)
                    n += 1
                    if op == '__mul__':
                        want = math.nan if (math.isnan(other) or c == 0) else (-math.inf if s != (other < 0) else math.inf)
                    else:
                        want = other
                    same = isinstance(got, float) and ((math.isnan(got) and math.isnan(want)) or got == want)
                    if not same and bad is None:
                        val = ('-' if s else '') + str(c)
                        bad = f'RealFloat({val}) {"*" if op == "__mul__" else "+"} {show(other)} = {show(got)}, IEEE gives {show(want)}'
        ctx.check(bad is None, REALS, fn, f'RealFloat.{op}', f'{op} with an infinite or NaN float follows the IEEE rules ({n} sign / zero / special combinations)', bad or '')
        # an operand of a type this class does not know is left to the other operand's reflected method
        ms = [x for x in walk_no_nested(fn) if isinstance(x, ast.Match)]
        last = ms[0].cases[-1] if ms else None
        ok = last is not None and isinstance(last.pattern, ast.MatchAs) and last.pattern.pattern is None and len(last.body) >= 1 \
            and isinstance(last.body[-1], ast.Return) and norm(last.body[-1].value) == 'NotImplemented'
        ctx.check(ok, REALS, last.pattern if last is not None else fn, f'RealFloat.{op}', f'{op}: an unknown operand type returns NotImplemented (so `RealFloat {"*" if op == "__mul__" else "+"} Float` reaches Float\'s reflected method)',
                  'raises TypeError itself: mixing RealFloat (left) with Float (right) fails although the reverse order works')
    sub = meths.get('__sub__')
    ctx.check(sub is not None, REALS, sub, 'RealFloat.__sub__', '__sub__ is defined (what it adds is decided in S1)', 'missing')
    for r, want in (('__radd__', 'return self + other'), ('__rmul__', 'return self * other'), ('__rsub__', 'return -self + other')):
        f = meths.get(r)
        ctx.check(f is not None and norm(f.body[-1]) == want, REALS, f, f'RealFloat.{r}', f'{r}: {want[7:]}', f'got {norm(f.body[-1]) if f else None}')
    fl = {s.name: s for s in ctx.repo.cls(FLOATS, 'Float').body if isinstance(s, ast.FunctionDef)}
    for r, want in (('__radd__', 'return self + other'), ('__rmul__', 'return self * other'), ('__rsub__', 'return -self + other')):
        f = fl.get(r)
        ctx.check(f is not None and norm(f.body[-1]) == want, FLOATS, f, f'Float.{r}', f'Float.{r}: {want[7:]}', f'got {norm(f.body[-1]) if f else None}')


# ----------------------------------------------------------------------
# S1 unary operators: sign handling agrees between the two classes

def sign_role(call: ast.Call) -> str:
    s = kwarg(call, 's')
    if s is None:
        return 'unchanged'
    if isinstance(s, ast.Constant) and s.value is False:
        return 'cleared'
    if isinstance(s, ast.Constant) and s.value is True:
        return 'set'
    if isinstance(s, ast.UnaryOp) and isinstance(s.op, ast.Not) and dotted(s.operand) in ('self._s', 'self.s', 'self._real._s', 'self._real.s'):
        return 'negated'
    if dotted(s) in ('self._s', 'self.s', 'self._real._s'):
        return 'unchanged'
    return f'other({norm(s)})'


def s1_unary_sign(ctx: Ctx):
    want = {'__neg__': 'negated', '__pos__': 'unchanged', '__abs__': 'cleared'}
    for rel, cls in ((REALS, 'RealFloat'), (FLOATS, 'Float')):
        for m, role in want.items():
            q = f'{cls}.{m}'
            fn = ctx.fn(rel, q)
            rets = [s for s in walk_no_nested(fn) if isinstance(s, ast.Return)]
            if len(rets) != 1 or not isinstance(rets[0].value, ast.Call) or call_name(rets[0].value) != cls:
                raise ShapeError(f'{q} does not return one {cls}(...) construction')
            c = rets[0].value
            got = sign_role(c)
            copies = dotted(kwarg(c, 'x')) == 'self'
            ctx.check(got == role and copies, rel, rets[0], q, f'sign {role}, magnitude copied from self',
                      f'source builds {norm(c)}: the sign is {got}' + ('' if copies else ' and the value is not copied from self'))
    # x - y is x + (-y) with the *IEEE* negation of y: a native zero (the int 0, Fraction(0)) stands for +0, and Python's
    # `-0` is that same unsigned zero, so it has to be turned into -0 by hand -- (-0) - 0 is -0, as (-0) - 0.0 is.
    # `__sub__` of both classes is evaluated, from its source, on each kind of right operand.
    from fractions import Fraction

    from ..minipy import Interp, Obj
    for rel, cls in ((REALS, 'RealFloat'), (FLOATS, 'Float')):
        meths = {s_.name: s_ for s_ in ctx.repo.cls(rel, cls).body if isinstance(s_, ast.FunctionDef)
                 and not any(dotted(d_) in ('overload', 'typing.overload') for d_ in s_.decorator_list)}
        fn = meths.get('__sub__')
        if fn is None:
            raise ShapeError(f'{cls}.__sub__ not found')
        for what, operand, want in (('the int 0', 0, ('zero', True)), ('Fraction(0)', Fraction(0), ('zero', True)), ('the int 3', 3, -3), ('Fraction(1, 3)', Fraction(1, 3), Fraction(-1, 3)),
                                    ('a number of its own class', 'same', 'negated')):
            added: list = []
            me = Obj(cls, add=lambda a, b: added.append(b) or 'sum')
            marker = Obj(cls, neg=lambda a: 'negated')
            it = Interp({}, meths, self_obj=me, globals_={'Fraction': Fraction}, is_a=lambda k, c: k == c,
                        overrides={cls: lambda s=False, c=0, exp=0, **k: ('zero', bool(s)) if c == 0 else ('num', s, c, exp)})
            it.call_function(fn, [marker if operand == 'same' else operand], bound_self=True)
            got = added[0] if added else None
            ctx.check(len(added) == 1 and got == want, rel, fn, f'{cls}.__sub__', f'x - {what} adds {"-0" if want == ("zero", True) else want} to x',
                      f'adds {got!r}: (-0) - 0 gives +0 although (-0) - 0.0 and (-0) - {cls}(+0) give -0')


# ----------------------------------------------------------------------
# T1 IEEE tables of Float.__add__ / __mul__ / __pow__

def t1_float_specials(ctx: Ctx):
    repo = ctx.repo
    XOR = {'self._real._s != other._real._s', 'self.s != other.s', 'other._real._s != self._real._s'}
    SX = {'self.s', 'self._real._s'}
    SY = {'other.s', 'other._real._s'}
    kinds = ('nan', 'inf', 'zero', 'fin')
    IEEE = {
        '__add__': lambda x, y, same: 'nan' if 'nan' in (x, y) else (
            ('nan' if not same else ('inf', SX | SY)) if (x, y) == ('inf', 'inf') else
            ('inf', SX) if x == 'inf' else ('inf', SY) if y == 'inf' else 'finite'),
        '__mul__': lambda x, y, same: 'nan' if 'nan' in (x, y) else (
            'nan' if {x, y} == {'inf', 'zero'} else ('inf', XOR) if 'inf' in (x, y) else 'finite'),
    }
    for op, oracle in IEEE.items():
        q = f'Float.{op}'
        fn = ctx.fn(FLOATS, q)
        other = fn.args.args[1].arg
        if other != 'other':
            raise ShapeError(f'{q}: operand name changed')
        for x in kinds:
            for y in kinds:
                for same in ((True, False) if (op == '__add__' and (x, y) == ('inf', 'inf')) else (None,)):
                    env = {'other': Inst('Float')}
                    for v, k in (('self', x), ('other', y)):
                        env[f'{v}.isnan'] = k == 'nan'
                        env[f'{v}.isinf'] = k == 'inf'
                        env[f'{v}.is_zero()'] = k == 'zero'
                        env[f'{v}._isnan'] = k == 'nan'
                        env[f'{v}._isinf'] = k == 'inf'
                    if same is not None:
                        for a, b in (('self.s', 'other.s'), ('self._real._s', 'other._real._s')):
                            env[f'{a} == {b}'] = same
                            env[f'{a} != {b}'] = not same
                    want = oracle(x, y, same)
                    row = f'{op}({x}, {y}' + ('' if same is None else f', signs {"equal" if same else "differ"}') + ')'
                    kind, val, st = decide(repo, FLOATS, fn.body, env)
                    got = _classify_float_call(val, env) if kind == 'return' else None
                    if want == 'finite':
                        exact = isinstance(val, Opaque) and isinstance(val.node, ast.Call) and call_name(val.node) == 'Float.from_real' \
                            and isinstance(val.node.args[0], ast.BinOp) and norm(val.node.args[0].left) == 'self._real' \
                            and norm(val.node.args[0].right) == 'other._real' \
                            and isinstance(val.node.args[0].op, ast.Add if op == '__add__' else ast.Mult)
                        ctx.check(exact, FLOATS, st or fn, q, row + ' -> exact RealFloat arithmetic', f'source yields {val!r}')
                    elif want == 'nan':
                        ctx.check(got == 'nan', FLOATS, st or fn, q, row + ' -> NaN', f'source yields {got or val!r}; IEEE 754: NaN')
                    else:
                        k, signs = want
                        ctx.check(isinstance(got, tuple) and got[0] == k and got[1] in signs, FLOATS, st or fn, q,
                                  row + f' -> {k}, sign {sorted(signs)[0]}', f'source yields {got or val!r}')
    # operand coercions are exact
    for op in IEEE:
        fn = ctx.fn(FLOATS, f'Float.{op}')
        for kindname, conv in (('RealFloat', 'Float.from_real'), ('int', 'Float.from_int'), ('float', 'Float.from_float'), ('Fraction', 'Float.from_rational')):
            env = {'other': Inst(kindname)}
            seen = []

            def hook(st, e):
                if isinstance(st, ast.If):
                    return True   # stop at the special-value analysis
                return False
            m = [s for s in fn.body if isinstance(s, ast.Match)]
            if not m:
                raise ShapeError(f'Float.{op}: coercion match not found')
            from ..tables import select_case
            c = select_case(repo, FLOATS, m[0], Inst(kindname))
            good = c is not None and len(c.body) == 1 and isinstance(c.body[0], ast.Assign) and dotted(c.body[0].targets[0]) == 'other' \
                and call_name(c.body[0].value) == conv and [dotted(a) for a in c.body[0].value.args] == ['other']  # type: ignore
            ctx.check(good, FLOATS, c.pattern if c else fn, f'Float.{op}', f'{kindname} operand converted by {conv} (exact)', 'coercion changed')
    # subtraction is addition of the negation
    for m, want in (('__rsub__', '-self + other'), ('__radd__', 'self + other'), ('__rmul__', 'self * other')):     # (__sub__: decided in S1, on every kind of operand)
        fn = ctx.fn(FLOATS, f'Float.{m}')
        rets = [s for s in walk_no_nested(fn) if isinstance(s, ast.Return)]
        ctx.check(len(rets) == 1 and norm(rets[0].value) == want, FLOATS, fn, f'Float.{m}', want, f'got {norm(rets[0].value) if rets else None}')
    # integer powers
    q = 'Float.__pow__'
    fn = ctx.fn(FLOATS, q)
    ex = fn.args.args[1].arg
    base_env = {f'not isinstance({ex}, int)': False, f'{ex} < 0': False}
    r = decide(repo, FLOATS, fn.body, {**base_env, f'{ex} == 0': True})
    good = r[0] == 'return' and isinstance(r[1], Opaque) and isinstance(r[1].node, ast.Call) and call_name(r[1].node) == 'Float' \
        and isinstance(kwarg(r[1].node, 'c'), ast.Constant) and kwarg(r[1].node, 'c').value == 1 and kwarg(r[1].node, 's') is None  # type: ignore
    ctx.check(good, FLOATS, r[2] or fn, q, 'x ** 0 = 1 for every x', f'got {r[1]!r}')
    env = {**base_env, f'{ex} == 0': False, 'self.is_nar()': True}
    r = decide(repo, FLOATS, fn.body, env)
    good = False
    if r[0] == 'return' and isinstance(r[1], Opaque) and isinstance(r[1].node, ast.Call):
        c = r[1].node
        s = kwarg(c, 's')
        stext = norm(env[s.id].node) if isinstance(s, ast.Name) and isinstance(env.get(s.id), Opaque) else norm(s) if s is not None else ''
        good = dotted(kwarg(c, 'x')) == 'self' and stext in (f'self._real._s and {ex} % 2 != 0', f'self.s and {ex} % 2 != 0', f'self._real._s and {ex} % 2 == 1')
    ctx.check(good, FLOATS, r[2] or fn, q, 'inf/NaN ** n keeps the kind, sign = sign and n odd', f'got {r[1]!r}')
    r = decide(repo, FLOATS, fn.body, {**base_env, f'{ex} == 0': False, 'self.is_nar()': False})
    good = r[0] == 'return' and isinstance(r[1], Opaque) and norm(r[1].node) == f'Float.from_real(self._real ** {ex})'
    ctx.check(good, FLOATS, r[2] or fn, q, 'finite ** n = exact RealFloat power', f'got {r[1]!r}')
    r = decide(repo, FLOATS, fn.body, {f'not isinstance({ex}, int)': False, f'{ex} < 0': True})
    ctx.check(r[0] == 'raise', FLOATS, r[2] or fn, q, 'negative exponent refused (not exact)', f'got {r[0]}')


# ----------------------------------------------------------------------
# T2 comparison tables

def t2_compare(ctx: Ctx):
    repo = ctx.repo
    # rich comparison dunders of both classes
    want = {'__eq__': {'EQUAL'}, '__lt__': {'LESS'}, '__le__': {'LESS', 'EQUAL'}, '__gt__': {'GREATER'}, '__ge__': {'GREATER', 'EQUAL'}}
    for rel, cls in ((REALS, 'RealFloat'), (FLOATS, 'Float')):
        for m, members in want.items():
            q = f'{cls}.{m}'
            fn = ctx.fn(rel, q)
            rets = [s for s in walk_no_nested(fn) if isinstance(s, ast.Return)]
            last = rets[-1].value
            got = {n.attr for n in ast.walk(last) if isinstance(n, ast.Attribute) and dotted(n.value) == 'Ordering'}
            ors = all(isinstance(b.op, ast.Or) for b in ast.walk(last) if isinstance(b, ast.BoolOp))
            eqs = all(isinstance(c.ops[0], ast.Eq) for c in ast.walk(last) if isinstance(c, ast.Compare))
            via = any(isinstance(s, ast.Assign) and call_name(s.value) == 'self.compare' and [dotted(a) for a in s.value.args] == [fn.args.args[1].arg]  # type: ignore
                      for s in walk_no_nested(fn))
            ctx.check(got == members and ors and eqs and via, rel, fn, q, f'{m} <=> compare(...) in {sorted(members)}',
                      f'source tests {sorted(got)}')
    # Float.compare special arms
    q = 'Float.compare'
    fn = ctx.fn(FLOATS, q)

    def run(env):
        kind, val, st = decide(repo, FLOATS, fn.body, env)
        return kind, val, st

    def envf(self_k, other_cls, other_k=None, self_neg=None, other_neg=None, same=None):
        e = {'self._isnan': self_k == 'nan', 'self._isinf': self_k == 'inf', 'self.isnan': self_k == 'nan', 'self.isinf': self_k == 'inf',
             'other': Inst(other_cls)}
        if other_k is not None:
            e['other._isnan'] = other_k == 'nan'
            e['other._isinf'] = other_k == 'inf'
        if self_neg is not None:
            e['self.s'] = self_neg
        if other_neg is not None:
            e['other.s'] = other_neg
        if same is not None:
            e['self.s == other.s'] = same
        return e
    rows = [
        ('NaN ? anything', envf('nan', 'Float', 'fin'), None),
        ('x ? NaN', envf('fin', 'Float', 'nan'), None),
        ('+inf ? +inf', envf('inf', 'Float', 'inf', False, False, True), ORD('EQUAL')),
        ('-inf ? -inf', envf('inf', 'Float', 'inf', True, True, True), ORD('EQUAL')),
        ('-inf ? +inf', envf('inf', 'Float', 'inf', True, False, False), ORD('LESS')),
        ('+inf ? -inf', envf('inf', 'Float', 'inf', False, True, False), ORD('GREATER')),
        ('-inf ? finite', envf('inf', 'Float', 'fin', True, False, False), ORD('LESS')),
        ('+inf ? finite', envf('inf', 'Float', 'fin', False, False, True), ORD('GREATER')),
        ('finite ? +inf', envf('fin', 'Float', 'inf', False, False), ORD('LESS')),
        ('finite ? -inf', envf('fin', 'Float', 'inf', False, True), ORD('GREATER')),
        ('-inf ? RealFloat', envf('inf', 'RealFloat', None, True), ORD('LESS')),
        ('+inf ? RealFloat', envf('inf', 'RealFloat', None, False), ORD('GREATER')),
        ('-inf ? Fraction', envf('inf', 'Fraction', None, True), ORD('LESS')),
        ('+inf ? Fraction', envf('inf', 'Fraction', None, False), ORD('GREATER')),
    ]
    for name, env, want in rows:
        kind, val, st = run(env)
        ctx.check(kind == 'return' and val == want, FLOATS, st or fn, q, f'{name} -> {want}', f'source yields {val!r}')
    for name, env, wtext in [
        ('finite ? finite Float', envf('fin', 'Float', 'fin'), 'self._real.compare(other._real)'),
        ('finite ? RealFloat', envf('fin', 'RealFloat'), 'self._real.compare(other)'),
        ('finite ? Fraction', envf('fin', 'Fraction'), 'self._real.compare(other)'),
        ('x ? int', envf('fin', 'int'), 'self.compare(RealFloat.from_int(other))'),
        ('x ? float', envf('fin', 'float'), 'self.compare(Float.from_float(other))'),
    ]:
        kind, val, st = run(env)
        ctx.check(kind == 'return' and isinstance(val, Opaque) and norm(val.node) == wtext, FLOATS, st or fn, q, f'{name} -> {wtext}', f'source yields {val!r}')
    # RealFloat.compare sign/zero table
    q = 'RealFloat.compare'
    fn = ctx.fn(REALS, q)

    def envr(self_zero, other_zero, self_neg=None, other_neg=None):
        e = {'other': Inst('RealFloat'), 'self._c == 0': self_zero, 'other._c == 0': other_zero}
        if self_neg is not None:
            e['self._s'] = self_neg
        if other_neg is not None:
            e['other._s'] = other_neg
        if self_neg is not None and other_neg is not None:
            e['self._s != other._s'] = self_neg != other_neg
        return e
    rows = [
        ('0 ? 0 (any signs)', envr(True, True), ORD('EQUAL')),
        ('0 ? negative', envr(True, False, None, True), ORD('GREATER')),
        ('0 ? positive', envr(True, False, None, False), ORD('LESS')),
        ('negative ? 0', envr(False, True, True), ORD('LESS')),
        ('positive ? 0', envr(False, True, False), ORD('GREATER')),
        ('negative ? positive', envr(False, False, True, False), ORD('LESS')),
        ('positive ? negative', envr(False, False, False, True), ORD('GREATER')),
    ]
    for name, env, want in rows:
        kind, val, st = decide(repo, REALS, fn.body, env)
        ctx.check(kind == 'return' and val == want, REALS, st or fn, q, f'{name} -> {want}', f'source yields {val!r}')
    # same sign: magnitude order, reversed for negatives
    for neg in (True, False):
        env = envr(False, False, neg, neg)

        def hook(st, e):
            if isinstance(st, ast.Match) and 'from_compare' in norm(st.subject):
                e['cmp'] = Opaque(ast.Name(id='<magnitude order>'))
                return True
            return False
        kind, val, st = decide(repo, REALS, fn.body, env, hook)
        wtext = 'cmp.reverse()' if neg else '<magnitude order>'
        got = norm(val.node) if isinstance(val, Opaque) else repr(val)
        ctx.check(kind == 'return' and got == wtext, REALS, st or fn, q, f'same sign, {"negative" if neg else "positive"} -> {"reversed " if neg else ""}magnitude order',
                  f'source yields {got}')
    # magnitude order: by MSB position first, then by aligned significands
    inner = [s for s in ast.walk(fn) if isinstance(s, ast.Match) and 'from_compare' in norm(s.subject)]
    if len(inner) != 1:
        raise ShapeError('magnitude comparison match not found')
    m = inner[0]
    ctx.check(norm(m.subject) == 'Ordering.from_compare(self.e, other.e)', REALS, m, q, 'magnitudes ordered by normalised exponent first', f'subject {norm(m.subject)}')
    for c in m.cases:
        mem = dotted(c.pattern.value).split('.')[-1] if isinstance(c.pattern, ast.MatchValue) else None  # type: ignore
        if mem in ('GREATER', 'LESS'):
            asg = [s for s in c.body if isinstance(s, ast.Assign)]
            ctx.check(len(asg) == 1 and dotted(asg[0].value) == f'Ordering.{mem}', REALS, c.pattern, q, f'larger exponent {mem} => magnitude {mem}',
                      f'arm assigns {norm(asg[0].value) if asg else None}')
        elif mem == 'EQUAL':
            last = c.body[-1]
            ctx.check(isinstance(last, ast.Assign) and norm(last.value) == 'Ordering.from_compare(c1, c2)', REALS, c.pattern, q,
                      'equal exponents => compare aligned significands (self first)', f'arm ends in {norm(last)}')
    # float arm
    frows = [('x ? nan', {'other': Inst('float'), 'math.isnan(other)': True}, None),
             ('x ? +inf', {'other': Inst('float'), 'math.isnan(other)': False, 'math.isinf(other)': True, 'other > 0': True}, ORD('LESS')),
             ('x ? -inf', {'other': Inst('float'), 'math.isnan(other)': False, 'math.isinf(other)': True, 'other > 0': False}, ORD('GREATER'))]
    for name, env, want in frows:
        kind, val, st = decide(repo, REALS, fn.body, env)
        ctx.check(kind == 'return' and val == want, REALS, st or fn, q, f'{name} -> {want}', f'source yields {val!r}')
    # Fraction arm
    for lt, gt, want in ((True, False, 'LESS'), (False, True, 'GREATER'), (False, False, 'EQUAL')):
        env = {'other': Inst('Fraction'), 'f < other': lt, 'f > other': gt}
        kind, val, st = decide(repo, REALS, fn.body, env)
        ctx.check(kind == 'return' and val == ORD(want), REALS, st or fn, q, f'Fraction arm: value {"<" if lt else ">" if gt else "=="} other -> {want}', f'source yields {val!r}')
    asg = [s for s in ast.walk(fn) if isinstance(s, ast.Assign) and dotted(s.targets[0]) == 'f']
    ctx.check(len(asg) == 1 and norm(asg[0].value) == 'self.as_rational()', REALS, fn, q, 'Fraction arm compares the exact rational value', 'changed')
    # Ordering helpers
    q = 'Ordering.reverse'
    fn = ctx.fn(ORDERING, q)
    for a, b in (('LESS', 'GREATER'), ('GREATER', 'LESS'), ('EQUAL', 'EQUAL')):
        kind, val, st = decide(repo, ORDERING, fn.body, {'self': ORD(a)})
        ctx.check(kind == 'return' and val == ORD(b), ORDERING, st or fn, q, f'reverse({a}) = {b}', f'got {val!r}')
    q = 'Ordering.from_compare'
    fn = ctx.fn(ORDERING, q)
    for lt, gt, eq, want in ((True, False, False, 'LESS'), (False, True, False, 'GREATER'), (False, False, True, 'EQUAL')):
        kind, val, st = decide(repo, ORDERING, fn.body, {'x < y': lt, 'x > y': gt, 'x == y': eq})
        ctx.check(kind == 'return' and val == ORD(want), ORDERING, st or fn, q, f'from_compare: {"x<y" if lt else "x>y" if gt else "x==y"} -> {want}', f'got {val!r}')
    # CompareOp tables
    q = 'CompareOp.invert'
    fn = ctx.fn(COMPARE, q)
    inv = {'LT': 'GT', 'LE': 'GE', 'GE': 'LE', 'GT': 'LT', 'EQ': 'EQ', 'NE': 'NE'}
    for a in repo.enum_members(COMPARE, 'CompareOp'):
        kind, val, st = decide(repo, COMPARE, fn.body, {'self': Sym('CompareOp', a)})
        ctx.check(a in inv and kind == 'return' and val == Sym('CompareOp', inv.get(a, '?')), COMPARE, st or fn, q, f'a {a} b <=> b {inv.get(a)} a', f'got {val!r}')
    sym = {'LT': '<', 'LE': '<=', 'GE': '>=', 'GT': '>', 'EQ': '==', 'NE': '!='}
    opn = {'LT': '__lt__', 'LE': '__le__', 'GE': '__ge__', 'GT': '__gt__', 'EQ': '__eq__', 'NE': '__ne__'}
    for k, v in zip(*(lambda d: (d.keys, d.values))(module_dict(repo, COMPARE, '_symbol_table'))):
        mem = (dotted(k) or '').split('.')[-1]
        ctx.check(isinstance(v, ast.Constant) and v.value == sym.get(mem), COMPARE, k, '_symbol_table', f'{mem} -> {norm(v)}', f'expected {sym.get(mem)!r}')
    for k, v in zip(*(lambda d: (d.keys, d.values))(module_dict(repo, COMPARE, '_op_table'))):
        mem = (dotted(k) or '').split('.')[-1]
        ctx.check((dotted(v) or '') in (f'operator.{opn.get(mem)}', f'operator.{(opn.get(mem) or "").strip("_")}'), COMPARE, k, '_op_table', f'{mem} -> {norm(v)}', f'expected operator.{opn.get(mem)}')


# ----------------------------------------------------------------------
# P1 conversions are exact or raise

def p1_exact_conversions(ctx: Ctx):
    repo = ctx.repo
    for rel, q in ((REALS, 'RealFloat.__int__'), (FLOATS, 'Float.__int__')):
        fn = ctx.fn(rel, q)
        r = decide(repo, rel, fn.body, {'not self.is_integer()': True, 'self.is_integer()': False}, lenient=True)
        ctx.check(r[0] == 'raise', rel, r[2] or fn, q, 'non-integer value => raise (never truncate)', f'got {r[0]} {r[1]!r}')
    for rel, q, guard in ((FLOATS, 'Float.__trunc__', 'self.is_nar()'), (FLOATS, 'Float.__floor__', 'self.is_nar()'),
                          (FLOATS, 'Float.__ceil__', 'self.is_nar()'), (FLOATS, 'Float.__round__', 'self.is_nar()')):
        fn = ctx.fn(rel, q)
        r = decide(repo, rel, fn.body, {guard: True})
        ctx.check(r[0] == 'raise', rel, r[2] or fn, q, 'infinity / NaN => raise', f'got {r[0]}')
    want = {'__trunc__': 'RTZ', '__floor__': 'RTN', '__ceil__': 'RTP', '__round__': 'RNE'}
    for m, rm in want.items():
        q = f'RealFloat.{m}'
        fn = ctx.fn(REALS, q)
        rets = [s for s in walk_no_nested(fn) if isinstance(s, ast.Return)]
        good = len(rets) == 1 and norm(rets[0].value) == f'int(self.round(min_n=-1, rm=RoundingMode.{rm}))'
        ctx.check(good, REALS, fn, q, f'{m} = exact integer rounding with {rm}', f'got {norm(rets[0].value) if rets else None}')
    q = 'default_float_convert'
    fn = ctx.fn(NATIVE, q)
    tests = [s for s in walk_no_nested(fn) if isinstance(s, ast.If) and norm(s.test) == 'r.inexact']
    good = len(tests) == 1 and isinstance(tests[0].body[0], ast.Raise)
    rounds = [s for s in walk_no_nested(fn) if isinstance(s, ast.Assign) and norm(s.value) == '_FP64.round(x)' and dotted(s.targets[0]) == 'r']
    ctx.check(good and len(rounds) == 1, NATIVE, fn, q, 'float(x): round to binary64, raise if inexact', 'conversion no longer refuses inexact values')
    # ... on every path: a value is handed back only after that rounding-and-check, or when it already is a member of the
    # binary64 context; and what is handed back is the encoding of the checked value
    from ..cfg import CFG, describe_path, find_path
    cfg = CFG(fn)
    rnodes = [n for n in cfg.nodes_of('stmt') if n.ast in rounds]
    member = [n for n in cfg.nodes_of('test') if norm(n.ast) == 'isinstance(x, Float) and x.ctx == _FP64']
    for ret in cfg.returns():
        p = find_path(cfg, cfg.entry, ret, avoid=lambda n: n in rnodes, edge_ok=lambda n, lab: not (n in member and lab is True))
        ctx.check(p is None and norm(ret.ast.value) == 'bits_to_float(_FP64.encode(r))', NATIVE, ret.ast, q,     # type: ignore
                  f'`{norm(ret.ast)[:60]}` hands back the checked binary64 value',
                  'a value is returned without the binary64 rounding and its inexact check (a shortcut that scales the significand rounds silently: '
                  'float(3 * 2**-1075) gives 1e-323 instead of raising)', path=describe_path(p, NATIVE) if p else None)
    node = repo.module(NATIVE).toplevel().get('_FP64')
    v = getattr(node, 'value', None)
    ctx.check(isinstance(v, ast.Call) and call_name(v) == 'IEEEContext' and [norm(a) for a in v.args][:2] == ['11', '64'], NATIVE, node, '_FP64',
              'native float target is binary64', f'got {norm(v) if v is not None else None}')
    q = 'RealFloat.from_rational'
    fn = ctx.fn(REALS, q)
    r = decide(repo, REALS, fn.body, {'not isinstance(x, numbers.Rational)': False, 'not is_dyadic(x)': True, 'is_dyadic(x)': False})
    ctx.check(r[0] == 'raise', REALS, r[2] or fn, q, 'non-dyadic rational => raise', f'got {r[0]}')
    q = 'RealFloat.from_float'
    fn = ctx.fn(REALS, q)
    r = decide(repo, REALS, fn.body, {'not isinstance(x, float)': False, 'ebits == 0': False, 'ebits == FP64_EONES': True}, lenient=False,
               on_assign=lambda st, e: isinstance(st, ast.Assign))
    ctx.check(r[0] == 'raise', REALS, r[2] or fn, q, 'infinite / NaN double => raise', f'got {r[0]}')
    q = 'RealFloat.from_int'
    fn = ctx.fn(REALS, q)
    rets = [s for s in walk_no_nested(fn) if isinstance(s, ast.Return)]
    asg = {dotted(s.targets[0]): norm(s.value) for s in walk_no_nested(fn) if isinstance(s, ast.Assign)}
    good = len(rets) == 1 and norm(rets[0].value) == 'RealFloat(s=s, exp=0, c=c)' and asg.get('s') == 'x < 0' and asg.get('c') == 'abs(x)'
    ctx.check(good, REALS, fn, q, 'from_int: sign = x < 0, significand = |x|, exponent 0', f'got {asg}')
    q = 'RealFloat.as_rational'
    fn = ctx.fn(REALS, q)
    rets = [norm(s.value) for s in walk_no_nested(fn) if isinstance(s, ast.Return)]
    good = rets == ['Fraction(0)', 'Fraction(self.m << self._exp)', 'Fraction(self.m, 1 << -self._exp)']
    ctx.check(good, REALS, fn, q, 'as_rational = m * 2**exp with signed significand m', f'got {rets}')
    # round(x, ndigits): a decimal position has no exact binary value, and an ignored ndigits returns another number
    fn = ctx.fn(REALS, 'RealFloat.__round__')
    nd = [a.arg for a in fn.args.args][1:]
    r = decide(repo, REALS, fn.body, {f'{nd[0]} is not None': True, f'{nd[0]} is None': False}, lenient=True) if nd else ('raise', None, None)
    ctx.check(r[0] == 'raise', REALS, r[2] or fn, 'RealFloat.__round__', 'round(x, ndigits) with a digit count is refused (never silently an integer)', f'got {r[0]} {r[1]!r}')
    fn = ctx.fn(FLOATS, 'Float.__round__')
    takes = bool(fn.args.vararg or fn.args.kwarg or len(fn.args.args) > 1)
    fwd = [k for k in calls_in(fn) if (call_name(k) or '').endswith('.__round__')]
    ok = not takes or (len(fwd) == 1 and (any(isinstance(a, ast.Starred) for a in fwd[0].args) or len(fwd[0].args) == len(fn.args.args) - 1 > 0))
    ctx.check(ok, FLOATS, fn, 'Float.__round__', 'whatever Float.__round__ accepts it hands on to RealFloat.__round__', 'arguments accepted and dropped')
    # truth value: RealFloat is a numbers.Rational, whose __bool__ is `self != 0`; Float is not one and has to say it itself
    # (without a __bool__ every object is true, a zero Float included)
    fcls = repo.cls(FLOATS, 'Float')
    bases = {dotted(b) for b in fcls.bases}
    inherits = bool(bases & {'numbers.Real', 'numbers.Rational', 'numbers.Complex', 'numbers.Number', 'RealFloat'}) and 'numbers.Number' not in bases
    own = [f for f in fcls.body if isinstance(f, ast.FunctionDef) and f.name == '__bool__']
    good = inherits
    if own:
        rets = [norm(s.value) for s in walk_no_nested(own[0]) if isinstance(s, ast.Return)]
        good = rets in (['not self.is_zero()'], ['not self._real.is_zero() or self.is_nar()'], ['self != 0'], ['not self == 0'])
    ctx.check(good, FLOATS, own[0] if own else fcls, 'Float.__bool__', 'bool(x) is false exactly for a zero (as for int, float, Fraction and RealFloat)',
              'Float has no truth value of its own: bool(Float(c=0)) is True')
    rcls = repo.cls(REALS, 'RealFloat')
    ctx.check(bool({dotted(b) for b in rcls.bases} & {'numbers.Rational', 'numbers.Real'}) or any(isinstance(f, ast.FunctionDef) and f.name == '__bool__' for f in rcls.body),
              REALS, rcls, 'RealFloat', 'RealFloat takes its truth value from numbers.Rational (self != 0) or defines one', 'no truth value')


# ----------------------------------------------------------------------
# F1 hashing goes through the denoted value

def f1_hash(ctx: Ctx):
    repo = ctx.repo
    q = 'RealFloat.__hash__'
    fn = ctx.fn(REALS, q)
    tries = [s for s in walk_no_nested(fn) if isinstance(s, ast.Try)]
    good = False
    if len(tries) == 1:
        t = tries[0]
        body = {dotted(s.targets[0]): norm(s.value) for s in t.body if isinstance(s, ast.Assign)}
        ret = [norm(s.value) for s in t.body if isinstance(s, ast.Return)]
        h = t.handlers[0] if t.handlers else None
        hbody = {dotted(s.targets[0]): norm(s.value) for s in (h.body if h else []) if isinstance(s, ast.Assign)}
        hret = [norm(s.value) for s in (h.body if h else []) if isinstance(s, ast.Return)]
        good = body == {'i': 'int(self)'} and ret == ['hash(i)'] and h is not None and dotted(h.type) == 'ValueError' \
            and hbody == {'q': 'self.as_rational()'} and hret == ['hash(q)']
    ctx.check(good, REALS, fn, q, 'hash(int(self)) when integral, else hash(as_rational()): equal to the hash of equal int / Fraction',
              'hash no longer goes through the denoted value')
    q = 'Float.__hash__'
    fn = ctx.fn(FLOATS, q)
    r = decide(repo, FLOATS, fn.body, {'self._isnan': False, 'self._isinf': False})
    ctx.check(r[0] == 'return' and isinstance(r[1], Opaque) and norm(r[1].node) == 'hash(self._real)', FLOATS, r[2] or fn, q,
              'finite Float hashes as its RealFloat', f'got {r[1]!r}')
    r = decide(repo, FLOATS, fn.body, {'self._isnan': False, 'self._isinf': True})
    ctx.check(r[0] == 'return' and isinstance(r[1], Opaque) and norm(r[1].node) == '-sys.hash_info.inf if self._real._s else sys.hash_info.inf', FLOATS, r[2] or fn, q,
              'infinite Float hashes as float inf of the same sign', f'got {r[1]!r}')
    r = decide(repo, FLOATS, fn.body, {'self._isnan': True})
    ctx.check(r[0] == 'return' and isinstance(r[1], int), FLOATS, r[2] or fn, q, 'all NaNs hash alike', f'got {r[1]!r}')
    # equality is defined through compare with a type gate listing all five numeric types
    for rel, cls, types in ((REALS, 'RealFloat', {'RealFloat', 'int', 'float', 'Fraction'}), (FLOATS, 'Float', {'Float', 'RealFloat', 'int', 'float', 'Fraction'})):
        fn = ctx.fn(rel, f'{cls}.__eq__')
        gates = [s for s in walk_no_nested(fn) if isinstance(s, ast.If) and isinstance(s.test, ast.UnaryOp) and call_name(s.test.operand) == 'isinstance']
        got = set()
        if gates:
            got = {n.id for n in ast.walk(gates[0].test.operand.args[1]) if isinstance(n, ast.Name)}  # type: ignore
        ctx.check(got == types, rel, fn, f'{cls}.__eq__', f'== accepts exactly {sorted(types)}', f'type gate lists {sorted(got)}')


EXPLANATION = (
    'Static rules over fpy2/number/number and fpy2/utils (ast only). Decided: (S1) __neg__/__pos__/__abs__ of Float '
    'and RealFloat hand the constructor the sign negated / unchanged / cleared and copy the value from self; (T1) '
    'the NaN/inf/zero arms of Float.__add__, __mul__, __pow__ equal the IEEE 754 tables, finite operands go to the '
    'exact RealFloat operator, every operand kind is coerced by its exact converter, sub = add of the negation; (T2) '
    'the rich comparisons of both classes map to the right Ordering members through compare; Float.compare and '
    'RealFloat.compare answer every special/zero/sign combination as the order of the extended reals requires, '
    'negative magnitudes are reversed; Ordering.reverse/from_compare, CompareOp.invert and its symbol/operator '
    'tables; (P1) int()/trunc/floor/ceil/round/float()/from_rational/from_float raise rather than approximate, '
    'as_rational and from_int formulas; (F1) hashes go through int(self)/as_rational()/float-inf so equal numbers '
    'hash equally, == gates on the five numeric types. NOT decided: the arithmetic itself (alignment in __add__, '
    'significand product, __pow__ by squaring, split, normalize, bit, is_more_significant).'
)
ASSUMPTIONS = ['Python int/Fraction arithmetic is exact', 'the integer arithmetic inside RealFloat.__add__/__mul__/__pow__/split/normalize is correct']

RULES = [
    Rule('C05.S1', 'unary -, +, abs: sign negated / unchanged / cleared in both number classes', s1_unary_sign, 6, 'S'),
    Rule('C05.T1', 'Float.__add__/__mul__/__pow__ special-value arms equal the IEEE 754 tables; coercions exact', t1_float_specials, 45, 'T'),
    Rule('C05.T2', 'comparison tables: dunders, Float.compare, RealFloat.compare, Ordering, CompareOp', t2_compare, 70, 'T'),
    Rule('C05.P1', 'conversions to native types are exact or raise', p1_exact_conversions, 16, 'P'),
    Rule('C05.X1', 'the exact types and their integer helpers never route a value through a binary64 (no math.log2 / sqrt / float() / true division)', x1_integer_arithmetic_only, 12, 'X'),
    Rule('C05.T4', 'a native float special enters with its sign (NaN included)', native_float_specials, 4, 'T'),
    Rule('C05.F1', 'hash goes through the denoted value; == gates on the five numeric types', f1_hash, 6, 'F'),
    Rule('C05.T3', 'RealFloat + / * with an infinite or NaN float follow IEEE; unknown operand types are left to the reflected method', t3_realfloat_foreign_operands, 11, 'T'),
]

from ..selftest import Mutant  # noqa: E402

MUTANTS = [
    Mutant('float-minus-native-zero-adds-plus-zero', FLOATS, "        if isinstance(other, (int, Fraction)) and other == 0:\n            # a native zero stands for +0 and has no sign to flip:\n            # `x - 0` is `x + (-0)`, so `(-0) - 0` is `-0` as for a float zero\n            return self + Float(s=True, c=0, exp=0)\n", "", 'C05.S1',
           'finding F133 before its repair: Float(-0) - 0 is +0'),
    Mutant('realfloat-minus-native-zero-adds-plus-zero', REALS, "            return self + RealFloat(s=True, c=0, exp=0)\n", "            return self + RealFloat(s=False, c=0, exp=0)\n", 'C05.S1'),
    Mutant('power-of-two-by-log2', 'fpy2/utils/bits.py', "    return (k & (k - 1)) == 0", "    import math\n    return k != 0 and math.log2(k).is_integer()", 'C05.X1',
           'seeded change C05e: RealFloat(1) + Fraction(1, 2**60 + 1) is computed as if the fraction were dyadic'),
    Mutant('dyadic-test-by-float-division', 'fpy2/utils/bits.py', "    return (k & (k - 1)) == 0", "    return k > 0 and (2 ** k.bit_length() / k) in (1.0, 2.0)", 'C05.X1'),
    Mutant('round-ignores-ndigits', REALS, "        if ndigits is not None:\n            raise NotImplementedError('rounding to decimal digits cannot be implemented exactly')\n", "", 'C05.P1',
           'finding F56 before its repair: round(RealFloat(2.5), 1) is the int 2'),
    Mutant('float-round-swallows-arguments', FLOATS, "        return self._real.__round__(*args, **kwargs)", "        return self._real.__round__()", 'C05.P1'),
    Mutant('float-shortcut-by-scaling', NATIVE, "    else:\n        r = _FP64.round(x)\n        if r.inexact:", "    elif not (isinstance(x, Float) and x.is_nar()) and x.p <= 53 and -1074 <= x.e <= 1023:\n        import math\n        f = math.ldexp(x.c, x.exp)\n        return -f if x.s else f\n    else:\n        r = _FP64.round(x)\n        if r.inexact:", 'C05.P1',
           'seeded change C05d: the leading digit is tested where the last one should be'),
    Mutant('float-of-any-ieee-member', NATIVE, "    if isinstance(x, Float) and x.ctx == _FP64:", "    if isinstance(x, Float) and x.ctx is not None:", 'C05.P1'),
    Mutant('float-always-true', FLOATS, "    def __bool__(self):\n        \"\"\"Like a native number: false exactly for a zero (NaN is true).\"\"\"\n        return not self.is_zero()\n\n", "", 'C05.P1',
           'finding F55 before its repair: bool(Float(c=0)) is True'),
    Mutant('float-false-for-nan-too', FLOATS, "        return not self.is_zero()\n\n    def __float__", "        return not self._real.is_zero()\n\n    def __float__", 'C05.P1',
           'a NaN or an infinity holds a zero significand: they would be false'),
    Mutant('real-times-inf-sign-twice', REALS, "                    s = self._s != (math.copysign(1.0, other) < 0)\n                    return -math.inf if s else math.inf",
           "                    s = self._s != (math.copysign(1.0, other) < 0)\n                    return other * (-1.0 if s else 1.0)", 'C05.T3', 'finding F31 before its repair: 2 * -inf = +inf'),
    Mutant('real-zero-times-inf', REALS, "                    if math.isnan(other) or self._c == 0:\n                        return math.nan", "                    if math.isnan(other):\n                        return math.nan", 'C05.T3'),
    Mutant('real-add-raises-for-float-operand', REALS, "                return NotImplemented\n\n        if self._c == 0:\n            if other._c == 0:", "                raise TypeError('unsupported operand')\n\n        if self._c == 0:\n            if other._c == 0:", 'C05.T3',
           'finding F32 before its repair'),
    Mutant('float-pos-clears-sign', FLOATS, 'Returns this `Float` with no context (`self.ctx is None`).\n        """\n        return Float(x=self, ctx=None)',
           'Returns this `Float` with no context (`self.ctx is None`).\n        """\n        return Float(s=False, x=self, ctx=None)', 'C05.S1'),
    Mutant('real-abs-keeps-sign', REALS, 'return RealFloat(s=False, x=self)', 'return RealFloat(x=self)', 'C05.S1'),
    Mutant('float-neg-of-copy', FLOATS, 'return Float(s=not self._real._s, x=self, ctx=None)', 'return Float(s=not self._real._s, ctx=None)', 'C05.S1'),
    Mutant('inf-plus-minus-inf', FLOATS, '# Inf - Inf\n                    return Float(isnan=True)', '# Inf - Inf\n                    return Float(s=self.s, isinf=True)', 'C05.T1'),
    Mutant('inf-times-finite-sign', FLOATS, "# Inf * y = Inf\n                s = self._real._s != other._real._s", "# Inf * y = Inf\n                s = self._real._s", 'C05.T1'),
    Mutant('finite-plus-inf-sign', FLOATS, '# self is finite, x + Inf = Inf\n            return Float(s=other.s, isinf=True)', '# self is finite, x + Inf = Inf\n            return Float(s=self.s, isinf=True)', 'C05.T1'),
    Mutant('rsub-reversed', FLOATS, 'return (-self) + other', 'return self + (-other)', 'C05.T1'),
    Mutant('nar-pow-sign', FLOATS, 's = self._real._s and (exponent % 2 != 0)', 's = self._real._s', 'C05.T1'),
    Mutant('le-drops-equal', REALS, 'return ord == Ordering.LESS or ord == Ordering.EQUAL', 'return ord == Ordering.LESS', 'C05.T2'),
    Mutant('float-ge-is-gt', FLOATS, 'return ord == Ordering.GREATER or ord == Ordering.EQUAL', 'return ord == Ordering.GREATER', 'C05.T2'),
    Mutant('neg-inf-greater', FLOATS, '                    elif other._isinf:\n                        if other.s:\n                            return Ordering.GREATER\n                        else:\n                            return Ordering.LESS',
           '                    elif other._isinf:\n                        if other.s:\n                            return Ordering.LESS\n                        else:\n                            return Ordering.GREATER', 'C05.T2'),
    Mutant('inf-eq-ignores-sign', FLOATS, 'if other._isinf and self.s == other.s:', 'if other._isinf:', 'C05.T2'),
    Mutant('zero-vs-negative', REALS, '                    elif other._s:\n                        return Ordering.GREATER\n                    else:\n                        return Ordering.LESS',
           '                    elif other._s:\n                        return Ordering.LESS\n                    else:\n                        return Ordering.GREATER', 'C05.T2'),
    Mutant('negatives-not-reversed', REALS, '                    if self._s:\n                        return cmp.reverse()\n                    else:\n                        return cmp', '                    return cmp', 'C05.T2'),
    Mutant('reverse-equal', ORDERING, '        else:\n            return Ordering.EQUAL', '        else:\n            return Ordering.LESS', 'C05.T2'),
    Mutant('invert-le', COMPARE, 'case CompareOp.LE:\n                return CompareOp.GE', 'case CompareOp.LE:\n                return CompareOp.GT', 'C05.T2'),
    Mutant('symbol-ge', COMPARE, "CompareOp.GE: '>=',", "CompareOp.GE: '>',", 'C05.T2'),
    Mutant('int-truncates', REALS, "        if not self.is_integer():\n            raise ValueError(f'cannot convert to int: {self}')\n", '', 'C05.P1'),
    Mutant('float-conversion-silently-rounds', NATIVE, "            raise ValueError(f'{x} is not representable as a Python \\'float\\'')", '            pass', 'C05.P1'),
    Mutant('floor-rounds-up', REALS, 'return int(self.round(min_n=-1, rm=RoundingMode.RTN))', 'return int(self.round(min_n=-1, rm=RoundingMode.RTP))', 'C05.P1'),
    Mutant('hash-by-encoding', REALS, '            i = int(self)\n            return hash(i)', '            i = int(self)\n            return hash((self._s, self._exp, self._c))', 'C05.F1'),
    Mutant('float-hash-by-identity', FLOATS, '            return hash(self._real)', '            return hash((self._real._exp, self._real._c))', 'C05.F1'),
    Mutant('eq-rejects-fraction', FLOATS, 'if not isinstance(other, Float | RealFloat | int | float | Fraction):', 'if not isinstance(other, Float | RealFloat | int | float):', 'C05.F1'),
]
