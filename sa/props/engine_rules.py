"""
Rules shared by C02 (arithmetic rounds the exact result exactly once) and
C03 (elementary functions and constants are correctly rounded): the dispatch
skeleton of fpy2/ops.py, the two engines, and the round-to-odd wrapper.
"""

from __future__ import annotations

import ast

from ..cfg import CFG, count_on_paths, describe_path, find_path
from ..core import Ctx
from ..facts import ShapeError, call_name, calls_in, dotted, kwarg, norm, walk_no_nested
from ..tables import Inst, Opaque, decide

OPS = 'fpy2/ops.py'
ENGINE = 'fpy2/number/engine/engine.py'
GMP = 'fpy2/number/engine/gmp.py'
REAL = 'fpy2/number/engine/real.py'
GMPUTILS = 'fpy2/number/gmputils.py'

ARITH = {'add', 'sub', 'mul', 'div', 'fma', 'sqrt', 'cbrt', 'hypot', 'fmod', 'remainder', 'mod', 'pow',
         'ceil', 'floor', 'trunc', 'roundint', 'neg', 'fabs', 'copysign', 'fdim', 'fmax', 'fmin'}

# ops.<f> -> Engine.<m> where the names differ
OPS_ALIAS = {'const_2_sqrt_pi': 'const_2_sqrtpi'}

# Engine.<m> -> the MPFR primitive that computes it (gmpy2 name), where it differs from <m>
GMP_ALIAS = {
    'tgamma': 'gmp.gamma', 'fmax': 'gmp.maxnum', 'fmin': 'gmp.minnum', 'copysign': 'gmp.copy_sign',
    'neg': '_gmp_neg', 'fabs': '_gmp_abs', 'pow': '_gmp_pow', 'lgamma': '_gmp_lgamma',
}
# Engine methods that answer through a helper method instead of one _mpfr_eval call (each confirmed by reading)
GMP_HELPERS = {
    'fdim': ('self._fdim', 'C fdim: NaN if either is NaN, x-y (one MPFR sub) if x > y, else +0'),
    'mod': ('self._mod', 'python-style modulus from an exact floor quotient; x - q*y is exact Float arithmetic'),
}
# Engine methods MPFR declines wholesale (another engine must answer)
GMP_DECLINES = {'ceil', 'floor', 'trunc', 'roundint'}

CONST_OF_METHOD = {
    'const_e': 'E', 'const_log2e': 'LOG2E', 'const_log10e': 'LOG10E', 'const_ln2': 'LN2', 'const_ln10': 'LN10',
    'const_pi': 'PI', 'const_pi_2': 'PI_2', 'const_pi_4': 'PI_4', 'const_1_pi': 'M_1_PI', 'const_2_pi': 'M_2_PI',
    'const_2_sqrtpi': 'M_2_SQRTPI', 'const_sqrt2': 'SQRT2', 'const_sqrt1_2': 'SQRT1_2',
}


def in_scope(name: str, which: str) -> bool:
    """which = 'C02' (arithmetic list) or 'C03' (elementary functions and constants; pow is in both)."""
    base = name
    if which == 'C02':
        return base in ARITH
    return base not in ARITH or base == 'pow'


def engine_ops(repo):
    """ops.py functions that dispatch over ENGINES: (name, fn)."""
    out = []
    for st in repo.module(OPS).tree.body:
        if isinstance(st, ast.FunctionDef):
            for n in walk_no_nested(st):
                if isinstance(n, ast.For) and dotted(n.iter) == 'ENGINES':
                    out.append((st.name, st))
                    break
    return out


# ----------------------------------------------------------------------
# S1: ops.py dispatch skeleton

def s1_ops_skeleton(which: str):
    def rule(ctx: Ctx):
        repo = ctx.repo
        n = 0
        for name, fn in engine_ops(repo):
            if not in_scope(name, which):
                continue
            n += 1
            ctx.functions_analysed.add((OPS, name))
            params = [a.arg for a in fn.args.args]
            if not params or params[-1] != 'ctx':
                ctx.bad(OPS, fn, name, f'def {name}({", ".join(params)})', 'last parameter must be the rounding context `ctx`')
                continue
            operands = params[:-1]
            # conversions: v = _cvt_to_real(p)
            conv = {}
            for s in walk_no_nested(fn):
                if isinstance(s, ast.Assign) and isinstance(s.value, ast.Call) and call_name(s.value) == '_cvt_to_real' \
                        and len(s.value.args) == 1 and isinstance(s.value.args[0], ast.Name) and isinstance(s.targets[0], ast.Name):
                    conv[s.value.args[0].id] = s.targets[0].id
            loops = [s for s in walk_no_nested(fn) if isinstance(s, ast.For) and dotted(s.iter) == 'ENGINES']
            loop = loops[0]
            evar = loop.target.id if isinstance(loop.target, ast.Name) else None
            ecalls = [c for c in calls_in(loop) if isinstance(c.func, ast.Attribute) and dotted(c.func.value) == evar]
            want_m = OPS_ALIAS.get(name, name)
            if len(ecalls) != 1:
                ctx.bad(OPS, loop, name, 'engine dispatch', f'{len(ecalls)} engine calls in the dispatch loop, expected exactly one')
                continue
            ec = ecalls[0]
            got_m = ec.func.attr  # type: ignore
            ctx.check(got_m == want_m, OPS, ec, name, f'dispatches to engine.{want_m}',
                      f'ops.{name} asks the engines for `{got_m}`')
            want_args = [conv.get(p) for p in operands] + ['ctx']
            got_args = [dotted(a) for a in ec.args]
            ctx.check(got_args == want_args and None not in want_args, OPS, ec, name, f'operands converted and passed in order',
                      f'engine.{got_m} receives {got_args}; expected the _cvt_to_real images of {operands} in order, then ctx '
                      f'(conversions found: {conv})')
            # result variable
            rvar = None
            for s in loop.body:
                if isinstance(s, ast.Assign) and s.value is ec and isinstance(s.targets[0], ast.Name):
                    rvar = s.targets[0].id
            if rvar is None:
                ctx.bad(OPS, ec, name, 'engine result bound to a name', 'engine call result is not bound by a plain assignment')
                continue
            # rounding: exactly one _normalize(r, ctx, ...) on every returning path, no other rounding in the function
            cfg = CFG(fn)

            def is_norm(node):
                if node.ast is None or node.kind not in ('stmt', 'return', 'test'):
                    return 0
                return sum(1 for c in calls_in(node.ast) if call_name(c) == '_normalize')
            counts = count_on_paths(cfg, is_norm)
            rets = cfg.returns()
            bad_rets = [r for r in rets if counts.get(r.id, frozenset()) != frozenset([1])]
            wit = []
            if bad_rets:
                p = find_path(cfg, cfg.entry, bad_rets[0])
                wit = describe_path(p or [], OPS)
            ctx.check(bool(rets) and not bad_rets, OPS, fn, name, 'every returning path rounds through _normalize exactly once',
                      f'a return is reachable with {sorted(counts.get(bad_rets[0].id, [])) if bad_rets else "?"} _normalize calls',
                      wit)
            norms = [c for c in calls_in(fn) if call_name(c) == '_normalize']
            for c in norms:
                a = [dotted(x) for x in c.args[:2]]
                ctx.check(a == [rvar, 'ctx'], OPS, c, name, norm(c)[:60],
                          f'_normalize must receive the engine result `{rvar}` and `ctx`; got {a}')
                if len(c.args) > 2 and isinstance(c.args[2], ast.Tuple):
                    got = sorted(dotted(x) or '?' for x in c.args[2].elts)
                    ctx.check(got == sorted(x for x in want_args[:-1] if x), OPS, c, name, 'flag inference sees all operands',
                              f'_normalize third argument is {got}')
            other_round = [c for c in calls_in(fn) if isinstance(c.func, ast.Attribute) and c.func.attr in ('round', 'round_at', 'round_integer')
                           and dotted(c.func.value) == 'ctx']
            ctx.check(not other_round, OPS, fn, name, 'no second rounding under ctx',
                      f'extra rounding call(s): {[norm(c) for c in other_round]}')
            # guarded by `r is not None`, else falls to NotImplementedError
            guards = [s for s in loop.body if isinstance(s, ast.If) and norm(s.test) == f'{rvar} is not None']
            falls = [s for s in fn.body if isinstance(s, ast.Raise)]
            ctx.check(len(guards) == 1 and len(falls) >= 1, OPS, loop, name, 'first non-None engine answer is used; none => NotImplementedError',
                      'dispatch loop shape changed')
        if n == 0:
            raise ShapeError('no engine-dispatched ops found')
        # every operation the engines define is asked of them: an ops function that answers by composing other rounded
        # operations (`sub = add(x, neg(y, ctx), ctx)`) rounds an intermediate result, i.e. more than once
        eng = repo.cls(ENGINE, 'Engine')
        dispatched = {OPS_ALIAS.get(name, name) for name, _ in engine_ops(repo)}
        rounded_ops = {name for name, _ in engine_ops(repo)}
        for st in eng.body:
            if not (isinstance(st, ast.FunctionDef) and repo.is_abstract(st) and in_scope(st.name, which)):
                continue
            back = {v: k for k, v in OPS_ALIAS.items()}
            oname = back.get(st.name, st.name)
            if not repo.has_func(OPS, oname):
                continue            # not offered as an operation (engine-internal)
            f = repo.func(OPS, oname)
            inner = sorted({call_name(c) for c in calls_in(f) if call_name(c) in rounded_ops and any(dotted(a) == 'ctx' for a in list(c.args) + [k.value for k in c.keywords])})
            ctx.check(st.name in dispatched, OPS, f, oname, f'ops.{oname} asks the engines for `{st.name}`',
                      f'ops.{oname} no longer dispatches over ENGINES' + (f'; it is composed of {inner} under `ctx`, so an intermediate result is rounded before the final one '
                                                                             f'(sub(1, 17/16, 3 digits) gives +0, not -1/16)' if inner else ''))
    return rule


# ----------------------------------------------------------------------
# P1: _normalize rounds once

def p1_normalize(ctx: Ctx):
    fn = ctx.fn(OPS, '_normalize')
    params = [a.arg for a in fn.args.args]
    x, c = params[0], params[1]
    cfg = CFG(fn)

    def is_round(node):
        if node.ast is None or node.kind not in ('stmt', 'return', 'test'):
            return 0
        return sum(1 for k in calls_in(node.ast) if isinstance(k.func, ast.Attribute) and k.func.attr == 'round')
    counts = count_on_paths(cfg, is_round)
    rounds = [k for k in calls_in(fn) if isinstance(k.func, ast.Attribute) and k.func.attr == 'round']
    for k in rounds:
        ctx.check(dotted(k.func.value) == c and [dotted(a) for a in k.args] == [x] and not k.keywords, OPS, k, '_normalize', norm(k),  # type: ignore
                  f'the single rounding must be {c}.round({x})')
    for r in cfg.returns():
        cs = counts.get(r.id, frozenset())
        if cs == frozenset([1]):
            ctx.ok(OPS, r, '_normalize', f'{norm(r.ast)} after one rounding')
            continue
        # the unrounded return is allowed only for an exact rational under the real context
        tests = [t for t in cfg.nodes_of('test') if f'{c} is REAL' in norm(t.ast) and f'isinstance({x}, Fraction)' in norm(t.ast)
                 and isinstance(t.ast, ast.BoolOp) and isinstance(t.ast.op, ast.And)]
        okk = False
        if cs == frozenset([0]) and tests and isinstance(r.ast.value, ast.Name) and r.ast.value.id == x:  # type: ignore
            T = tests[0]
            okk = find_path(cfg, cfg.entry, r, avoid=lambda n: n is T) is None and \
                find_path(cfg, T, r, edge_ok=lambda n, lab: not (n is T and lab is not False)) is None
        ctx.check(okk, OPS, r, '_normalize', f'{norm(r.ast)} with {sorted(cs)} roundings',
                  'a result leaves _normalize without being rounded exactly once (only a Fraction under REAL may pass unrounded)')


# ----------------------------------------------------------------------
# X1: engines implement the abstract interface

def x1_engines_complete(which: str):
    def rule(ctx: Ctx):
        repo = ctx.repo
        eng = repo.cls(ENGINE, 'Engine')
        abstract = {st.name: st for st in eng.body if isinstance(st, ast.FunctionDef) and repo.is_abstract(st)}
        if len(abstract) < 50:
            raise ShapeError(f'only {len(abstract)} abstract engine methods found')
        subs = [(rel, q, c) for rel, q, c in repo.subclasses(ENGINE, 'Engine')]
        if len(subs) < 2:
            raise ShapeError('expected at least the MPFR and Real engines')
        for name, a in abstract.items():
            if not in_scope(name, which):
                continue
            ap = [x.arg for x in a.args.args]
            answered = []
            for rel, q, c in subs:
                own = [st for st in c.body if isinstance(st, ast.FunctionDef) and st.name == name]
                if not own:
                    ctx.bad(rel, c, q, f'{q}.{name}', 'abstract engine method not implemented')
                    continue
                m = own[0]
                mp = [x.arg for x in m.args.args]
                ctx.check(mp == ap, rel, m, f'{q}.{name}', f'signature ({", ".join(mp)})',
                          f'abstract signature is ({", ".join(ap)}): operands would be bound in a different order')
                body = [s for s in m.body if not (isinstance(s, ast.Expr) and isinstance(s.value, ast.Constant))]
                trivial = len(body) == 1 and isinstance(body[0], ast.Return) and isinstance(body[0].value, ast.Constant) \
                    and body[0].value.value is None
                if not trivial:
                    answered.append(q)
            ctx.check(bool(answered), ENGINE, a, f'Engine.{name}', 'some engine answers this operation',
                      'every engine declines (returns None) unconditionally: the op can only raise NotImplementedError')
    return rule


# ----------------------------------------------------------------------
# S2: MPFR engine method skeleton

def s2_mpfr_methods(which: str):
    def rule(ctx: Ctx):
        repo = ctx.repo
        c = repo.cls(GMP, 'MPFREngine')
        eng = repo.cls(ENGINE, 'Engine')
        abstract = {st.name for st in eng.body if isinstance(st, ast.FunctionDef) and repo.is_abstract(st)}
        n = 0
        for m in c.body:
            if not isinstance(m, ast.FunctionDef) or m.name not in abstract or not in_scope(m.name, which):
                continue
            q = f'MPFREngine.{m.name}'
            ctx.functions_analysed.add((GMP, q))
            params = [a.arg for a in m.args.args][1:]
            operands, cparam = params[:-1], params[-1]
            body = [s for s in m.body if not (isinstance(s, ast.Expr) and isinstance(s.value, ast.Constant))]
            trivial = len(body) == 1 and isinstance(body[0], ast.Return) and isinstance(body[0].value, ast.Constant) \
                and body[0].value.value is None
            if trivial:
                ctx.check(m.name in GMP_DECLINES, GMP, m, q, 'declines wholesale',
                          'MPFR engine no longer answers this operation; only an exact engine would remain')
                continue
            n += 1
            # (1) every operand that may be a Fraction is refused first
            refused = set()
            i = 0
            while i < len(body) and isinstance(body[i], ast.If) and _returns_none(body[i].body) and not body[i].orelse:
                for k in calls_in(body[i].test):
                    if call_name(k) == 'isinstance' and len(k.args) == 2 and dotted(k.args[1]) == 'Fraction' and isinstance(k.args[0], ast.Name):
                        if _or_only(body[i].test):
                            refused.add(k.args[0].id)
                if not any(call_name(k) == 'isinstance' for k in calls_in(body[i].test)):
                    break
                i += 1
            if operands:
                ctx.check(refused == set(operands), GMP, m, q, 'non-dyadic operands refused before MPFR',
                          f'operands {sorted(set(operands) - refused)} are not checked for Fraction: float_to_mpfr would fail or lose digits')
            # (2) prec, n = ctx.round_params(); (None, None) refused
            rest = body[i:]
            okp = (len(rest) >= 3 and isinstance(rest[0], ast.Assign) and isinstance(rest[0].targets[0], ast.Tuple)
                   and [dotted(t) for t in rest[0].targets[0].elts] == ['prec', 'n']
                   and call_name(rest[0].value) == f'{cparam}.round_params'
                   and isinstance(rest[1], ast.If) and norm(rest[1].test) == 'prec is None and n is None' and _returns_none(rest[1].body))
            ctx.check(okp, GMP, m, q, 'precision taken from ctx.round_params(); exact contexts refused',
                      'expected `prec, n = ctx.round_params()` followed by `if prec is None and n is None: return None`')
            # (3) single evaluation through the round-to-odd wrapper
            last = rest[-1] if rest else None
            if not (isinstance(last, ast.Return) and isinstance(last.value, ast.Call)):
                ctx.bad(GMP, m, q, 'single round-to-odd evaluation', 'method does not end in a call')
                continue
            call = last.value
            cn = call_name(call)
            if m.name in CONST_OF_METHOD:
                want = f'_Constant.{CONST_OF_METHOD[m.name]}'
                good = (cn == '_mpfr_constant' and len(call.args) == 1 and dotted(call.args[0]) == want
                        and dotted(kwarg(call, 'prec')) == 'prec' and dotted(kwarg(call, 'n')) == 'n')
                ctx.check(good, GMP, call, q, f'evaluates {want} at (prec, n)', f'got {norm(call)}')
                continue
            if m.name in GMP_HELPERS:
                hname, why = GMP_HELPERS[m.name]
                ctx.check(cn == hname and [dotted(a) for a in call.args[:len(operands)]] == operands, GMP, call, q,
                          f'answers through {hname} ({why})', f'got {norm(call)}')
                continue
            want_fn = GMP_ALIAS.get(m.name, f'gmp.{m.name}')
            good = (cn == '_mpfr_eval' and len(call.args) == 1 + len(operands) and dotted(call.args[0]) == want_fn
                    and [dotted(a) for a in call.args[1:]] == operands
                    and dotted(kwarg(call, 'prec')) == 'prec' and dotted(kwarg(call, 'n')) == 'n')
            ctx.check(good, GMP, call, q, f'_mpfr_eval({want_fn}, {", ".join(operands)}, prec=prec, n=n)',
                      f'got {norm(call)}: wrong primitive, operand order, or precision not forwarded')
            extra = [k for k in calls_in(m) if call_name(k) in ('_mpfr_eval', 'mpfr_call', '_mpfr_constant') and k is not call]
            ctx.check(not extra, GMP, m, q, 'one MPFR evaluation per operation',
                      f'additional evaluations {[norm(k) for k in extra]}: intermediate roundings lose the sticky bit')
        if n == 0:
            raise ShapeError('no MPFR engine methods in scope')
    return rule


def _returns_none(body) -> bool:
    return len(body) == 1 and isinstance(body[0], ast.Return) and (
        body[0].value is None or (isinstance(body[0].value, ast.Constant) and body[0].value.value is None))


def _or_only(e) -> bool:
    if isinstance(e, ast.BoolOp):
        return isinstance(e.op, ast.Or) and all(_or_only(v) for v in e.values)
    return isinstance(e, ast.Call)


# ----------------------------------------------------------------------
# F1: round-to-odd wrapper invariants (gmputils)

def f3_mpfr_exponent_range(ctx: Ctx):
    """MPFR has an exponent range of its own (about +-2**30 with gmpy2 2.2, whatever `emax` the context asks for).  An
    operation whose result leaves it does not fail under RoundToZero: it hands back MPFR's largest finite number (or
    its smallest) with a non-zero ternary, and only the context's overflow / underflow flag says so.  The value may be
    taken for the truncated result only after those flags were looked at."""
    fn = ctx.fn(GMPUTILS, '_mpfr_call_with_prec')
    withs = [s for s in walk_no_nested(fn) if isinstance(s, ast.With) and call_name(s.items[0].context_expr) == 'gmp.context']
    if len(withs) != 1:
        raise ShapeError('_mpfr_call_with_prec: the MPFR context block was not found')
    w = withs[0]
    name = w.items[0].optional_vars.id if isinstance(w.items[0].optional_vars, ast.Name) else None
    read = {a.attr for a in ast.walk(w) if isinstance(a, ast.Attribute) and isinstance(a.value, ast.Name) and a.value.id == name} if name else set()
    ctx.check({'overflow', 'underflow'} <= read, GMPUTILS, w, '_mpfr_call_with_prec', 'the MPFR overflow / underflow flags are consulted before the result is used',
              'a result beyond MPFR\'s own exponent range comes back as its largest (smallest) finite number and is rounded like any other inexact value')


def f1_round_to_odd(ctx: Ctx):
    repo = ctx.repo
    # (a) the only MPFR evaluation point truncates
    fn = ctx.fn(GMPUTILS, '_mpfr_call_with_prec')
    params = [a.arg for a in fn.args.args]
    withs = [s for s in walk_no_nested(fn) if isinstance(s, ast.With)]
    okw = False
    if len(withs) == 1 and len(withs[0].items) == 1:
        ce = withs[0].items[0].context_expr
        if isinstance(ce, ast.Call) and call_name(ce) == 'gmp.context':
            okw = dotted(kwarg(ce, 'round')) == 'gmp.RoundToZero' and dotted(kwarg(ce, 'precision')) == params[0]
            body = withs[0].body
            okw = okw and len(body) == 1 and isinstance(body[0], ast.Return) and isinstance(body[0].value, ast.Call) \
                and dotted(body[0].value.func) == params[1]
    ctx.check(okw, GMPUTILS, fn, '_mpfr_call_with_prec', 'evaluates fn(*args) once under gmp.context(precision=prec, round=RoundToZero)',
              'round-to-odd needs a truncated result: any other MPFR rounding mode makes the sticky fix-up wrong')
    # nothing else in the number package enters an MPFR context
    for rel in sorted(repo.modules):
        if not rel.startswith('fpy2/number/'):
            continue
        for k in calls_in(repo.modules[rel].tree):
            cn = call_name(k) or ''
            if cn in ('gmp.context', 'gmp.local_context', 'gmp.set_context', 'gmp.get_context', 'gmpy2.context',
                      'gmpy2.set_context', 'gmpy2.local_context', 'gmpy2.get_context'):
                inside = rel == GMPUTILS and any(k is x for x in calls_in(fn))
                # the conversion of an operand enters one of its own: it fixes the exponent range only (an operand is
                # exact: it carries its own precision and no rounding happens), see g2_mpfr_context
                conv = rel == GMPUTILS and repo.has_func(GMPUTILS, 'float_to_mpfr') and any(k is x for x in calls_in(repo.func(GMPUTILS, 'float_to_mpfr'))) \
                    and not ({kw.arg for kw in k.keywords} & {'precision', 'round'})
                ctx.check((inside or conv) and cn == 'gmp.context', rel, k, rel, norm(k)[:70],
                          'MPFR context entered or modified outside _mpfr_call_with_prec / float_to_mpfr')
    # (b) every precision handed to it carries two guard digits (or is the exponent probe)
    mc = ctx.fn(GMPUTILS, 'mpfr_call')
    cfg = CFG(mc)
    for k in calls_in(mc):
        if call_name(k) != '_mpfr_call_with_prec':
            continue
        p = k.args[0]
        if isinstance(p, ast.Constant):
            # the probe: its result may be returned only for special values or when all its digits are at or below n
            ctx.check(p.value >= 2, GMPUTILS, k, 'mpfr_call', norm(k), 'exponent probe needs at least 2 digits')
            continue
        guard = (isinstance(p, ast.BinOp) and isinstance(p.op, ast.Add) and isinstance(p.right, ast.Constant)
                 and p.right.value >= 2 and isinstance(p.left, ast.Name))
        ctx.check(guard, GMPUTILS, k, 'mpfr_call', norm(k),
                  'MPFR must be asked for at least prec + 2 digits: with fewer guard digits the re-rounding double-rounds')
    # (c) every fix-up receives the ternary of the evaluation it fixes
    n_fix = 0
    for node in cfg.nodes:
        if node.ast is None or node.kind not in ('return', 'stmt'):
            continue
        for k in calls_in(node.ast):
            if call_name(k) != '_round_odd':
                continue
            n_fix += 1
            a0 = dotted(k.args[0]) if k.args else None
            good = a0 is not None and len(k.args) == 2 and norm(k.args[1]) in (f'{a0}.rc != 0', f'{a0}.rc != 0'.replace('!= 0', '!= 0'))
            # and the value fixed is the latest evaluation on every path
            if good:
                defs = [n for n in cfg.nodes_of('stmt') if isinstance(n.ast, ast.Assign) and dotted(n.ast.targets[0]) == a0]
                evals = [n for n in defs if isinstance(n.ast.value, ast.Call) and call_name(n.ast.value) == '_mpfr_call_with_prec']  # type: ignore
                good = bool(defs) and len(evals) == len(defs)
            ctx.check(good, GMPUTILS, k, 'mpfr_call', norm(k),
                      'the inexact argument must be `<result>.rc != 0` of the value being fixed')
    if n_fix < 3:
        raise ShapeError('fewer than 3 _round_odd call sites in mpfr_call')
    # the probe result is returned only on the guarded branches
    probe_nodes = [n for n in cfg.nodes_of('stmt') if isinstance(n.ast, ast.Assign) and isinstance(n.ast.value, ast.Call)
                   and call_name(n.ast.value) == '_mpfr_call_with_prec' and isinstance(n.ast.value.args[0], ast.Constant)]
    for pn in probe_nodes:
        tests = []
        cur = pn
        # returns reachable from the probe without a re-evaluation must sit under a special-value test or `e <= n`
        for r in cfg.returns():
            p = find_path(cfg, pn, r, avoid=lambda n: n is not pn and n.kind == 'stmt' and isinstance(n.ast, ast.Assign)
                          and isinstance(n.ast.value, ast.Call) and call_name(n.ast.value) == '_mpfr_call_with_prec')
            if p is None:
                continue
            conds = [n for n in p if n.kind == 'test']
            last = conds[-1] if conds else None
            txt = norm(last.ast) if last is not None else ''
            okc = ('is_nan()' in txt and 'is_infinite()' in txt and 'is_zero()' in txt) or txt in ('e <= n', 'n >= e')
            ctx.check(okc, GMPUTILS, r, 'mpfr_call', f'probe result returned under [{txt}]',
                      'a 2-digit probe result may be returned only for NaN/inf/0 or when every digit is at or below n',
                      describe_path(p, GMPUTILS))
    # (d) the fix-up bumps an even significand iff inexact
    ro = ctx.fn(GMPUTILS, '_round_odd')
    inex = ro.args.args[1].arg
    bumps = [s for s in walk_no_nested(ro) if isinstance(s, ast.If) and any(isinstance(b, ast.AugAssign) for b in s.body)]
    okb = False
    for s in bumps:
        t = s.test
        if isinstance(t, ast.BoolOp) and isinstance(t.op, ast.And) and len(t.values) == 2:
            texts = {norm(v) for v in t.values}
            par = texts & {'c % 2 == 0', 'c & 1 == 0', '(c & 1) == 0', 'not c & 1', 'not c % 2'}
            b = s.body[0]
            okb = bool(par) and inex in texts and len(s.body) == 1 and isinstance(b, ast.AugAssign) and isinstance(b.op, ast.Add) \
                and dotted(b.target) == 'c' and isinstance(b.value, ast.Constant) and b.value.value == 1 and not s.orelse
    ctx.check(okb and len(bumps) == 1, GMPUTILS, ro, '_round_odd', 'significand made odd iff it is even and the result is inexact',
              'sticky fold changed: expected `if c % 2 == 0 and inexact: c += 1`')
    # the exact conversion goes through the same function with inexact=False
    mtf = ctx.fn(GMPUTILS, 'mpfr_to_float')
    for k in calls_in(mtf):
        if call_name(k) == '_round_odd':
            ctx.check(isinstance(k.args[1], ast.Constant) and k.args[1].value is False, GMPUTILS, k, 'mpfr_to_float', norm(k),
                      'exact conversion must not apply the sticky fix-up')
    # mpfr_value evaluates the conversion itself as the single MPFR operation
    mv = ctx.fn(GMPUTILS, 'mpfr_value')
    rets = [s for s in walk_no_nested(mv) if isinstance(s, ast.Return)]
    good = len(rets) == 1 and isinstance(rets[0].value, ast.Call) and call_name(rets[0].value) == 'mpfr_call' \
        and dotted(rets[0].value.args[0]) == 'gmp.mpfr' and dotted(kwarg(rets[0].value, 'prec')) == 'prec' \
        and dotted(kwarg(rets[0].value, 'n')) == 'n'
    ctx.check(good, GMPUTILS, mv, 'mpfr_value', 'mpfr_call(gmp.mpfr, (x,), prec=prec, n=n)', 'conversion no longer goes through the round-to-odd wrapper')
    # _mpfr_eval forwards prec / n and converts operands exactly
    me = ctx.fn(GMP, '_mpfr_eval')
    rets = [s for s in walk_no_nested(me) if isinstance(s, ast.Return)]
    good = len(rets) == 1 and isinstance(rets[0].value, ast.Call) and call_name(rets[0].value) == 'mpfr_call' \
        and dotted(kwarg(rets[0].value, 'prec')) == 'prec' and dotted(kwarg(rets[0].value, 'n')) == 'n' \
        and dotted(rets[0].value.args[0]) == me.args.args[0].arg
    conv = [k for k in calls_in(me) if call_name(k) == 'float_to_mpfr']
    ctx.check(good and len(conv) == 1, GMP, me, '_mpfr_eval', 'operands converted by float_to_mpfr, (prec, n) forwarded to mpfr_call',
              'wrapper changed')
    f2m = ctx.fn(GMPUTILS, 'float_to_mpfr')
    mk = [k for k in calls_in(f2m) if call_name(k) == 'gmp.mpfr']
    ctx.check(len(mk) == 1 and norm(kwarg(mk[0], 'precision') or '') in ('x.p',) and (kwarg(mk[0], 'base') is not None and norm(kwarg(mk[0], 'base')) == '16'),
              GMPUTILS, f2m, 'float_to_mpfr', 'gmp.mpfr(<hex digits>, precision=x.p, base=16)',
              'operand conversion must keep every digit of the operand (precision=x.p)')


# ----------------------------------------------------------------------
# F2: single-operation rule

EXACT_INNER_CALLS = {'gmp.mpfr', 'gmp.mpz', 'int'}


def _is_pow2_literal(e) -> bool:
    return isinstance(e, ast.Constant) and isinstance(e.value, int) and e.value > 0 and (e.value & (e.value - 1)) == 0


def _exact_expr(e) -> bool:
    """An expression whose MPFR evaluation is exact whatever the precision (>= 2 digits)."""
    if isinstance(e, ast.Constant) and isinstance(e.value, int) and abs(e.value) <= 3:
        return True
    if _is_pow2_literal(e):
        return True
    if isinstance(e, ast.Call) and call_name(e) in EXACT_INNER_CALLS and len(e.args) == 1:
        return _exact_expr(e.args[0])
    if isinstance(e, ast.Call) and call_name(e) in ('gmp.div', 'gmp.mul') and len(e.args) == 2:
        # quotient/product of exact small values where the divisor is a power of two
        a, b = e.args
        inner_b = b.args[0] if isinstance(b, ast.Call) and call_name(b) in EXACT_INNER_CALLS and b.args else b
        return _exact_expr(a) and _is_pow2_literal(inner_b)
    return False


def classify_callable(repo, e: ast.AST) -> tuple[bool, str]:
    """
    Is the callable handed to the round-to-odd wrapper a single MPFR
    operation whose ternary value describes the whole computation?
    """
    if isinstance(e, ast.Attribute) and dotted(e) and dotted(e).startswith('gmp.'):
        return True, f'primitive {dotted(e)}'
    if isinstance(e, ast.Name):
        node = repo.module(GMP).toplevel().get(e.id)
        if isinstance(node, ast.FunctionDef):
            body = [s for s in node.body if not (isinstance(s, ast.Expr) and isinstance(s.value, ast.Constant))]
            exprs = []
            for s in body:
                if isinstance(s, ast.Return):
                    exprs.append(s.value)
                elif isinstance(s, ast.Assign):
                    exprs.append(s.value)
                else:
                    return False, f'{e.id}: statement {type(s).__name__}'
            return _single_op(exprs, {a.arg for a in node.args.args}, e.id)
        return False, f'unresolved callable {e.id}'
    if isinstance(e, ast.Lambda):
        return _single_op([e.body], set(), 'lambda')
    return False, f'unrecognised callable {norm(e)}'


def _single_op(exprs, params, label) -> tuple[bool, str]:
    ops = []      # rounded MPFR operations, outermost first

    def visit(x, depth):
        if isinstance(x, ast.Name):
            return
        if isinstance(x, ast.Constant):
            return
        if isinstance(x, ast.Tuple):
            for y in x.elts:
                visit(y, depth)
            return
        if _exact_expr(x):
            return
        if isinstance(x, ast.UnaryOp) and isinstance(x.op, (ast.USub, ast.UAdd)):
            # negation is exact and keeps the operand's ternary meaning only for an exact operand
            ops.append((depth, 'neg', x))
            visit(x.operand, depth + 1)
            return
        if isinstance(x, ast.Call):
            cn = call_name(x) or '?'
            if cn == 'abs':
                ops.append((depth, 'abs', x))
            else:
                ops.append((depth, cn, x))
            for a in x.args:
                visit(a, depth + 1)
            return
        if isinstance(x, ast.BinOp):
            ops.append((depth, type(x.op).__name__, x))
            visit(x.left, depth + 1)
            visit(x.right, depth + 1)
            return
        ops.append((depth, type(x).__name__, x))

    for x in exprs:
        visit(x, 0)
    inner = [o for o in ops if o[0] > 0]
    if len([o for o in ops if o[0] == 0]) > 1:
        return False, f'{label}: several operations'
    if inner:
        return False, (f'{label}: `{norm(exprs[-1])}` composes MPFR operations; the ternary value reported to the '
                       f'round-to-odd fix-up describes only the outermost one, so the inexactness of '
                       f'`{norm(inner[0][2])}` is lost')
    return True, f'{label}: single operation'


def f2_single_operation(which: str):
    def rule(ctx: Ctx):
        repo = ctx.repo
        if which == 'C02':
            # callables handed to _mpfr_eval by arithmetic engine methods
            c = repo.cls(GMP, 'MPFREngine')
            seen = 0
            for m in c.body:
                if not isinstance(m, ast.FunctionDef):
                    continue
                base = m.name.lstrip('_')
                if not (in_scope(m.name, 'C02') or base in ARITH):
                    continue
                for k in calls_in(m):
                    if call_name(k) == '_mpfr_eval' and k.args:
                        seen += 1
                        okk, why = classify_callable(repo, k.args[0])
                        ctx.check(okk, GMP, k, f'MPFREngine.{m.name}', f'callable {norm(k.args[0])}', why)
            if seen < 15:
                raise ShapeError(f'only {seen} arithmetic _mpfr_eval sites found')
            return
        # C03: elementary functions and the constant table
        c = repo.cls(GMP, 'MPFREngine')
        seen = 0
        for m in c.body:
            if isinstance(m, ast.FunctionDef) and in_scope(m.name, 'C03') and m.name.lstrip('_') not in ARITH - {'pow'}:
                for k in calls_in(m):
                    if call_name(k) == '_mpfr_eval' and k.args:
                        seen += 1
                        okk, why = classify_callable(repo, k.args[0])
                        ctx.check(okk, GMP, k, f'MPFREngine.{m.name}', f'callable {norm(k.args[0])}', why)
        node = repo.module(GMP).toplevel().get('_constant_exprs')
        d = node.value if isinstance(node, (ast.Assign, ast.AnnAssign)) else None
        if not isinstance(d, ast.Dict):
            raise ShapeError('_constant_exprs is not a dict literal')
        for k, v in zip(d.keys, d.values):
            okk, why = classify_callable(repo, v)
            ctx.check(okk, GMP, v, '_constant_exprs', f'{norm(k)}: {norm(v)}', why)
            seen += 1
        if seen < 35:
            raise ShapeError(f'only {seen} callables found')
    return rule


# ----------------------------------------------------------------------
# S3 the local wrappers compute the operation their engine method is named after

# wrapper -> what it must return, as a term over its parameters.  Frozen from the MPFR / gmpy2 documentation:
#   gmpy2.lgamma(x) returns (log|gamma(x)|, sign); the C / FPCore `lgamma` is the first component.
#   gmpy2.lngamma(x) is log(gamma(x)) and is NaN wherever gamma(x) < 0, so it is NOT a substitute.
WRAPPER_ORACLE = {
    '_gmp_neg': "neg(x)",
    '_gmp_abs': "abs(x)",
    '_gmp_pow': "pow(x, y)",
    '_gmp_lgamma': "gmp.lgamma(x)[0]",
}


def s3_wrapper_primitives(ctx: Ctx):
    from ..symenv import execute, show
    mod = ctx.repo.module(GMP)
    found = 0
    for name, want in WRAPPER_ORACLE.items():
        fn = mod.toplevel().get(name)
        if not isinstance(fn, ast.FunctionDef):
            raise ShapeError(f'{name} not found in {GMP}')
        found += 1
        ctx.functions_analysed.add((GMP, name))
        rets = [s for s in ast.walk(fn) if isinstance(s, ast.Return)]
        got = None
        if len(rets) == 1 and rets[0].value is not None:
            v = rets[0].value
            # resolve one level of local names (y, _ = gmp.lgamma(x); return y)
            ex = execute(fn, {}, {})
            t = ex.returns[0][0] if ex.returns else None
            txt = show(t)
            if isinstance(v, ast.UnaryOp) and isinstance(v.op, ast.USub):
                got = f'neg({norm(v.operand)})'
            elif isinstance(v, ast.BinOp) and isinstance(v.op, ast.Pow):
                got = f'pow({norm(v.left)}, {norm(v.right)})'
            elif isinstance(v, ast.Call) and call_name(v) == 'abs':
                got = f'abs({norm(v.args[0])})'
            elif txt.startswith('proj(0, gmp.lgamma(x)') or txt in ('gmp.lgamma(x)[0]',):
                got = 'gmp.lgamma(x)[0]'
            else:
                got = txt
        ctx.check(got == want, GMP, fn, name, f'{name} returns {want}',
                  f'returns {got}: the engine method named after this operation would compute something else'
                  + (' (lngamma is log(gamma(x)), NaN where gamma(x) < 0; lgamma is log|gamma(x)|)' if name == '_gmp_lgamma' else ''))
    if found < 4:
        raise ShapeError('wrapper functions missing')
    # the way in: an operand reaches MPFR with its sign, the special ones included (copysign, and the sign rules of
    # products and quotients, read the sign of an infinity or a NaN)
    fn = ctx.fn(GMPUTILS, 'float_to_mpfr')
    sp = [r for r in ast.walk(fn) if isinstance(r, ast.Return) and isinstance(r.value, ast.Call) and any(call_name(k) in ('gmp.nan', 'gmp.inf') for k in ast.walk(r.value) if isinstance(k, ast.Call))]
    if len(sp) < 2:
        raise ShapeError('float_to_mpfr: the NaN and infinity arms were not found')
    for r in sp:
        v = r.value
        ok = call_name(v) == 'gmp.set_sign' and len(v.args) == 2 and norm(v.args[1]) == 'x.s'      # type: ignore
        ctx.check(ok, GMPUTILS, r, 'float_to_mpfr', f'`{norm(r)}` hands MPFR the operand\'s sign',
                  'the special value is built without the sign of the operand: copysign(3, -NaN) is +3 under every rounding context and -3 under the real one')


# ----------------------------------------------------------------------
# C03.T1 constants table complete

def t_constants(ctx: Ctx):
    repo = ctx.repo
    node = repo.module(GMP).toplevel().get('_constant_exprs')
    d = node.value if isinstance(node, (ast.Assign, ast.AnnAssign)) else None
    if not isinstance(d, ast.Dict):
        raise ShapeError('_constant_exprs is not a dict literal')
    keys = {dotted(k) for k in d.keys}
    c = repo.cls(GMP, 'MPFREngine')
    for m in c.body:
        if isinstance(m, ast.FunctionDef) and m.name.startswith('const_'):
            for k in calls_in(m):
                if call_name(k) == '_mpfr_constant':
                    want = CONST_OF_METHOD.get(m.name)
                    got = dotted(k.args[0])
                    ctx.check(want is not None and got == f'_Constant.{want}' and got in keys, GMP, k, f'MPFREngine.{m.name}',
                              f'{m.name} -> {got}', f'expected _Constant.{want} with an entry in _constant_exprs')
    mc = ctx.fn(GMP, '_mpfr_constant')
    calls = [k for k in calls_in(mc) if call_name(k) == 'mpfr_call']
    good = len(calls) == 1 and dotted(kwarg(calls[0], 'prec')) == 'prec' and dotted(kwarg(calls[0], 'n')) == 'n' \
        and isinstance(calls[0].args[1], ast.Tuple) and not calls[0].args[1].elts
    ctx.check(good, GMP, mc, '_mpfr_constant', 'mpfr_call(fn, (), prec=prec, n=n)', 'constant evaluation bypasses the round-to-odd wrapper')


# ----------------------------------------------------------------------
# C02.T1 real engine tables

def t1_real_engine(ctx: Ctx):
    repo = ctx.repo
    c = repo.cls(REAL, 'RealEngine')
    meths = {m.name: m for m in c.body if isinstance(m, ast.FunctionDef)}
    want = {'ceil': 'RTP', 'floor': 'RTN', 'trunc': 'RTZ', 'roundint': 'RNA'}
    for name, rm in want.items():
        m = meths.get(name)
        if m is None:
            raise ShapeError(f'RealEngine.{name} missing')
        x = m.args.args[1].arg
        rets = [s for s in walk_no_nested(m) if isinstance(s, ast.Return)]
        good = len(rets) == 1 and isinstance(rets[0].value, ast.Call) and call_name(rets[0].value) == 'self._real_rint' \
            and [norm(a) for a in rets[0].value.args] == [x, f'RoundingMode.{rm}']
        ctx.check(good, REAL, m, f'RealEngine.{name}', f'{name} = round to integer with {rm}',
                  f'got {norm(rets[0]) if rets else None}')
    rr = meths.get('_real_rint')
    if rr is None:
        raise ShapeError('_real_rint missing')
    rmp = rr.args.args[2].arg
    rounds = [k for k in calls_in(rr) if isinstance(k.func, ast.Attribute) and k.func.attr == 'round']
    ctx.check(len(rounds) == 2, REAL, rr, 'RealEngine._real_rint', 'one exact-arithmetic rounding per operand kind', f'{len(rounds)} rounding calls')
    for k in rounds:
        a = [norm(x) for x in k.args]
        ctx.check(a == ['None', '-1', rmp] and not k.keywords, REAL, k, 'RealEngine._real_rint', norm(k),
                  f'integer rounding must be .round(None, -1, {rmp}): unbounded precision, first dropped digit -1, the requested mode')
    mv = [k for k in calls_in(rr) if call_name(k) == 'mpfr_value']
    ctx.check(len(mv) == 1 and norm(kwarg(mv[0], 'n') or '') == '-1' and kwarg(mv[0], 'prec') is None, REAL, rr, 'RealEngine._real_rint',
              'non-dyadic operand pre-rounded to odd at n=-1', 'Fraction arm must go through mpfr_value(x, n=-1)')
    # sub = add(x, neg(y)); fma = add(mul(x, y), z)
    for name, inner, outer_args in (('sub', 'neg', None), ('fma', 'mul', None)):
        m = meths.get(name)
        if m is None:
            raise ShapeError(f'RealEngine.{name} missing')
        ps = [a.arg for a in m.args.args][1:]
        asg = [s for s in m.body if isinstance(s, ast.Assign) and isinstance(s.value, ast.Call) and call_name(s.value) == f'self.{inner}']
        rets = [s for s in m.body if isinstance(s, ast.Return) and isinstance(s.value, ast.Call) and call_name(s.value) == 'self.add']
        good = len(asg) == 1 and len(rets) == 1
        if good:
            t = asg[0].targets[0].id  # type: ignore
            ia = [dotted(a) for a in asg[0].value.args]  # type: ignore
            oa = [dotted(a) for a in rets[0].value.args]  # type: ignore
            if name == 'sub':
                good = ia == [ps[1], ps[2]] and oa == [ps[0], t, ps[2]]
            else:
                good = ia == [ps[0], ps[1], ps[3]] and oa == [t, ps[2], ps[3]]
            guards = [s for s in m.body if isinstance(s, ast.If) and norm(s.test) == f'{t} is None' and _returns_none(s.body)]
            good = good and len(guards) == 1
        ctx.check(good, REAL, m, f'RealEngine.{name}',
                  'x - y = add(x, neg(y))' if name == 'sub' else 'fma(x, y, z) = add(mul(x, y), z), exact, None propagated',
                  'composition of exact operations changed')


# ----------------------------------------------------------------------
# C02.T2 IEEE special-value tables of the real engine

def _classify_float_call(v, env):
    """'nan' | ('inf', sign text) | ('zero', sign text) | None"""
    if not (isinstance(v, Opaque) and isinstance(v.node, ast.Call) and call_name(v.node) == 'Float'):
        return None
    c = v.node

    def sgn():
        s = kwarg(c, 's')
        if s is None:
            return '+'
        if isinstance(s, ast.Name) and isinstance(env.get(s.id), Opaque):
            return norm(env[s.id].node)
        return norm(s)
    if isinstance(kwarg(c, 'isnan'), ast.Constant) and kwarg(c, 'isnan').value is True:  # type: ignore
        return 'nan'
    if isinstance(kwarg(c, 'isinf'), ast.Constant) and kwarg(c, 'isinf').value is True:  # type: ignore
        return ('inf', sgn())
    if isinstance(kwarg(c, 'c'), ast.Constant) and kwarg(c, 'c').value == 0:  # type: ignore
        return ('zero', sgn())
    return None


def t2_real_specials(ctx: Ctx):
    repo = ctx.repo
    c = repo.cls(REAL, 'RealEngine')
    meths = {m.name: m for m in c.body if isinstance(m, ast.FunctionDef)}
    XOR = {'_signbit(x) != _signbit(y)', '_signbit(y) != _signbit(x)'}

    def env_for(x, y, same_sign=None):
        e = {}
        for v, k in (('x', x), ('y', y)):
            e[f'_is_nan({v})'] = k == 'nan'
            e[f'_is_inf({v})'] = k == 'inf'
            e[f'_is_zero({v})'] = k == 'zero'
        if same_sign is not None:
            e['_signbit(x) == _signbit(y)'] = same_sign
            e['_signbit(x) != _signbit(y)'] = not same_sign
        return e

    kinds = ('nan', 'inf', 'zero', 'fin')
    IEEE = {
        'add': lambda x, y, same: 'nan' if 'nan' in (x, y) else (
            ('nan' if not same else ('inf', {'_signbit(x)', '_signbit(y)'})) if (x, y) == ('inf', 'inf') else
            ('inf', {'_signbit(x)'}) if x == 'inf' else ('inf', {'_signbit(y)'}) if y == 'inf' else 'finite'),
        'mul': lambda x, y, same: 'nan' if 'nan' in (x, y) else (
            'nan' if {x, y} == {'inf', 'zero'} else ('inf', XOR) if 'inf' in (x, y) else 'finite'),
        'div': lambda x, y, same: 'nan' if 'nan' in (x, y) else (
            'nan' if (x, y) in (('inf', 'inf'), ('zero', 'zero')) else
            ('inf', XOR) if x == 'inf' else ('zero', XOR) if y == 'inf' else
            ('inf', XOR) if y == 'zero' else ('zero', XOR) if x == 'zero' else 'finite'),
    }
    for op, oracle in IEEE.items():
        m = meths.get(op)
        if m is None:
            raise ShapeError(f'RealEngine.{op} missing')
        ps = [a.arg for a in m.args.args][1:3]
        if ps != ['x', 'y']:
            raise ShapeError(f'RealEngine.{op} operand names changed')
        q = f'RealEngine.{op}'
        ctx.functions_analysed.add((REAL, q))
        for x in kinds:
            for y in kinds:
                for same in ((True, False) if (op == 'add' and (x, y) == ('inf', 'inf')) else (None,)):
                    env = env_for(x, y, same)
                    want = oracle(x, y, same)
                    row = f'{op}({x}, {y}' + ('' if same is None else f', signs {"equal" if same else "differ"}') + ')'
                    try:
                        kind, val, st = decide(repo, REAL, m.body, env)
                    except ShapeError as e:
                        if want == 'finite':
                            ctx.ok(REAL, m, q, row + ' -> exact arithmetic')
                            continue
                        ctx.bad(REAL, m, q, row, f'special case not decided before the arithmetic: {e}')
                        continue
                    got = _classify_float_call(val, env) if kind == 'return' else None
                    if want == 'finite':
                        ctx.check(got is None or op == 'div', REAL, st or m, q, row + ' -> exact arithmetic',
                                  f'finite operands are answered with a special value {got}')
                        if op == 'add' and 'zero' in (x, y):
                            # a zero operand is not a shortcut: the sum of zeros of unlike sign is +0, which neither operand
                            # handed back as it is can say (x + 0 -> x keeps the -0 of x)
                            handed = kind == 'return' and isinstance(val, Opaque) and isinstance(val.node, ast.Name) and val.node.id in ps
                            ctx.check(not handed, REAL, st or m, q, row + ' is computed, not answered with an operand as it is',
                                      f'returns `{norm(val.node) if handed else ""}` unchanged: (-0) + (+0) is -0 under REAL, and 1 / (x - x) is -inf for x = -0.0')
                        continue
                    if want == 'nan':
                        ctx.check(got == 'nan', REAL, st or m, q, row + ' -> NaN', f'source yields {got or val!r}; IEEE 754 section 7.2: invalid operation gives NaN')
                    else:
                        k, signs = want
                        good = isinstance(got, tuple) and got[0] == k and got[1] in signs
                        ctx.check(good, REAL, st or m, q, row + f' -> {k} with sign {sorted(signs)[0]}',
                                  f'source yields {got or val!r}')
    # a Float zero times a finite operand of either kind is a zero whose sign is the product of the signs: the rational
    # product of the mixed arms (`x * y.as_rational()`) has no signed zero to return
    m = meths['mul']
    q = 'RealEngine.mul'
    for xk, yk in (('Fraction', 'Float'), ('Float', 'Fraction'), ('Float', 'Float')):
        for zero_side in ('x', 'y'):
            if {'x': xk, 'y': yk}[zero_side] != 'Float':
                continue
            env = {'x': Inst(xk), 'y': Inst(yk)}
            for v in ('x', 'y'):
                env[f'_is_nan({v})'] = False
                env[f'_is_inf({v})'] = False
                env[f'_is_zero({v})'] = v == zero_side
                env[f'{v}.is_zero()'] = v == zero_side
            row = f'mul({xk} {"zero" if zero_side == "x" else "finite"}, {yk} {"zero" if zero_side == "y" else "finite"})'

            def truth(t: ast.AST):
                """Value of a test built from isinstance(v, Float) / v.is_zero() / and / or / not, else None."""
                if isinstance(t, ast.BoolOp):
                    vs = [truth(v) for v in t.values]
                    if None in vs:
                        return None
                    return all(vs) if isinstance(t.op, ast.And) else any(vs)
                if isinstance(t, ast.UnaryOp) and isinstance(t.op, ast.Not):
                    v = truth(t.operand)
                    return None if v is None else not v
                s = norm(t)
                for v, kind in (('x', xk), ('y', yk)):
                    if s == f'isinstance({v}, Float)':
                        return kind == 'Float'
                    if s == f'isinstance({v}, Fraction)':
                        return kind == 'Fraction'
                    if s in (f'{v}.is_zero()', f'_is_zero({v})'):
                        return v == zero_side
                return None
            for node in ast.walk(m):
                if isinstance(node, ast.If) and 'is_zero' in norm(node.test) and 'isinstance' in norm(node.test):
                    tv = truth(node.test)
                    if tv is not None:
                        env[norm(node.test)] = tv
            try:
                kind, val, st = decide(repo, REAL, m.body, env)
                got = _classify_float_call(val, env) if kind == 'return' else None
            except ShapeError as e:
                kind, val, st, got = 'undecided', e, None, None
            if (xk, yk) == ('Float', 'Float') and got is None:
                # Float * Float goes through RealFloat multiplication, which carries the sign (C05)
                ctx.ok(REAL, st or m, q, row + ' -> exact RealFloat product (signed)')
                continue
            good = isinstance(got, tuple) and got[0] == 'zero' and got[1] in XOR
            ctx.check(good, REAL, st or m, q, row + ' -> zero with sign _signbit(x) != _signbit(y)',
                      f'source yields {got or val!r}: (1/3) * -0.0 is -0.0, the Fraction product is 0 without a sign')


# ----------------------------------------------------------------------
# C02.G1 the two MPFR engine methods that answer through a helper (GMP_HELPERS)

def g1_helper_methods(ctx: Ctx):
    """`_mod` needs floor(x / y) exactly: the quotient is evaluated down to the units digit whatever the target context
    is (a quotient kept to the target's precision loses its low integer digits when x / y is large), and the remainder
    x - q * y is then exact Float arithmetic.  `_fdim` is one MPFR subtraction at the target's (prec, n) or a constant."""
    q = 'MPFREngine._mod'
    fn = ctx.fn(GMP, q)
    x, y = [a.arg for a in fn.args.args][1:3]
    evals = [k for k in calls_in(fn) if call_name(k) in ('_mpfr_eval', 'mpfr_call', '_mpfr_constant')]
    floors = [k for k in calls_in(fn) if call_name(k) in ('math.floor', 'floor')]
    good = len(evals) == 1 and len(floors) == 1 and floors[0].args and floors[0].args[0] is evals[0]
    ctx.check(good, GMP, fn, q, 'the quotient is one round-to-odd division, consumed by floor', f'evaluations {[norm(k) for k in evals]}, floors {[norm(k) for k in floors]}')
    if evals:
        k = evals[0]
        pos = kwarg(k, 'n')
        if isinstance(pos, ast.UnaryOp) and isinstance(pos.op, ast.USub) and isinstance(pos.operand, ast.Constant):
            nval = -pos.operand.value
        elif isinstance(pos, ast.Constant):
            nval = pos.value
        else:
            nval = None
        prec = kwarg(k, 'prec')
        good = call_name(k) == '_mpfr_eval' and [dotted(a) for a in k.args] == ['gmp.div', x, y] and isinstance(nval, int) and nval <= -1 \
            and (prec is None or (isinstance(prec, ast.Constant) and prec.value is None))
        ctx.check(good, GMP, k, q, 'x / y is kept down to the units digit (n <= -1, no precision cap) whatever the target context',
                  f'got {norm(k)}: a quotient rounded to the target precision drops low integer digits, floor() of it is not floor(x / y)')
    rets = [s for s in walk_no_nested(fn) if isinstance(s, ast.Return)]
    last = rets[-1] if rets else None
    qn = None
    for s in walk_no_nested(fn):
        if isinstance(s, ast.Assign) and floors and s.value is floors[0] and isinstance(s.targets[0], ast.Name):
            qn = s.targets[0].id
    # the remainder: computed exactly, returned as it is -- except that a zero remainder takes the sign of y
    forms = (f'{x} - {qn} * {y}', f'{x} - {y} * {qn}')
    rem = [s for s in walk_no_nested(fn) if isinstance(s, ast.Assign) and isinstance(s.targets[0], ast.Name) and norm(s.value) in forms]
    rn = rem[0].targets[0].id if len(rem) == 1 else None
    good = last is not None and qn is not None and (norm(last.value) in forms or (rn is not None and norm(last.value) == rn))
    ctx.check(good, GMP, last or fn, q, 'the remainder is x - floor(x / y) * y in exact arithmetic', f'got {norm(last.value) if last is not None else None}')
    zero_arm = [s for s in walk_no_nested(fn) if rn is not None and isinstance(s, ast.If) and norm(s.test) == f'{rn}.is_zero()'
                and len(s.body) >= 1 and isinstance(s.body[-1], ast.Return) and norm(s.body[-1].value) == f'Float(x={rn}, s={y}.s)']
    ctx.check(len(zero_arm) == 1, GMP, rem[0] if rem else fn, q, 'an exact multiple leaves a zero with the sign of y (as every other result of the operation has)',
              'the zero of an exact multiple is +0 whatever y is: mod(4, -2) is +0, Python\'s 4.0 % -2.0 and this function\'s own zero-x arm give -0')
    # special operands: the table of Python's `%` on floats
    rows = [
        ({f'{x}.isnan or {y}.isnan': True}, 'nan', 'NaN operand -> NaN'),
        ({f'{x}.isnan or {y}.isnan': False, f'{x}.isinf': True}, 'nan', 'infinite x -> NaN'),
        ({f'{x}.isnan or {y}.isnan': False, f'{x}.isinf': False, f'{y}.isinf': False, f'{y}.is_zero()': True}, 'nan', 'zero y -> NaN'),
        ({f'{x}.isnan or {y}.isnan': False, f'{x}.isinf': False, f'{y}.isinf': True, f'{x}.is_zero()': False, f'{x}.s == {y}.s': True}, x, 'infinite y, same sign -> x'),
        ({f'{x}.isnan or {y}.isnan': False, f'{x}.isinf': False, f'{y}.isinf': True, f'{x}.is_zero()': False, f'{x}.s == {y}.s': False}, y, 'infinite y, opposite sign -> y'),
    ]
    for env, want, label in rows:
        kind, val, st = decide(ctx.repo, GMP, fn.body, dict(env))
        if want == 'nan':
            good = kind == 'return' and isinstance(val, Opaque) and norm(val.node) == 'Float(isnan=True)'
        else:
            good = kind == 'return' and ((isinstance(val, Opaque) and norm(val.node) == want) or getattr(val, 'name', None) == want or repr(val) == want)
        ctx.check(good, GMP, st or fn, q, f'special operands: {label}', f'source yields {kind} {val!r}')
    for zero_env, label in (({f'{y}.isinf': True, f'{x}.is_zero()': True}, 'zero x, infinite y'), ({f'{y}.isinf': False, f'{y}.is_zero()': False, f'{x}.is_zero()': True}, 'zero x, finite y')):
        env = {f'{x}.isnan or {y}.isnan': False, f'{x}.isinf': False}
        env.update(zero_env)
        kind, val, st = decide(ctx.repo, GMP, fn.body, env)
        good = kind == 'return' and isinstance(val, Opaque) and norm(val.node) == f'Float(x={x}, s={y}.s)'
        ctx.check(good, GMP, st or fn, q, f'special operands: {label} -> zero with the sign of y', f'source yields {kind} {val!r}')

    q = 'MPFREngine._fdim'
    fn = ctx.fn(GMP, q)
    x, y, p, n = [a.arg for a in fn.args.args][1:5]
    kind, val, st = decide(ctx.repo, GMP, fn.body, {f'{x}.isnan or {y}.isnan': True})
    ctx.check(kind == 'return' and isinstance(val, Opaque) and norm(val.node) == 'Float(isnan=True)', GMP, st or fn, q, 'NaN operand -> NaN', f'source yields {kind} {val!r}')
    kind, val, st = decide(ctx.repo, GMP, fn.body, {f'{x}.isnan or {y}.isnan': False, f'{x} > {y}': True})
    good = kind == 'return' and isinstance(val, Opaque) and norm(val.node) == f'_mpfr_eval(gmp.sub, {x}, {y}, prec={p}, n={n})'
    ctx.check(good, GMP, st or fn, q, 'x > y -> one MPFR subtraction x - y at the target (prec, n)', f'source yields {kind} {val!r}')
    kind, val, st = decide(ctx.repo, GMP, fn.body, {f'{x}.isnan or {y}.isnan': False, f'{x} > {y}': False})
    ctx.check(kind == 'return' and isinstance(val, Opaque) and norm(val.node) == 'Float()', GMP, st or fn, q, 'otherwise -> +0', f'source yields {kind} {val!r}')
    caller = ctx.fn(GMP, 'MPFREngine.fdim')
    last = caller.body[-1]
    good = isinstance(last, ast.Return) and norm(last.value) == 'self._fdim(x, y, prec, n)'
    ctx.check(good, GMP, last, 'MPFREngine.fdim', 'fdim hands the helper the target (prec, n)', f'got {norm(last)}')


# ----------------------------------------------------------------------
# MPFR is only driven under a context the library sets (C03 / C18)

_CONTEXT_FREE = {'context', 'get_emin_min', 'get_emax_max', 'get_exp', 'nan', 'inf', 'set_sign', 'get_context', 'local_context'}


def g2_mpfr_context(ctx: Ctx):
    """gmpy2 computes under a thread-wide current context: precision, rounding mode and exponent range are ambient
    state that the caller of the library may have set to anything.  A result "depends only on the function, the
    arguments and the context" only if every MPFR value is built and every MPFR operation run under a context fpy2 sets
    itself.  (a) in gmputils, every value-building gmpy2 call sits inside `with gmp.context(..)` that sets the exponent
    range to MPFR's own limits and disables traps; the evaluation context also pins precision and RoundToZero; (b) in
    the MPFR engine, every gmpy2 operation sits in a callable that is only ever handed to the round-to-odd wrapper."""
    mod = ctx.repo.module(GMPUTILS)
    parents: dict[int, ast.AST] = {}
    for p in ast.walk(mod.tree):
        for c in ast.iter_child_nodes(p):
            parents[id(c)] = p

    def controlled(node: ast.AST) -> ast.With | None:
        cur = node
        while id(cur) in parents:
            cur = parents[id(cur)]
            if isinstance(cur, ast.With):
                for it in cur.items:
                    k = it.context_expr
                    if isinstance(k, ast.Call) and call_name(k) == 'gmp.context':
                        kw = {x.arg: norm(x.value) for x in k.keywords}
                        if kw.get('emin') == 'MPFR_EMIN' and kw.get('emax') == 'MPFR_EMAX' and all(kw.get(t) == 'False' for t in ('trap_underflow', 'trap_overflow', 'trap_inexact', 'trap_divzero')):
                            return cur
        return None
    n = 0
    for k in [x for x in ast.walk(mod.tree) if isinstance(x, ast.Call)]:
        cn = call_name(k) or ''
        if not cn.startswith('gmp.') or cn[4:] in _CONTEXT_FREE:
            continue
        n += 1
        w = controlled(k)
        # calls made through a parameter (`fn(*args)`) are judged where the callable is built
        ctx.check(w is not None, GMPUTILS, k, 'gmputils', f'`{norm(k)[:50]}` runs under a context that fixes the exponent range and disables traps',
                  'the value is built under the caller\'s gmpy2 context: its exponent range, precision and traps change the operand (sqrt(2**40) is +inf after gmpy2.get_context().emax = 10)')
    fn = ctx.fn(GMPUTILS, '_mpfr_call_with_prec')
    withs = [s for s in walk_no_nested(fn) if isinstance(s, ast.With)]
    ok = False
    if len(withs) == 1 and isinstance(withs[0].items[0].context_expr, ast.Call):
        kw = {x.arg: norm(x.value) for x in withs[0].items[0].context_expr.keywords}
        ok = kw.get('precision') == 'prec' and kw.get('round') == 'gmp.RoundToZero' and kw.get('emin') == 'MPFR_EMIN' and kw.get('emax') == 'MPFR_EMAX' \
            and [norm(s) for s in withs[0].body] == ['return fn(*args)']
    ctx.check(ok, GMPUTILS, fn, '_mpfr_call_with_prec', 'the operation itself runs with precision, rounding mode and exponent range all set', 'evaluation context changed')
    lim = {dotted(s.targets[0]): norm(s.value) for s in mod.tree.body if isinstance(s, ast.Assign)}
    ctx.check(lim.get('MPFR_EMIN') == 'gmp.get_emin_min()' and lim.get('MPFR_EMAX') == 'gmp.get_emax_max()', GMPUTILS, mod.tree, 'gmputils', 'the range is MPFR\'s widest', f'{lim.get("MPFR_EMIN")}, {lim.get("MPFR_EMAX")}')
    # (b) the engine
    em = ctx.repo.module(GMP)
    eparents: dict[int, ast.AST] = {}
    for p in ast.walk(em.tree):
        for c in ast.iter_child_nodes(p):
            eparents[id(c)] = p
    handed = set()
    for k in [x for x in ast.walk(em.tree) if isinstance(x, ast.Call)]:
        if call_name(k) in ('_mpfr_eval', 'mpfr_call') and k.args and isinstance(k.args[0], ast.Name):
            handed.add(k.args[0].id)
    table_lambdas = set()
    for s in em.tree.body:
        v = getattr(s, 'value', None)
        if isinstance(v, ast.Dict) and any(isinstance(x, ast.Lambda) for x in v.values):
            tgt = dotted(s.target) if isinstance(s, ast.AnnAssign) else dotted(s.targets[0])
            users = [c for c in ast.walk(em.tree) if isinstance(c, ast.Call) and call_name(c) == 'mpfr_call' and c.args and isinstance(c.args[0], ast.Name)]
            fed = any(isinstance(a, ast.Assign) and isinstance(a.value, ast.Subscript) and dotted(a.value.value) == tgt and any(dotted(t) == u.args[0].id for t in a.targets for u in users)
                      for a in ast.walk(em.tree))
            if fed:
                table_lambdas |= {id(x) for x in v.values if isinstance(x, ast.Lambda)}
    m = 0
    for k in [x for x in ast.walk(em.tree) if isinstance(x, ast.Call)]:
        cn = call_name(k) or ''
        if not cn.startswith('gmp.') or cn[4:] in _CONTEXT_FREE:
            continue
        m += 1
        cur: ast.AST = k
        holder = None
        while id(cur) in eparents:
            cur = eparents[id(cur)]
            if isinstance(cur, (ast.Lambda, ast.FunctionDef)):
                holder = cur
                break
        ok = holder is not None and ((isinstance(holder, ast.FunctionDef) and holder.name in handed) or id(holder) in table_lambdas)
        ctx.check(ok, GMP, k, getattr(holder, 'name', '<lambda>') if holder is not None else '<module>', f'`{norm(k)[:40]}` is reached only through the round-to-odd wrapper',
                  'a gmpy2 operation run directly computes under the caller\'s precision and rounding mode')
    if n < 1 or m < 10:
        raise ShapeError(f'only {n} + {m} gmpy2 calls found')


# ----------------------------------------------------------------------
# C03.F3 round_params widened by the stochastic bits

def f3_round_params(ctx: Ctx):
    from .c01 import context_classes, own_method, own_attr_assigned
    repo = ctx.repo
    n = 0
    for rel, cname, c in context_classes(repo):
        fn = own_method(c, 'round_params')
        if fn is None or repo.is_abstract(fn):
            continue
        q = f'{cname}.round_params'
        ctx.functions_analysed.add((rel, q))
        uses_rb = own_attr_assigned(repo, rel, cname, 'num_randbits') and any(
            isinstance(s, ast.FunctionDef) and s.name == '__init__' and 'num_randbits' in [a.arg for a in s.args.args + s.args.kwonlyargs]
            for s in c.body)
        if not uses_rb:
            # non-stochastic families: constant answer or delegation.  A constant answer has to be the precision the
            # family's own rounding works at (the engines compute p + 2 round-to-odd digits for it: one digit short and
            # the half digit and the sticky digit coincide, so every inexact result looks like a tie)
            rets = [s for s in walk_no_nested(fn) if isinstance(s, ast.Return)]
            ra = own_method(c, '_round_at')
            if len(rets) == 1 and isinstance(rets[0].value, ast.Tuple) and isinstance(rets[0].value.elts[0], ast.Constant) and ra is not None:
                said = rets[0].value.elts[0].value
                used = [k.args[0].value for k in calls_in(ra) if (call_name(k) or '').endswith('MPFloatContext') and k.args and isinstance(k.args[0], ast.Constant)]
                ctx.check(len(used) == 1 and said == used[0], rel, rets[0], q, f'the precision reported to the engines ({said}) is the one {cname}._round_at rounds at ({used[0] if used else "?"})',
                          f'round_params says {said} digit(s), the rounding works at {used}: exp2(0.1) under a nearest mode of a power-of-two format gives 2.0 instead of 1.0')
                continue
            ctx.ok(rel, fn, q, 'no random bits in this family', nontrivial=False)
            continue
        n += 1
        # delegation idiom: `return self.<inner>.round_params()` where <inner> is built with this context's parameters
        body = [s for s in fn.body if not (isinstance(s, ast.Expr) and isinstance(s.value, ast.Constant))]
        if len(body) == 1 and isinstance(body[0], ast.Return) and isinstance(body[0].value, ast.Call) \
                and isinstance(body[0].value.func, ast.Attribute) and body[0].value.func.attr == 'round_params' \
                and (dotted(body[0].value.func.value) or '').startswith('self.'):
            inner = dotted(body[0].value.func.value)
            init = own_method(c, '__init__')
            good = False
            why = f'{inner} is not built in __init__'
            if init is not None:
                for s in walk_no_nested(init):
                    if isinstance(s, ast.Assign) and dotted(s.targets[0]) == inner and isinstance(s.value, ast.Call):
                        icls = call_name(s.value)
                        r = repo.resolve(rel, icls or '')
                        why = f'{icls} unresolved'
                        if r is not None:
                            im = repo.methods(r[0], r[1]).get('__init__')
                            if im is not None:
                                sig = [a.arg for a in im[2].args.args][1:]
                                bound = {}
                                for i, a in enumerate(s.value.args):
                                    if i < len(sig):
                                        bound[sig[i]] = dotted(a)
                                for kw in s.value.keywords:
                                    bound[kw.arg] = dotted(kw.value)
                                good = bound.get('num_randbits') == 'num_randbits' and bound.get('rng') == 'rng' and bound.get('rm') == 'rm'
                                why = f'inner context built with {bound}'
            ctx.check(good, rel, fn, q, f'delegates to {inner}.round_params(), built with this context\'s rm/num_randbits/rng', why)
            continue
        r_none = decide(repo, rel, fn.body, {'self.num_randbits is None': True, 'self.num_randbits is not None': False})
        ctx.check(r_none[0] == 'return' and r_none[1] == (None, None), rel, r_none[2] or fn, q,
                  'all-bits stochastic rounding => exact engine (None, None)', f'got {r_none[1]!r}')
        kind, val, st = decide(repo, rel, fn.body, {'self.num_randbits is None': False, 'self.num_randbits is not None': True})
        has_p = own_attr_assigned(repo, rel, cname, 'pmax')
        has_n = own_attr_assigned(repo, rel, cname, 'nmin')

        def text(v):
            if isinstance(v, Opaque):
                return norm(v.node)
            return repr(v)
        good = kind == 'return' and isinstance(val, tuple) and len(val) == 2
        if good:
            p, nn = text(val[0]), text(val[1])
            # local names are substituted by decide(); accept either spelling
            wp = {'self.pmax + self.num_randbits', 'self.num_randbits + self.pmax'} if has_p else {'None'}
            wn = {'self.nmin - self.num_randbits'} if has_n else {'None'}
            good = p in wp and nn in wn
            ctx.check(good, rel, st or fn, q, f'engine precision widened: ({sorted(wp)[0]}, {sorted(wn)[0]})',
                      f'got ({p}, {nn}): the engine must keep the random bits plus two guard digits beyond them')
        else:
            ctx.bad(rel, fn, q, 'engine precision widened', f'got {kind} {val!r}')
    if n < 5:
        raise ShapeError(f'only {n} stochastic context families found')
