"""
Shared rule: a rewriter that moves computation from an expression into a
statement preamble (ahead of the statement holding the expression) must not
do so from a position that the language evaluates conditionally or
repeatedly.  Used by C08 (ReduceFusion), C09 (FuncInline) and C10
(RoundInsert / RoundElim).

The positions come from how the interpreter lowers the language:
    IfExpr arms                 -> Python IfExp     (one arm evaluated)
    And / Or operands after #1  -> Python BoolOp    (short-circuit)
    ListComp element / iterables-> Python ListComp  (per element, sees targets)
    While condition             -> Python While.test(every iteration)
    Compare operands after #2   -> Python BoolOp    (the chain is a conjunction of pairwise tests)

A *mask* is an override of the corresponding visitor in which the sub-visit
of that position receives no preamble to hoist into (`None`), or a context
object carrying a refusal flag that the rewriter's refusal function reads.
"""

from __future__ import annotations

import ast
from dataclasses import dataclass

from ..core import Ctx
from ..facts import AnchorError, ShapeError, call_name, calls_in, dotted, kwarg, norm, walk_no_nested

BYTE = 'fpy2/interpret/byte.py'


@dataclass
class Hoister:
    relpath: str
    cls: str
    hoists_what: str
    refusal_flags: tuple[str, ...] = ()
    exceptions: dict | None = None     # position -> reason (frozen, confirmed by reading)
    mask_methods: tuple[str, ...] = () # methods of the context object that return a refusing copy of it
    extra_positions: tuple[str, ...] = ()  # positions of EXTRA_POSITIONS this rewriter has to mask as well


POSITIONS = {
    'while-cond': ('_visit_while', ['stmt.cond'], 'a `while` condition is evaluated before every iteration'),
    'ifexpr-arms': ('_visit_if_expr', ['e.ift', 'e.iff'], 'only one arm of a conditional expression is evaluated'),
    'boolop-tail': ('_visit_naryop', ['<And/Or operands after the first>'], '`and` / `or` short-circuit: later operands may not be evaluated'),
    'comp-elt': ('_visit_list_comp', ['e.elt'], 'a comprehension element is evaluated once per item and sees the loop targets'),
    'compare-tail': ('_visit_compare', ['<chain operands after the second>'], 'a chained comparison `a < b < c` stops at the first false link: operands after the second may not be evaluated'),
}


# Positions that are evaluated unconditionally and once, but not under the rounding context of the block the preamble goes
# to: they matter to a rewriter whose hoisted code rounds (the fused loop evaluates the element of the comprehension).
EXTRA_POSITIONS = {
    'with-header': ('_visit_context', ['stmt.ctx'], 'the context expression of a `with` is evaluated exactly, whatever context is active around the statement'),
}


def universe_check(ctx: Ctx):
    """The four positions exist because the interpreter lowers them to conditionally evaluated Python constructs."""
    repo = ctx.repo
    want = {
        ('BytecodeCompiler._visit_if_expr', 'pyast.IfExp'),
        ('BytecodeCompiler._visit_naryop', 'pyast.BoolOp'),
        ('BytecodeCompiler._visit_list_comp', 'pyast.ListComp'),
        ('BytecodeCompiler._visit_while', 'pyast.While'),
        ('BytecodeCompiler._visit_compare', 'pyast.BoolOp'),
    }
    for q, node in sorted(want):
        fn = repo.func(BYTE, q)
        ctx.check(any(call_name(k) == node for k in calls_in(fn)), BYTE, fn, q, f'lowers to {node}',
                  'the position is no longer lowered to a conditionally evaluated construct: revisit the mask universe')


def _masked(arg: ast.AST | None, flags: tuple[str, ...], incoming: str, fn: ast.AST | None = None,
            mask_methods: tuple[str, ...] = ()) -> tuple[bool, str]:
    if arg is None:
        return False, 'no context argument'
    if isinstance(arg, ast.Constant) and arg.value is None:
        return True, 'withholds the preamble (None)'
    if isinstance(arg, ast.Call):
        for kw in arg.keywords:
            if kw.arg in flags and isinstance(kw.value, ast.Constant) and kw.value.value is True:
                return True, f'sets the refusal flag {kw.arg}'
        if isinstance(arg.func, ast.Attribute) and arg.func.attr in mask_methods:
            return True, f'derives a refusing context with .{arg.func.attr}(...)'
    if isinstance(arg, ast.IfExp):
        # `ctx if i == 0 else inner`: masked when the non-first alternative is
        a, _ = _masked(arg.orelse, flags, incoming, fn, mask_methods)
        if a:
            return True, 'first item keeps the preamble, later ones are masked'
    if isinstance(arg, ast.Name) and fn is not None and arg.id != incoming:
        defs = [s.value for s in walk_no_nested(fn) if isinstance(s, ast.Assign) and any(isinstance(t, ast.Name) and t.id == arg.id for t in s.targets)]
        if defs and all(_masked(d, flags, incoming, None, mask_methods)[0] for d in defs):
            return True, f'`{arg.id}` is a refusing context'
    return False, f'passes `{norm(arg)}`'


def _is_super_call(k: ast.Call, meth: str) -> bool:
    f = k.func
    return isinstance(f, ast.Attribute) and f.attr == meth and isinstance(f.value, ast.Call) \
        and isinstance(f.value.func, ast.Name) and f.value.func.id == 'super'


def position_masked(repo, h: Hoister, pos: str) -> tuple[bool, str, ast.AST | None]:
    meth, subs, _ = (POSITIONS.get(pos) or EXTRA_POSITIONS[pos])
    try:
        c = repo.cls(h.relpath, h.cls)
    except AnchorError:
        raise
    own = [s for s in c.body if isinstance(s, ast.FunctionDef) and s.name == meth]
    if pos == 'boolop-tail':
        # accepted forms: an override of _visit_naryop (or _visit_expr) that treats And/Or specially with a masked context
        cands = own + [s for s in c.body if isinstance(s, ast.FunctionDef) and s.name == '_visit_expr']
        for f in cands:
            mentions = any(isinstance(n, ast.Name) and n.id in ('And', 'Or') for n in ast.walk(f))
            if not mentions:
                continue
            for k in calls_in(f):
                if call_name(k) in ('self._visit_expr', 'super()._visit_expr', 'super()._visit_naryop') and len(k.args) >= 2:
                    okk, why = _masked(k.args[1], h.refusal_flags, 'ctx', f, h.mask_methods)
                    if okk:
                        return True, why, f
        return False, f'{h.cls} has no And/Or-specific visit that masks later operands', (own[0] if own else c)
    if not own:
        return False, f'{h.cls} does not override {meth}: the default visitor threads the preamble into every sub-expression', c
    f = own[0]
    if pos == 'compare-tail':
        # accepted form: the operands are visited one by one, those after the second under a masked context
        for k in calls_in(f):
            if call_name(k) == 'self._visit_expr' and len(k.args) >= 2:
                okk, why = _masked(k.args[1], h.refusal_flags, 'ctx', f, h.mask_methods)
                if okk:
                    return True, why, f
        return False, f'{meth} visits every operand of the chain with the preamble', f
    incoming = f.args.args[2].arg if len(f.args.args) > 2 else 'ctx'
    results = []
    for sub in subs:
        found = None
        for k in calls_in(f):
            cn = call_name(k)
            if cn == 'self._visit_expr' and k.args and norm(k.args[0]) == sub:
                found = _masked(k.args[1] if len(k.args) > 1 else None, h.refusal_flags, incoming, f, h.mask_methods)
            elif _is_super_call(k, meth) and len(k.args) >= 2:
                found = _masked(k.args[1], h.refusal_flags, incoming, f, h.mask_methods)
        if found is None:
            # comprehension spelling: [self._visit_expr(x, None) for x in ...] is not the element; look for any visit of the sub text
            return False, f'{meth} does not visit `{sub}` through a recognisable call', f
        results.append(found)
    bad = [w for okk, w in results if not okk]
    if bad:
        return False, f'{meth} {bad[0]} for a conditionally evaluated position', f
    return True, results[0][1], f


def hoist_mask_rule(hoisters: list[Hoister], rule_prefix: str):
    def rule(ctx: Ctx):
        repo = ctx.repo
        universe_check(ctx)
        for h in hoisters:
            c = repo.cls(h.relpath, h.cls)
            # the refusal flags must actually be read by a refusal
            for fl in h.refusal_flags:
                read = False
                for n in ast.walk(repo.module(h.relpath).tree):
                    if isinstance(n, ast.If) and fl in norm(n.test) and any(isinstance(s, ast.Return) for s in n.body):
                        read = True
                ctx.check(read, h.relpath, c, h.cls, f'refusal flag {fl} is consulted by a refusal',
                          'the flag is set but never read: the position is not actually refused')
            for mm in h.mask_methods:
                sets = False
                for n in ast.walk(repo.module(h.relpath).tree):
                    if isinstance(n, ast.FunctionDef) and n.name == mm:
                        txt = norm(n, 4000)
                        sets = any(fl in txt for fl in h.refusal_flags) and 'return' in txt
                ctx.check(sets, h.relpath, c, h.cls, f'context method .{mm}() produces a context with a refusal flag set',
                          'the masking method no longer sets a flag the refusal reads')
            for pos, (meth, subs, why) in list(POSITIONS.items()) + [(p_, EXTRA_POSITIONS[p_]) for p_ in h.extra_positions]:
                construct = f'{h.cls}: {pos} masked ({h.hoists_what})'
                if h.exceptions and pos in h.exceptions:
                    ctx.ok(h.relpath, c, h.cls, construct + f' [frozen exception: {h.exceptions[pos]}]', nontrivial=False)
                    continue
                okk, detail, node = position_masked(repo, h, pos)
                ctx.check(okk, h.relpath, node or c, h.cls, construct,
                          f'{detail}. {why}; hoisting {h.hoists_what} out of it runs the hoisted code '
                          + ('under the ambient context instead of exactly' if pos in EXTRA_POSITIONS else
                             'unconditionally / once instead of when and as often as the original expression was evaluated'))
    return rule
