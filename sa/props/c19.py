"""
C19 — Sites, indices and cursors name exactly what they say.

Decided (structure only): the site protocol every aimable rewriter follows
(refusal before an index is spent, the index handed to the selection test is
the one just spent, listing / rewriting only under that test, a rewrite always
recorded as an edit, pre-order counting), the wiring of `strategies.sites` /
`refusals` to the transform each strategy runs, the `check_where` /
`check_site` bracket of every aimed `apply_with_edits`, exhaustiveness and
order of `path.sub_blocks` / `sub_exprs` against the node classes and the
visitor, and the decision tables of cursor forwarding.

Not decided: what a rewrite emits, `beneath`, and the rule-rewrite engine
(`fpy2/rewrite`), which is aimed through `find_all` cursors rather than
through the `sites()` protocol.
"""

from __future__ import annotations

import ast
from typing import Any, Iterable, Optional

from ..cfg import CFG, Node, count_on_paths, describe_path, find_path
from ..core import Ctx, Rule
from ..facts import ShapeError, call_name, calls_in, dotted, kwarg, norm, param_names, walk_no_nested
from ..lang import lang
from ..tables import Inst, Opaque, decide, pattern_matches

UTILS = 'fpy2/transform/utils.py'
CURSOR = 'fpy2/transform/cursor.py'
PATH = 'fpy2/transform/path.py'
SITES = 'fpy2/strategies/sites.py'
FUNCTION = 'fpy2/function.py'
VISITOR = 'fpy2/ast/visitor.py'

# The rule-rewrite engine counts matches of a user pattern and is aimed with the
# cursors `find_all` returns; it is not a strategy of `_SITES` and has no
# listing / refusal protocol to conform to.
NOT_SITE_PROTOCOL = {('fpy2/rewrite/rewrite.py', '_RewriteEngine')}


# ----------------------------------------------------------------------
# the site visitors and their events

def _node_exprs(n: Node) -> list[ast.AST]:
    a = n.ast
    if a is None:
        return []
    if n.kind == 'iter':
        return [a.iter]  # type: ignore
    if n.kind == 'with':
        return [i.context_expr for i in a.items]  # type: ignore
    if n.kind == 'case':
        return [a.guard] if a.guard is not None else []  # type: ignore
    if n.kind in ('stmt', 'return', 'raise', 'test', 'match'):
        if isinstance(a, (ast.FunctionDef, ast.ClassDef)):
            return []
        return [a]
    return []


def _calls(n: Node) -> list[ast.Call]:
    out = []
    for e in _node_exprs(n):
        out += [k for k in ast.walk(e) if isinstance(k, ast.Call)]
    return out


def _is_super_visit(k: ast.Call) -> bool:
    f = k.func
    return isinstance(f, ast.Attribute) and f.attr.startswith('_visit') and isinstance(f.value, ast.Call) \
        and isinstance(f.value.func, ast.Name) and f.value.func.id == 'super'


SELECTS = ('_selects', '_selects_at', '_selects_expr')


class SiteVisitor:
    """One method of a SiteRewriter subclass that spends site indices."""

    def __init__(self, ctx: Ctx, rel: str, cls: str, fn: ast.FunctionDef):
        self.rel, self.cls, self.fn = rel, cls, fn
        self.q = f'{cls}.{fn.name}'
        self.cfg = CFG(fn)
        self.helpers = self._child_helpers(ctx, rel, cls)
        ev = {k: [] for k in ('INC', 'REF', 'DECL', 'MATCH', 'FOUND', 'REC', 'CHILD', 'LISTING')}
        for n in self.cfg.nodes:
            a = n.ast
            if n.kind == 'stmt' and isinstance(a, ast.AugAssign) and isinstance(a.op, ast.Add):
                t = dotted(a.target)
                if t == 'self.site_idx':
                    if not (isinstance(a.value, ast.Constant) and a.value.value == 1):
                        raise ShapeError(f'{self.q}: site_idx advanced by {norm(a.value)}')
                    ev['INC'].append(n)
                elif t == 'self._matched':
                    ev['MATCH'].append(n)
            if n.kind == 'stmt' and isinstance(a, ast.Assign) and any(dotted(t) == 'self._replaced' for t in a.targets):
                if not (isinstance(a.value, ast.Constant) and a.value.value is False):
                    ev['REC'].append(n)
            for k in _calls(n):
                cn = call_name(k) or ''
                if cn == 'self.refused.append':
                    ev['REF'].append(n)
                elif cn == 'self.declined.append':
                    ev['DECL'].append(n)
                elif cn in ('self.found.append', 'self.found_exprs.append'):
                    ev['FOUND'].append(n)
                elif cn in ('self._record', 'self._record_at'):
                    ev['REC'].append(n)
                if cn in ('self._visit_expr', 'self._visit_block', 'self._visit_statement') or _is_super_visit(k) \
                        or (cn.startswith('self.') and cn[5:] in self.helpers):
                    if n not in ev['CHILD']:
                        ev['CHILD'].append(n)
            if n.kind == 'test' and any(dotted(x) == 'self.listing' for x in ast.walk(a)):
                ev['LISTING'].append(n)
        self.ev = ev
        if len(ev['INC']) != 1:
            raise ShapeError(f'{self.q}: {len(ev["INC"])} index increments')
        self.inc = ev['INC'][0]
        # the activation: one loop iteration when the increment sits in a `for`, else one call
        self.header: Optional[Node] = None
        for h in self.cfg.nodes_of('iter'):
            body_ids = {id(s) for s in ast.walk(h.ast)}
            if id(self.inc.ast) in body_ids:
                self.header = h
        self.start = self.header or self.cfg.entry
        self.idx_name = self._idx_name()
        self.sel_tests = self._selection_tests()

    @staticmethod
    def _child_helpers(ctx: Ctx, rel: str, cls: str) -> set[str]:
        """Methods of the class that themselves visit children (e.g. `_hoist`)."""
        out = set()
        for name, (r, c, f) in ctx.repo.methods(rel, cls, inherited=False).items():
            if name.startswith('_visit'):
                continue
            for k in calls_in(f):
                if (call_name(k) or '') in ('self._visit_expr', 'self._visit_block', 'self._visit_statement'):
                    out.add(name)
        return out

    def _idx_name(self) -> str:
        """`X` of the adjacent pair `X = self.site_idx; self.site_idx += 1`."""
        for body in _stmt_lists(self.fn):
            for i, st in enumerate(body):
                if st is self.inc.ast:
                    prev = body[i - 1] if i > 0 else None
                    if isinstance(prev, ast.Assign) and len(prev.targets) == 1 and isinstance(prev.targets[0], ast.Name) \
                            and dotted(prev.value) == 'self.site_idx':
                        return prev.targets[0].id
        return ''

    def idx_arg(self, k: ast.Call) -> Optional[ast.AST]:
        cn = (call_name(k) or '')[5:]
        pos = {'_selects': 2, '_selects_at': 2, '_selects_expr': 1}[cn]
        args: list[Optional[ast.AST]] = []
        for a in k.args:
            if isinstance(a, ast.Starred):
                if dotted(a.value) != 'self._site':
                    raise ShapeError(f'{self.q}: starred argument {norm(a)} in a selection call')
                args += [None, None]
            else:
                args.append(a)
        return args[pos] if pos < len(args) else None

    def select_calls(self) -> list[tuple[Node, ast.Call]]:
        return [(n, k) for n in self.cfg.nodes for k in _calls(n) if (call_name(k) or '') in tuple('self.' + s for s in SELECTS)]

    def _selection_tests(self) -> list[Node]:
        """Tests whose outcome depends on the selection of this candidate."""
        self.carriers: set[str] = set()
        for st in walk_no_nested(self.fn):
            if isinstance(st, ast.Assign) and len(st.targets) == 1 and isinstance(st.targets[0], ast.Name) \
                    and self._is_atom(st.value):
                self.carriers.add(st.targets[0].id)
        return [n for n in self.cfg.nodes_of('test')
                if self._eval(n.ast, True) is not None or self._eval(n.ast, False) is not None]

    def _is_atom(self, e: ast.AST) -> bool:
        """`self._selects*(…, idx)` with the index just spent, or a name bound to it."""
        if isinstance(e, ast.Name):
            return e.id in self.carriers
        if isinstance(e, ast.Call) and (call_name(e) or '') in tuple('self.' + s for s in SELECTS):
            a = self.idx_arg(e)
            return isinstance(a, ast.Name) and a.id == self.idx_name and bool(self.idx_name)
        return False

    def _eval(self, e: ast.AST, sel: bool) -> Optional[bool]:
        """Three-valued outcome of a test when the selection answers `sel`."""
        if self._is_atom(e):
            return sel
        if isinstance(e, ast.UnaryOp) and isinstance(e.op, ast.Not):
            v = self._eval(e.operand, sel)
            return None if v is None else not v
        if isinstance(e, ast.BoolOp):
            vs = [self._eval(x, sel) for x in e.values]
            if isinstance(e.op, ast.And):
                if any(x is False for x in vs):
                    return False
                return True if all(x is True for x in vs) else None
            if any(x is True for x in vs):
                return True
            return False if all(x is False for x in vs) else None
        return None

    def feasible(self, sel: bool):
        """edge filter: the out-edges consistent with the selection answering `sel`."""
        def ok(n: Node, lab: Any) -> bool:
            if n.kind != 'test' or n.ast is None or lab not in (True, False):
                return True
            v = self._eval(n.ast, sel)
            return v is None or v == lab
        return ok

    # path helpers -----------------------------------------------------------

    def _avoid_header(self, n: Node) -> bool:
        return self.header is not None and n is self.header

    def path(self, a: Node, b: Node, edge_ok=None, avoid=None) -> Optional[list[Node]]:
        av = (lambda n: self._avoid_header(n) or avoid(n)) if avoid is not None else self._avoid_header
        return find_path(self.cfg, a, b, avoid=av, edge_ok=edge_ok)

    def path_from_succ(self, a: Node, b: Node, edge_ok=None, avoid=None) -> Optional[list[Node]]:
        """A path of at least one edge from `a` to `b`."""
        for s, lab in a.succ:
            if edge_ok is not None and not edge_ok(a, lab):
                continue
            if s is b:
                return [a, s]
            if self._avoid_header(s) or (avoid is not None and avoid(s)):
                continue
            p = self.path(s, b, edge_ok=edge_ok, avoid=avoid)
            if p is not None:
                return [a] + p
        return None

    def activation_ends(self) -> list[Node]:
        ends = list(self.cfg.returns())
        if self.header is not None:
            ends.append(self.header)
        else:
            ends.append(self.cfg.exit_return)
        return ends


def _stmt_lists(fn: ast.AST) -> Iterable[list[ast.stmt]]:
    for n in ast.walk(fn):
        for fld in ('body', 'orelse', 'finalbody'):
            b = getattr(n, fld, None)
            if isinstance(b, list) and b and isinstance(b[0], ast.stmt):
                yield b
        if isinstance(n, ast.match_case):
            yield n.body


def site_visitors(ctx: Ctx) -> list[SiteVisitor]:
    repo = ctx.repo
    if not repo.has_cls(UTILS, 'SiteRewriter'):
        raise ShapeError('SiteRewriter not found')
    out = []
    for rel, cls, cdef in repo.subclasses(UTILS, 'SiteRewriter', strict=False):
        if (rel, cls) in NOT_SITE_PROTOCOL:
            continue
        for st in cdef.body:
            if isinstance(st, ast.FunctionDef) and any(
                    isinstance(x, ast.AugAssign) and dotted(x.target) == 'self.site_idx' for x in ast.walk(st)):
                out.append(SiteVisitor(ctx, rel, cls, st))
                ctx.functions_analysed.add((rel, f'{cls}.{st.name}'))
    return out


# ----------------------------------------------------------------------
# P1: indices — a refusal spends none, the selection sees the index just spent,
# every candidate is a site or a refusal

def g3_whole_function_declines(ctx: Ctx):
    """A rewrite may decline a whole function up front (`raise TransformDeclined` in `apply_with_edits`, ahead of the
    walk).  The listings run the walk without `apply_with_edits`, so whatever that test asks has to be asked of each
    candidate as well, or `sites()` lists points that every aim declines and `refusals()` is silent about them.  For every
    transform whose `apply_with_edits` declines up front on a test of the function alone, the rewriter's per-candidate
    verification declines on the same fact."""
    n = 0
    for rel in sorted(r_ for r_ in ctx.repo.modules if r_.startswith(T) and r_.endswith('.py')):
        for q, fn in ctx.repo.functions(rel):
            if not q.endswith('.apply_with_edits'):
                continue
            ups = [s for s in fn.body if isinstance(s, ast.If) and any(isinstance(x, ast.Raise) and 'TransformDeclined' in norm(x) for x in s.body)]
            for u in ups:
                n += 1
                # the fact tested: the helper called on `func...` (e.g. fpy_alias(func.env)) compared with None
                helpers = [call_name(k) for k in calls_in(u.test)]
                facts = [h for h in helpers if h]
                mirrored = False
                for q2, f2 in ctx.repo.functions(rel):
                    if q2.split('.')[-1] not in ('_verify', '_refuses', '_candidate') or '.' not in q2:
                        continue
                    cls2 = q2.split('.')[0]
                    inits = ctx.repo.methods(rel, cls2, inherited=False).get('__init__')
                    # attributes of the rewriter computed from the same helper
                    attrs = set()
                    if inits is not None:
                        for s2 in ast.walk(inits[2]):
                            if isinstance(s2, ast.Assign) and isinstance(s2.targets[0], ast.Attribute) and any(call_name(k) in facts for k in calls_in(s2.value)):
                                attrs.add(s2.targets[0].attr)
                    for i2 in [x for x in ast.walk(f2) if isinstance(x, ast.If)]:
                        tests_fact = any(call_name(k) in facts for k in calls_in(i2.test)) or any(isinstance(x, ast.Attribute) and x.attr in attrs for x in ast.walk(i2.test))
                        declines = any(isinstance(x, ast.Return) and isinstance(x.value, ast.Call) and call_name(x.value) == 'Declined' for x in i2.body)
                        mirrored = mirrored or (tests_fact and declines)
                ctx.check(mirrored, rel, u, q, f'the up-front decline `{norm(u.test)[:70]}` is also a decline of each candidate',
                          'only `apply_with_edits` asks: sites() lists blocks that every aim declines, refusals() says nothing -- float_to_fixed in a module that binds no name to `fpy2`')
    ctx.note(f'{n} up-front decline(s) found in the transforms')


def g2_inline_captures(ctx: Ctx):
    """A call whose callee cannot be spliced in because of the names it captures -- one of them is a local variable of the
    caller, or the caller captures another value under it -- is known to be so from the call, the callee and the caller
    alone.  It must then be a refusal (explained, no index spent), not a listed site whose rewrite raises.  (a) `_captures`
    is evaluated, from its source, on each of those situations; (b) `_visit_call` hands its answer to `_refuses` before the
    index is spent, and `_refuses` returns it when nothing else refuses first."""
    from ..cfg import CFG, find_path
    from ..minipy import Interp, Obj
    FI_ = T + 'func_inline.py'
    meths = {n: f for n, (_, _, f) in ctx.repo.methods(FI_, '_FuncInline', inherited=False).items()}
    funcs = {n: f for n, f in ctx.repo.functions(FI_) if '.' not in n}
    cap = meths.get('_captures')
    vc = meths.get('_visit_call')
    if vc is None:
        raise ShapeError('_FuncInline._visit_call not found')
    if cap is None:
        ctx.bad(FI_, vc, '_FuncInline._visit_call', 'a clash of captured names is decided before the site is counted',
                'no such decision: the call is listed, and aiming at it (or at nothing) raises RuntimeError "its free variable `K` is a local variable of the caller"')
        return
    K, J = Obj('NamedId', label='K'), Obj('NamedId', label='J')
    for o in (K, J):
        o.fields['__str__'] = (lambda o=o: o.fields['label'])

    def str_(o):
        return o.fields['__str__']() if isinstance(o, Obj) and '__str__' in o.fields else str(o)
    for what, bound, caller_env, callee_env, free, want in (
            ('the callee captures K, a local of the caller', {K}, {}, {'K': 3}, {K}, True),
            ('both capture K, with the same value', set(), {'K': 3}, {'K': 3}, {K}, False),
            ('both capture K, with different values', set(), {'K': 4}, {'K': 3}, {K}, True),
            ('the callee captures J, the caller binds K', {K}, {}, {'J': 1}, {J}, False),
            ('the callee captures nothing', {K}, {'K': 4}, {}, set(), False)):
        callee = Obj('FuncDef', free_vars=free)
        fn = Obj('Function', ast=callee, env=dict(callee_env), name='sq')
        me = Obj('_FuncInline', bound=bound, func=Obj('FuncDef', env=dict(caller_env)), recursive=False, inlined={})
        it = Interp(funcs, meths, self_obj=me, is_a=lambda k, c: k == c, globals_={'str': str_},
                    overrides={'Reachability.analyze': lambda a: Obj('ReachabilityAnalysis', ret_stmts=[1]), '_same_captured': lambda a, b: a == b, 'str': str_})
        got = it.call_function(cap, [Obj('Call', fn=fn)], bound_self=True)
        ctx.check((got is not None) == want, FI_, cap, '_FuncInline._captures', f'{what}: ' + ('refused' if want else 'not refused on that account'),
                  f'answers {got!r}: ' + ('the call is listed as a site and inlining it raises RuntimeError' if want else 'a call that can be inlined is refused'))
    # (b)
    cfg = CFG(vc)
    spend = [n for n in cfg.nodes_of('stmt') if isinstance(n.ast, ast.AugAssign) and norm(n.ast.target) == 'self.site_idx']
    decide_ = [n for n in cfg.nodes_of('stmt') if any(call_name(k) == '_refuses' and (kw := kwarg(k, 'captures')) is not None and call_name(kw) == 'self._captures' for k in calls_in(n.ast))]
    ok = bool(spend) and bool(decide_) and all(find_path(cfg, cfg.entry, s_, avoid=lambda n: n in decide_) is None for s_ in spend)
    ctx.check(ok, FI_, vc, '_FuncInline._visit_call', 'the answer of `_captures` reaches `_refuses` before the index is spent', 'the index is spent on a path that has not asked')
    # ... and the listing decides with what the rewrite will decide with: `_captures` reads `self.recursive` (the names a
    # flattened callee captures include its callees'), so the rewriter a listing walks with is built with the caller's
    # `recursive`, whose default in `sites` / `refusals` is the rewrite's
    reads_rec = any(isinstance(x, ast.Attribute) and x.attr == 'recursive' and isinstance(x.value, ast.Name) and x.value.id == 'self'
                    for m_ in ('_captures', '_callee_ast') if m_ in meths for x in ast.walk(meths[m_]))
    if reads_rec:
        defaults = {}
        for mname in ('apply_with_edits', 'sites', 'refusals'):
            f_ = ctx.repo.methods(FI_, 'FuncInline', inherited=False).get(mname)
            if f_ is None:
                raise ShapeError(f'FuncInline.{mname} not found')
            kw = {a.arg: d for a, d in zip(f_[2].args.kwonlyargs, f_[2].args.kw_defaults)}
            defaults[mname] = norm(kw['recursive']) if kw.get('recursive') is not None else None
        ctx.check(defaults['sites'] == defaults['refusals'] == defaults['apply_with_edits'] is not None, FI_, ctx.repo.methods(FI_, 'FuncInline', inherited=False)['sites'][2], 'FuncInline.sites',
                  'sites() and refusals() take `recursive` with the default of the rewrite', f'defaults {defaults}: the listing is taken for another `recursive` than the rewrite runs with -- '
                  'with h reading a captured k, g calling h and f binding a local k, sites(inline, f) lists g(k) and inline(f, 0) finds no site')
        builders = [k for q_, f_ in ctx.repo.functions(FI_) if q_ in ('_lister', 'FuncInline.sites', 'FuncInline.refusals') for k in calls_in(f_) if call_name(k) == '_FuncInline']
        for k in builders:
            v = kwarg(k, 'recursive')
            ctx.check(isinstance(v, ast.Name), FI_, k, '_lister', 'the rewriter a listing walks with is built with the caller\'s `recursive`',
                      f'built with `recursive={norm(v) if v is not None else "<default>"}`, whatever the caller asks for')
    rf = funcs.get('_refuses')
    if rf is None:
        raise ShapeError('_refuses not found')
    it = Interp(funcs, {}, is_a=lambda k, c: k == c, overrides={'Reachability.analyze': lambda a: Obj('ReachabilityAnalysis', ret_stmts=[1])})
    got = it.call_function(rf, [Obj('Call', fn=Obj('Function', ast=None, name='sq'))], {'in_while_cond': False, 'in_conditional': None, 'reorders': None, 'captures': 'because'})
    ctx.check(got == 'because', FI_, rf, '_refuses', 'a call refused for the names its callee captures is refused with that reason', f'answers {got!r}')


def p1_index_protocol(ctx: Ctx):
    vs = site_visitors(ctx)
    for v in vs:
        rel, q = v.rel, v.q
        # (a) refusal and index never on one path of an activation
        for r in v.ev['REF']:
            p = v.path(r, v.inc) or v.path(v.inc, r)
            ctx.check(p is None, rel, r.ast, q, 'a refused candidate spends no index',
                      'a refusal and `site_idx += 1` lie on one path: a listing would skip an index the rewrite counts',
                      path=describe_path(p, rel) if p else None)
        # (b) idx pairing
        ctx.check(bool(v.idx_name), rel, v.inc.ast, q, 'the index is read immediately before it is advanced (`idx = self.site_idx; self.site_idx += 1`)',
                  'no adjacent read of `self.site_idx` before the increment')
        for n, k in v.select_calls():
            a = v.idx_arg(k)
            probe = isinstance(a, ast.UnaryOp) and isinstance(a.op, ast.USub) or (isinstance(a, ast.Constant) and isinstance(a.value, int) and a.value < 0)
            if probe:
                # the index-free probe (is a cursor naming this refused candidate?) belongs to the refusal side
                p = v.path(v.inc, n)
                ctx.check(p is None, rel, k, q, f'index-free probe {norm(k)} is used only before an index is spent',
                          'a selection with index -1 after the increment never matches an int `where`', path=describe_path(p, rel) if p else None)
                continue
            good = isinstance(a, ast.Name) and a.id == v.idx_name
            after = v.path(v.inc, n) is not None
            ctx.check(good and after, rel, k, q, f'selection {norm(k)} is handed the index just spent',
                      f'index argument is `{norm(a) if a is not None else None}`, expected `{v.idx_name}` read before the increment'
                      if not good else 'selection evaluated before the index is spent')
        # (c) accounting: past the refusal decision every path is a refusal or spends an index
        for r in v.ev['REF']:
            dec = _deciding_test(v, r)
            if dec is None:
                raise ShapeError(f'{q}: no test decides the refusal at line {r.lineno}')
            t, lab = dec
            other = [(s, l) for s, l in t.succ if l != lab]
            bad = None
            for s, l in other:
                for end in v.activation_ends():
                    p = find_path(v.cfg, s, end, avoid=lambda n: n is v.inc or v._avoid_header(n)) if s is not v.inc else None
                    if s is v.inc:
                        p = None
                    if p is not None and end is not s:
                        bad = [t] + p
                        break
                if bad:
                    break
            ctx.check(bad is None, rel, t.ast, q, 'a candidate that is not refused spends exactly one index (every considered point is a site or a refusal)',
                      'a path leaves the visitor with neither a refusal nor an index', path=describe_path(bad, rel) if bad else None)
            # the refusal names the visited node, which is what list_refusals looks up by identity
            k = [c for c in _calls(r) if call_name(c) == 'self.refused.append'][0]
            arg = k.args[0] if k.args else None
            first = arg.elts[0] if isinstance(arg, ast.Tuple) and len(arg.elts) == 2 else None
            cand = _candidate_names(v)
            ctx.check(isinstance(first, ast.Name) and first.id in cand, rel, k, q, 'the refusal is recorded against the visited node itself',
                      f'recorded against `{norm(first) if first is not None else norm(k)}`; candidates here are {sorted(cand)}')
        # at most one increment per activation
        p = v.path_from_succ(v.inc, v.inc)
        ctx.check(p is None, rel, v.inc.ast, q, 'one index per candidate', 'the increment can repeat within one visit',
                  path=describe_path(p, rel) if p else None)


def _deciding_test(v: SiteVisitor, r: Node):
    """The innermost `if` whose arm directly holds the refusal statement."""
    for n in v.cfg.nodes_of('test'):
        st = n.extra
        if isinstance(st, ast.If):
            if any(s is r.ast for s in st.body):
                return n, True
            if any(s is r.ast for s in st.orelse):
                return n, False
    return None


def _candidate_names(v: SiteVisitor) -> set[str]:
    names = set(param_names(v.fn)) - {'self', 'ctx'}
    if v.header is not None:
        names |= {x.id for x in ast.walk(v.header.ast.target) if isinstance(x, ast.Name)}  # type: ignore
    return names


# ----------------------------------------------------------------------
# P2: selection — only the selected candidate is counted as matched, listed,
# rewritten; a listing rewrites nothing; a rewrite is always recorded

def p2_selection_protocol(ctx: Ctx):
    vs = site_visitors(ctx)
    for v in vs:
        rel, q = v.rel, v.q
        ctx.check(bool(v.sel_tests), rel, v.fn, q, 'the visitor branches on the selection test', 'no `if` tests `_selects*(…, idx)`')
        unsel, sel = v.feasible(False), v.feasible(True)
        for kind, what in (('MATCH', '`_matched` is advanced'), ('FOUND', 'a site is listed'), ('REC', 'an edit is recorded')):
            for n in v.ev[kind]:
                p = v.path(v.inc, n, edge_ok=unsel)
                ctx.check(p is None, rel, n.ast, q, f'{what} only for the selected candidate: {norm(n.ast)}',
                          'reachable when the selection test answers no: an unselected site would be ' +
                          {'MATCH': 'counted as matched', 'FOUND': 'listed', 'REC': 'rewritten'}[kind],
                          path=describe_path(p, rel) if p else None)
                p = v.path(v.start, n, avoid=lambda x: x is v.inc) if n is not v.inc else None
                ctx.check(p is None, rel, n.ast, q, f'{what} only after the candidate took its index: {norm(n.ast)}',
                          'reachable before `site_idx` is advanced', path=describe_path(p, rel) if p else None)
        ctx.check(len(v.ev['MATCH']) == 1, rel, v.fn, q, 'a selected candidate is counted once in `_matched` (what `check_site` reads)',
                  f'{len(v.ev["MATCH"])} increments of `_matched`')
        # every selected candidate is counted as matched
        if v.ev['MATCH']:
            m = v.ev['MATCH'][0]
            bad = None
            for end in v.activation_ends():
                p = v.path_from_succ(v.inc, end, edge_ok=sel, avoid=lambda n: n is m) if end is not m else None
                if p is not None:
                    bad = p
                    break
            ctx.check(bad is None, rel, v.inc.ast, q, 'every selected candidate advances `_matched`',
                      'a selected candidate can leave the visitor uncounted: a cursor naming it would be reported as naming nothing',
                      path=describe_path(bad, rel) if bad else None)
        if v.ev['LISTING']:
            for L in v.ev['LISTING']:
                if not (dotted(L.ast) == 'self.listing'):
                    raise ShapeError(f'{q}: listing test is `{norm(L.ast)}`')
                # no rewrite from the listing arm
                for rnode in v.ev['REC']:
                    p = v.path(L, rnode, edge_ok=lambda n, lab, L=L: not (n is L and lab is False))
                    ctx.check(p is None, rel, rnode.ast, q, 'a listing rewrites nothing',
                              'an edit is recorded on the listing path', path=describe_path(p, rel) if p else None)
                # the listing arm always reports the site
                bad = None
                for s, lab in L.succ:
                    if lab is not True or s in v.ev['FOUND']:
                        continue
                    for end in v.activation_ends():
                        p = find_path(v.cfg, s, end, avoid=lambda n: n in v.ev['FOUND'] or v._avoid_header(n))
                        if p is not None:
                            bad = [L] + p
                            break
                ctx.check(bad is None, rel, L.ast, q, 'a selected site is reported by the listing',
                          'the listing arm can leave without recording the site', path=describe_path(bad, rel) if bad else None)
            # a selected candidate always reaches the listing test: nothing else (an unroll count of zero, say) decides
            # whether a candidate that took an index and was counted as matched is listed
            from ..dataflow import guards_of, parent_map
            pm = parent_map(v.fn)
            for m_ in v.ev['MATCH']:
                bad = None
                # what is known to hold where the count is taken (`if aimed: self._matched += 1`): a later test of the same
                # condition cannot go the other way
                holds = {norm(g) for g, arm in guards_of(v.fn, m_.ast, pm) if arm == 'then'}

                def feasible(n, lab, holds=holds):
                    t = norm(n.ast) if n.kind == 'test' and n.ast is not None else None
                    if t is None:
                        return True
                    return not ((t in holds and lab is False) or (t.startswith('not ') and t[4:] in holds and lab is True))
                for end in v.activation_ends():
                    p = v.path_from_succ(m_, end, avoid=lambda n: n in v.ev['LISTING'], edge_ok=feasible)
                    if p is not None:
                        bad = p
                        break
                ctx.check(bad is None, rel, m_.ast, q, 'a candidate counted as matched always reaches the listing test',
                          'a counted candidate can leave unlisted: the listing shows fewer sites than the index check accepts (unroll_for with times=0 listed none and accepted every index)',
                          path=describe_path(bad, rel) if bad else None)
            for f in v.ev['FOUND']:
                p = v.path(v.start, f, edge_ok=lambda n, lab: not any(n is L and lab is True for L in v.ev['LISTING']))
                ctx.check(p is None, rel, f.ast, q, 'sites are reported only while listing', 'a rewrite run also fills the listing',
                          path=describe_path(p, rel) if p else None)
                _check_found_arg(ctx, v, f)
        _rewrite_recorded(ctx, v)


def _rewrite_recorded(ctx: Ctx, v: SiteVisitor):
    """A rewritten result is always recorded as an edit -- by the visitor, or by the `_visit_block` the class runs under."""
    rel, q = v.rel, v.q
    if not v.ev['MATCH']:
        return
    owner_rel, owner_cls, blockfn = ctx.repo.methods(rel, v.cls)['_visit_block']
    uses_flag = any(isinstance(n.ast, ast.Assign) for n in v.ev['REC'])
    if uses_flag:
        ctx.check(owner_rel == UTILS and owner_cls.name == 'SiteRewriter', rel, v.fn, q,
                  '`_replaced` is turned into an edit by SiteRewriter._visit_block, which this class runs under',
                  f'the class runs under {owner_cls.name}._visit_block, which does not read `_replaced`')
        L = lang(ctx.repo)
        expr_methods = set(L.dispatch_table('_expr_dispatch').values()) | {'_visit_expr'}
        if v.fn.name in expr_methods:
            # the flag is raised from an *expression* visitor, i.e. while some statement's expression is being
            # visited.  `_visit_block` clears the flag before every statement, nested ones included, so a flag raised in a
            # compound statement's own expression (an `if` / `while` condition, a `for` iterable, a `with` header) is gone
            # by the time the compound statement returns: the program changes and no edit says so.  Such a rewriter has to
            # withhold the preamble (pass no context) from those expressions.
            own = ctx.repo.methods(rel, v.cls, inherited=False)
            for node_cls in L.concrete('Stmt'):
                fields = [f for f in L.slots(node_cls)]
                vm = L.visit_method(node_cls)
                c = L.classes.get(node_cls)
                has_block = c is not None and any(isinstance(s, ast.AnnAssign) and 'StmtBlock' in ast.unparse(s.annotation) for s in c.body)
                if not has_block or vm is None:
                    continue
                m = own.get(vm)
                masked = False
                got = 'inherited (the sub-expression receives the live preamble)'
                if m is not None:
                    sup = [k for k in calls_in(m[2]) if _is_super_visit(k) and k.func.attr == vm]  # type: ignore
                    masked = len(sup) == 1 and len(sup[0].args) == 2 and isinstance(sup[0].args[1], ast.Constant) and sup[0].args[1].value is None
                    got = f'calls {[norm(k) for k in sup]}'
                ctx.check(masked, rel, m[2] if m is not None else v.fn, f'{v.cls}.{vm}',
                          f'{node_cls}: its own expression is visited with no preamble to hoist into (an edit raised there would be lost when the nested block is visited)',
                          f'{got}: a rewrite in the statement\'s own expression inserts statements ahead of it with no edit recorded, so every later cursor in the block resolves one statement off')
    if not v.ev['REC'] and v.fn is not blockfn:
        # the class accounts for its rewrites per statement in its own `_visit_block`
        recs = [k for k in calls_in(blockfn) if call_name(k) in ('self._record', 'self._record_at')]
        own = owner_rel == rel and owner_cls.name == v.cls
        ctx.check(own and bool(recs), rel, v.fn, q, 'rewrites of this visitor are recorded by the class\'s own `_visit_block`',
                  'neither the visitor nor its `_visit_block` records an edit: cursors after a rewritten statement would mis-forward')
        for k in recs:
            _growth_record(ctx, v, blockfn, k)
        return
    m = v.ev['MATCH'][0]
    targets = [r for r in v.cfg.returns() if not _unchanged_return(r)]
    if v.header is not None:
        targets.append(v.header)
    not_listing = lambda n, lab: not any(n is L and lab is True for L in v.ev['LISTING'])
    bad = None
    for tnode in targets:
        p = find_path(v.cfg, m, tnode, avoid=lambda n: n in v.ev['REC'] or (v._avoid_header(n) and n is not tnode), edge_ok=not_listing)
        if p is not None:
            bad = p
            break
    ctx.check(bad is None, rel, m.ast, q, 'a rewrite of the selected candidate is always recorded as an edit',
              'a rewritten statement can be returned with no `_replaced` / `_record`: later cursors in the block would mis-forward',
              path=describe_path(bad, rel) if bad else None)


def _growth_record(ctx: Ctx, v: SiteVisitor, blockfn: ast.FunctionDef, k: ast.Call):
    """`_record(block, pos, n, removed=0)` where n is the growth of the output list around one statement visit."""
    q = f'{v.cls}._visit_block'
    loops = [s for s in walk_no_nested(blockfn) if isinstance(s, ast.For)]
    loop = next((l for l in loops if any(x is k for x in ast.walk(l))), None)
    if loop is None:
        ctx.bad(v.rel, k, q, norm(k), 'the edit is recorded outside the per-statement loop')
        return
    cnt = k.args[2] if len(k.args) >= 3 else None
    removed = next((kw.value for kw in k.keywords if kw.arg == 'removed'), None)
    defs = {s.targets[0].id: s.value for s in ast.walk(loop) if isinstance(s, ast.Assign) and len(s.targets) == 1 and isinstance(s.targets[0], ast.Name)}
    src = defs.get(cnt.id) if isinstance(cnt, ast.Name) else cnt
    txt = norm(src) if src is not None else ''
    # growth = len(out) - before - 1 (the surviving statement itself), insertion ahead of it
    before = [n for n, val in defs.items() if isinstance(val, ast.Call) and call_name(val) == 'len']
    lin = _linear(src) if src is not None else None
    good = lin is not None and any(lin == {norm(defs[b]): 1, b: -1, '': -1} for b in before) \
        and isinstance(removed, ast.Constant) and removed.value == 0
    ctx.check(good, v.rel, k, q, 'the recorded insertion is the growth of the output around the visit, minus the surviving statement (`removed=0`)',
              f'records `{txt}` with removed={norm(removed) if removed is not None else None}')
    # the surviving statement's expressions moved: an expression cursor in it must not forward
    marks = [c for c in calls_in(loop) if call_name(c) == 'self._mark_exprs']
    ctx.check(bool(marks), v.rel, k, q, 'the statement that held the rewritten expression is marked (`_mark_exprs`)',
              'an expression cursor into the surviving statement would forward to a rewritten expression')


def _unchanged_return(r: Node) -> bool:
    """`return super()._visit_x(...)`: the candidate is rebuilt as it stands."""
    v = r.ast.value  # type: ignore
    if isinstance(v, ast.Call) and _is_super_visit(v):
        return True
    return False


def _check_found_arg(ctx: Ctx, v: SiteVisitor, f: Node):
    k = [c for c in _calls(f) if (call_name(c) or '').startswith('self.found')][0]
    cn = call_name(k)
    a = k.args[0] if k.args else None
    if cn == 'self.found_exprs.append':
        good = isinstance(a, ast.Name) and a.id in _candidate_names(v)
        ctx.check(good, v.rel, k, v.q, 'the listed expression is the visited node itself', f'lists `{norm(a) if a is not None else None}`')
        return
    # StmtPath(self._paths[id(B)], P) with (B, P) the site the selection was asked about
    sel = [k2 for _, k2 in v.select_calls() if isinstance(v.idx_arg(k2), ast.Name)]
    want = None
    for k2 in sel:
        if call_name(k2) == 'self._selects' and len(k2.args) >= 2 and not any(isinstance(x, ast.Starred) for x in k2.args):
            want = (norm(k2.args[0]), norm(k2.args[1]))
    got = None
    if isinstance(a, ast.Call) and call_name(a) == 'StmtPath' and len(a.args) == 2:
        b = a.args[0]
        if isinstance(b, ast.Subscript) and dotted(b.value) == 'self._paths' and isinstance(b.slice, ast.Call) and call_name(b.slice) == 'id':
            got = (norm(b.slice.args[0]), norm(a.args[1]))
    ctx.check(got is not None and got == want, v.rel, k, v.q, 'the listed path is the block and position the selection was asked about',
              f'lists {got}, selection asked about {want}')


# ----------------------------------------------------------------------
# P3: counting is pre-order — the index is spent before any child is visited

def p3_preorder(ctx: Ctx):
    vs = site_visitors(ctx)
    for v in vs:
        bad = None
        for c in v.ev['CHILD']:
            if c is v.inc:
                continue
            p1 = v.path(v.start, c, avoid=lambda n: n is v.inc)
            p2 = v.path(c, v.inc) if p1 is not None else None
            if p1 is not None and p2 is not None:
                bad = p1 + p2[1:]
                break
        ctx.check(bad is None, v.rel, v.inc.ast, v.q, 'the index is spent before any child of the candidate is visited (outermost-first numbering)',
                  'a child is visited before the candidate takes its index: nested sites would be numbered ahead of the enclosing one, '
                  'against the order `walk_stmts` / `walk_exprs` list them in', path=describe_path(bad, v.rel) if bad else None)


def _linear(e: ast.AST, sign: int = 1, acc: Optional[dict] = None) -> Optional[dict]:
    """An integer expression as {term text: coefficient}; '' is the constant term."""
    acc = {} if acc is None else acc
    if isinstance(e, ast.BinOp) and isinstance(e.op, (ast.Add, ast.Sub)):
        if _linear(e.left, sign, acc) is None:
            return None
        return _linear(e.right, sign if isinstance(e.op, ast.Add) else -sign, acc)
    if isinstance(e, ast.Constant) and isinstance(e.value, int):
        acc[''] = acc.get('', 0) + sign * e.value
    else:
        t = norm(e)
        acc[t] = acc.get(t, 0) + sign
    return {k: c for k, c in acc.items() if c != 0} if acc is not None else None


# ----------------------------------------------------------------------
# T1: `sites(strategy, f)` / `refusals(strategy, f)` run the transform the strategy runs

def _strategy_transform(ctx: Ctx, name: str) -> tuple[str, ast.FunctionDef, list[ast.Call]]:
    """The strategy function `name` (as imported into sites.py) and its `K.apply_with_edits(...)` calls."""
    res = ctx.repo.resolve(SITES, name)
    if res is None:
        raise ShapeError(f'{name} in {SITES} does not resolve')
    rel, node = res[0], ctx.repo.defnode(res)
    if not isinstance(node, ast.FunctionDef):
        raise ShapeError(f'strategy {name} is not a function')
    ks = [k for k in calls_in(node) if isinstance(k.func, ast.Attribute) and k.func.attr == 'apply_with_edits']
    return rel, node, ks


def _lister_forwards(ctx: Ctx, rel: str, cname: str, lst: ast.FunctionDef, depth: int = 0):
    """A lister's own parameters (`times`, `strategy`, `early_check`, ...) are the ones that decide which candidates the
    rewrite takes, so each of them has to reach the walk: it is read, and wherever the lister calls a function or class of
    its module that has a parameter of the same name, that parameter receives it (not its default, not another slot)."""
    repo = ctx.repo
    q = f'{cname}.{lst.name}' if depth == 0 else lst.name
    own = [p.arg for p in lst.args.args + lst.args.kwonlyargs if p.arg not in ('func', 'within', 'self', 'cls')]
    reads = {n.id for n in ast.walk(lst) if isinstance(n, ast.Name) and isinstance(n.ctx, ast.Load)}
    for p in own:
        ctx.check(p in reads, rel, lst, q, f'{q}: the parameter `{p}` reaches the walk', f'`{p}` is never read: the listing is the one for the default `{p}`, '
                  'whatever the caller passes, so it names candidates the rewrite (run with the real value) treats differently')
    for k in calls_in(lst):
        n = call_name(k) or ''
        if '.' in n:
            continue
        callee = None
        if repo.has_func(rel, n):
            callee = repo.func(rel, n)
            params = [x.arg for x in callee.args.args] + [x.arg for x in callee.args.kwonlyargs]
            npos = len(callee.args.args)
            if depth < 2 and set(own) & set(params):
                _lister_forwards(ctx, rel, cname, callee, depth + 1)       # a helper that builds the walk for the lister
        elif repo.has_cls(rel, n) and '__init__' in repo.methods(rel, n):
            callee = repo.methods(rel, n)['__init__'][2]
            params = [x.arg for x in callee.args.args[1:]] + [x.arg for x in callee.args.kwonlyargs]
            npos = len(callee.args.args) - 1
        if callee is None or any(isinstance(x, ast.Starred) for x in k.args) or any(kw.arg is None for kw in k.keywords):
            continue
        bound: dict[str, ast.AST] = {params[i]: x for i, x in enumerate(k.args) if i < npos}
        bound.update({kw.arg: kw.value for kw in k.keywords if kw.arg})
        for p in own:
            if p not in params:
                continue
            got = bound.get(p)
            # the value may be converted on the way (`factor = Integer(factor, None)`, `names = set(funcs)`): what arrives has to come from `p`
            der = {p}
            grew = True
            while grew:
                grew = False
                for st in ast.walk(lst):
                    if isinstance(st, ast.Assign) and any(isinstance(x, ast.Name) and x.id in der for x in ast.walk(st.value)):
                        for t in st.targets:
                            for x in ast.walk(t):
                                if isinstance(x, ast.Name) and x.id not in der:
                                    der.add(x.id)
                                    grew = True
            others = {o for o in own if o != p}
            ctx.check(got is not None and any(isinstance(x, ast.Name) and x.id in der for x in ast.walk(got)) and not (isinstance(got, ast.Name) and got.id in others), rel, k, q, f'{q}: `{n}(...)` receives `{p}` as its `{p}`',
                      f'`{n}`\'s parameter `{p}` gets {"`" + norm(got) + "`" if got is not None else "its default"}: refusals (or sites) are computed for another `{p}` than the one asked about, '
                      'so a loop the rewrite declines is neither listed nor explained')


def t1_wiring(ctx: Ctx):
    repo = ctx.repo
    forwarded: set = set()
    from ..tables import module_dict
    sites = module_dict(repo, SITES, '_SITES')
    refs = module_dict(repo, SITES, '_REFUSALS')
    site_rows = {norm(k): v for k, v in zip(sites.keys, sites.values)}
    ref_rows = {norm(k): v for k, v in zip(refs.keys, refs.values)}
    for table, rows, attr in (('_SITES', site_rows, 'sites'), ('_REFUSALS', ref_rows, 'refusals')):
        for strat, val in rows.items():
            rel, fn, ks = _strategy_transform(ctx, strat)
            classes = {dotted(k.func.value) for k in ks}  # type: ignore
            want = {f'{c}.{attr}' for c in classes}
            ctx.check(len(classes) == 1 and norm(val) in want, SITES, val, table, f'{table}[{strat}] = {norm(val)}',
                      f'`{strat}` runs {sorted(c or "?" for c in classes)}.apply_with_edits, so its {attr} are {sorted(want)}: '
                      'a listing from another transform numbers different candidates')
            # the class resolves to the same definition from both modules
            if len(classes) == 1:
                c = classes.pop() or ''
                a, b = repo.resolve(rel, c), repo.resolve(SITES, c)
                same = a is not None and a == b
                ctx.check(same, SITES, val, table, f'{c} names one class in {rel} and {SITES}', 'the two modules import different classes under this name')
                cd = repo.defnode(a) if same else None
                if isinstance(cd, ast.ClassDef):
                    has = any(isinstance(s, ast.FunctionDef) and s.name == attr for s in cd.body)
                    ctx.check(has, a[0], cd, c, f'{c}.{attr} is defined', f'{c} has no `{attr}`')
                    # a listing is asked with the arguments the strategy is called with ("pass the same arguments the
                    # rewrite will get"): every parameter the two share accepts, in the lister, what the strategy accepts
                    lst = next((s for s in cd.body if isinstance(s, ast.FunctionDef) and s.name == attr), None)
                    if lst is not None and (a[0], c, attr) not in forwarded:
                        forwarded.add((a[0], c, attr))
                        _lister_forwards(ctx, a[0], c, lst)
                    if lst is not None:
                        # ... and with *all* of them: every keyword the strategy takes can be handed to the public listing.
                        # What the public function passes on (everything, or what its filter lets through -- evaluated from
                        # the filter's source with the two parameter lists read off the definitions) is accepted by the lister
                        # and includes every parameter the two share.
                        sparams = [p.arg for p in fn.args.args + fn.args.kwonlyargs if p.arg not in ('func', 'where')]
                        lparams = [p.arg for p in lst.args.args + lst.args.kwonlyargs]
                        pub = ctx.fn(SITES, attr)
                        pret = [s for s in walk_no_nested(pub) if isinstance(s, ast.Return) and isinstance(s.value, ast.Call) and dotted(s.value.func) == 'lister']
                        star = [kw.value for r_ in pret for kw in r_.value.keywords if kw.arg is None]
                        passed: set[str] | None = None
                        if len(pret) == 1 and not star:
                            passed = {'zzz'} if not any(p in lparams for p in sparams) else set()      # nothing is passed on
                        elif len(star) == 1 and norm(star[0]) == 'kwargs':
                            passed = set(sparams) | {'zzz'}
                        elif len(star) == 1 and isinstance(star[0], ast.Call) and repo.has_func(SITES, call_name(star[0]) or '') and [norm(a) for a in star[0].args] == ['strategy', 'lister', 'kwargs']:
                            from ..minipy import Interp, Obj
                            S_, L_ = Obj('strategy'), Obj('lister')
                            sig = {id(S_): ['func', 'where'] + sparams, id(L_): lparams}
                            it = Interp({n: f_ for n, f_ in repo.functions(SITES) if '.' not in n},
                                        overrides={'inspect.signature': lambda f_: Obj('Signature', parameters={k_: None for k_ in sig[id(f_)]})})
                            out = it.call_function(repo.func(SITES, call_name(star[0])), [S_, L_, {k_: 1 for k_ in sparams + ['zzz']}])
                            passed = set(out)
                        if passed is None:
                            raise ShapeError(f'{attr}(): what is passed on to the lister is not recognised')
                        refused = sorted(p for p in passed if p not in lparams and p != 'zzz') if lst.args.kwarg is None else []
                        dropped = sorted(p for p in sparams if p in lparams and p not in passed)
                        ctx.check(not refused and not dropped and 'zzz' in passed, SITES, val, table, f'{attr}({strat}, f, ...) takes every parameter of `{strat}` ({", ".join(sparams) or "none"})',
                                  (f'{norm(val)} is handed {refused}, which it does not take: TypeError instead of a listing (`sites(unroll_while, f, times=2)`)' if refused else
                                   f'{dropped} decide the listing and are not passed on' if dropped else 'a keyword neither of them knows is swallowed'))

                        def kinds(ann) -> set[str]:
                            return {n.id for n in ast.walk(ann) if isinstance(n, ast.Name)} - {'None'} if ann is not None else set()
                        sp = {p.arg: p.annotation for p in fn.args.args + fn.args.kwonlyargs}
                        for p in lst.args.args + lst.args.kwonlyargs:
                            if p.arg in ('func', 'within') or p.arg not in sp:
                                continue
                            missing = kinds(sp[p.arg]) - kinds(p.annotation)
                            # what the rewrite itself does not take in that form has to be converted on the way in
                            awe = next((s for s in cd.body if isinstance(s, ast.FunctionDef) and s.name == 'apply_with_edits'), None)
                            native = kinds(next((x.annotation for x in (awe.args.args + awe.args.kwonlyargs) if x.arg == p.arg), None)) if awe is not None else set()
                            helpers = [lst] + [g for q2, g in repo.functions(a[0]) if any(call_name(k) == q2 for k in calls_in(lst))]
                            for kind in sorted(kinds(sp[p.arg]) - native - missing):
                                conv = any(isinstance(s, ast.If) and norm(s.test) == f'isinstance({p.arg}, {kind})'
                                           and any(isinstance(x, ast.Assign) and norm(x.targets[0]) == p.arg for x in s.body)
                                           for g in helpers for s in ast.walk(g))
                                ctx.check(conv, a[0], lst, f'{c}.{attr}', f'{c}.{attr}: a {kind} `{p.arg}` is converted to the form the rewrite works on',
                                          f'`{strat}` turns its {kind} {p.arg} into a node before the rewrite sees it; the lister passes it on as it is')
                            ctx.check(not missing, a[0], p, f'{c}.{attr}', f'{c}.{attr}({p.arg}=..) accepts what `{strat}` is called with',
                                      f'`{strat}` takes {p.arg}: {norm(sp[p.arg]) if sp[p.arg] is not None else "?"}, the lister takes {norm(p.annotation) if p.annotation is not None else "?"}: '
                                      f'called with the strategy\'s own argument it does not recognise it, and lists sites the rewrite then refuses')
    # every aimable strategy (one taking `where`) is listable, and only those
    init = repo.module('fpy2/strategies/__init__.py')
    aimable = set()
    for st in init.tree.body:
        if isinstance(st, ast.ImportFrom) and st.level == 1 and st.module not in ('sites',) and st.module is not None:
            for al in st.names:
                res = repo.resolve('fpy2/strategies/__init__.py', al.asname or al.name)
                nd = repo.defnode(res) if res else None
                if isinstance(nd, ast.FunctionDef) and res[0].startswith('fpy2/strategies/') and 'where' in param_names(nd):
                    aimable.add(al.asname or al.name)
    ctx.check(aimable == set(site_rows), SITES, sites, '_SITES', 'every strategy that takes `where` is in _SITES, and nothing else',
              f'takes `where`: {sorted(aimable)}; listed: {sorted(site_rows)}')
    # a strategy explains refusals exactly when its visitor can refuse
    refusing = set()
    vs = {(v.rel, v.cls): v for v in site_visitors(ctx)}
    for strat in site_rows:
        rel, fn, ks = _strategy_transform(ctx, strat)
        c = dotted(ks[0].func.value) if ks else None  # type: ignore
        res = repo.resolve(rel, c) if c else None
        if not res:
            raise ShapeError(f'{strat}: transform class not resolved')
        inst = _instance_classes(ctx, res[0], repo.defnode(res))
        can_refuse = False
        for (vrel, vcls), v in vs.items():
            if any(repo.is_subclass(res[0], i, vrel, vcls) for i in inst):
                can_refuse = can_refuse or bool(v.ev['REF'])
        if can_refuse:
            refusing.add(strat)
    ctx.check(refusing == set(ref_rows), SITES, refs, '_REFUSALS', 'a strategy is in _REFUSALS exactly when its rewriter can refuse a candidate',
              f'can refuse: {sorted(refusing)}; explained: {sorted(ref_rows)}: an unexplained refusal is a considered point that is neither listed nor explained')
    # the public `sites` / `refusals` consult these tables with the strategy and forward `within` through `rebase`
    for name, table in (('sites', '_SITES'), ('refusals', '_REFUSALS')):
        f = ctx.fn(SITES, name)
        rets = [s for s in walk_no_nested(f) if isinstance(s, ast.Return) and isinstance(s.value, ast.Call) and dotted(s.value.func) == 'lister']
        good = len(rets) == 1 and [norm(a) for a in rets[0].value.args] in (['func.ast', 'func.rebase(within)'], ['func.ast', 'within']) \
            and any(kw.arg is None and (norm(kw.value) == 'kwargs' or (isinstance(kw.value, ast.Call) and [norm(a) for a in kw.value.args] == ['strategy', 'lister', 'kwargs']))
                    for kw in rets[0].value.keywords)
        ctx.check(good, SITES, f, name, f'{name}() calls the lister on (func.ast, <within>, **kwargs) -- the keywords as given, or through the filter decided above',
                  'the listing is not taken on this program with the arguments that decide its sites')
        gets = [k for k in calls_in(f) if call_name(k) == f'{table}.get' and [norm(a) for a in k.args] == ['strategy']]
        ctx.check(len(gets) == 1, SITES, f, name, f'{name}() looks `strategy` up in {table}', 'the lister is not the one registered for the strategy')


def _instance_classes(ctx: Ctx, rel: str, cdef: ast.AST) -> set[str]:
    """Rewriter classes (SiteRewriter subclasses) a transform class instantiates, through module-level helpers."""
    repo = ctx.repo
    out: set[str] = set()
    seen: set[str] = set()

    def scan(node: ast.AST):
        for k in calls_in(node):
            n = call_name(k) or ''
            if '.' in n or n in seen:
                continue
            seen.add(n)
            if repo.has_cls(rel, n) and repo.is_subclass(rel, n, UTILS, 'SiteRewriter'):
                out.add(n)
            elif repo.has_func(rel, n):
                scan(repo.func(rel, n))
    scan(cdef)
    return out


# ----------------------------------------------------------------------
# P4: every aimed `apply_with_edits` brackets the walk with check_where / check_site and
# reports the edits of the walk it ran; listing and rewriting use one rewriter class

def _transform_classes(ctx: Ctx) -> list[tuple[str, str, ast.ClassDef]]:
    out = []
    seen = set()
    from ..tables import module_dict
    for k, v in zip(*(lambda d: (d.keys, d.values))(module_dict(ctx.repo, SITES, '_SITES'))):
        c = dotted(v.value) if isinstance(v, ast.Attribute) else None
        res = ctx.repo.resolve(SITES, c) if c else None
        cd = ctx.repo.defnode(res) if res else None
        if not isinstance(cd, ast.ClassDef):
            raise ShapeError(f'_SITES value {norm(v)} does not resolve to a class')
        if (res[0], c) not in seen:
            seen.add((res[0], c))
            out.append((res[0], c, cd))
    return out


def p4_bracket(ctx: Ctx):
    repo = ctx.repo
    for rel, cname, cdef in _transform_classes(ctx):
        meths = {s.name: s for s in cdef.body if isinstance(s, ast.FunctionDef)}
        awe = meths.get('apply_with_edits')
        if awe is None:
            raise ShapeError(f'{cname} has no apply_with_edits')
        q = f'{cname}.apply_with_edits'
        ctx.functions_analysed.add((rel, q))
        cfg = CFG(awe)
        rewriters = _instance_classes(ctx, rel, awe)
        # constructions that receive `where`
        aimed = []
        for n in cfg.nodes:
            for k in _calls(n):
                if (call_name(k) or '') in rewriters and (any(norm(a) == 'where' for a in k.args) or any(norm(kw.value) == 'where' for kw in k.keywords)):
                    aimed.append((n, k))
        ctx.check(bool(aimed), rel, awe, q, '`where` is handed to the rewriter', 'no rewriter construction receives `where`: every aim would rewrite everything')
        cw = [n for n in cfg.nodes if any(call_name(k) == 'check_where' and [norm(a) for a in k.args] == ['where'] for k in _calls(n))]
        for n, k in aimed:
            p = find_path(cfg, cfg.entry, n, avoid=lambda x: x in cw)
            ctx.check(bool(cw) and p is None, rel, k, q, f'check_where(where) precedes {norm(k)[:60]}',
                      'a `where` of the wrong kind (a bool, a string) reaches the walk', path=describe_path(p, rel) if p else None)
            # the walk result is returned only after check_site on the same rewriter
            var = _bound_name(awe, k)
            cs = [x for x in cfg.nodes if any(call_name(c) == f'{var}.check_site' for c in _calls(x))]
            ap = [x for x in cfg.nodes if any(call_name(c) == f'{var}.apply' for c in _calls(x))]
            bad = None
            for r in cfg.returns():
                if find_path(cfg, n, r) is None:
                    continue
                p = find_path(cfg, n, r, avoid=lambda x: x in cs)
                if p is not None:
                    bad = p
                    break
            ctx.check(bool(var) and bool(cs) and bad is None, rel, k, q, f'{var}.check_site(...) runs on every path from the aimed walk to the result',
                      'an index out of range, or a cursor naming no candidate, returns silently with nothing rewritten',
                      path=describe_path(bad, rel) if bad else None)
            for c in cs:
                p = find_path(cfg, n, c, avoid=lambda x: x in ap)
                ctx.check(bool(ap) and p is None, rel, c.ast, q, f'{var}.check_site reads the counters of a finished walk',
                          'check_site runs before the walk: `site_idx` is still 0, so every index is rejected', path=describe_path(p, rel) if p else None)
            # the log reports this walk's edits against this program
            for r in cfg.returns():
                if find_path(cfg, n, r) is None:
                    continue
                v = r.ast.value  # type: ignore
                if isinstance(v, ast.Call) and call_name(v) == 'EditLog':
                    src_ok = len(v.args) >= 3 and norm(v.args[0]) == 'func'
                    edits_ok = len(v.args) >= 3 and norm(v.args[2]) == f'tuple({var}.edits)'
                    ctx.check(src_ok and edits_ok, rel, v, q, f'the log is EditLog(func, <result>, tuple({var}.edits), ...)',
                              f'got {norm(v)[:120]}: cursors would be forwarded by edits of another walk or against another source')
                else:
                    ctx.bad(rel, r.ast, q, norm(r.ast), 'the aimed walk does not return an EditLog')
        # ... and no result leaves apply_with_edits ahead of the aimed walk either: a shortcut return ("nothing to do
        # here") answers before anybody asked whether `where` names a site, so every index is accepted
        cs_any = [x for x in cfg.nodes if any((call_name(c) or '').endswith('.check_site') for c in _calls(x))]
        from ..dataflow import guards_of, parent_map
        pm_awe = parent_map(awe)
        for r in cfg.returns():
            unaimed = any(arm == 'then' and 'where is None' in norm(g).replace('(', '').replace(')', '').split(' or ')[0] and ' or ' not in norm(g)
                          for g, arm in guards_of(awe, r.ast, pm_awe))
            if unaimed:
                continue            # taken only when nothing is aimed at: there is no `where` to validate
            p = find_path(cfg, cfg.entry, r, avoid=lambda x: x in cs_any)
            ctx.check(p is None, rel, r.ast, q, f'`{norm(r.ast)[:60]}` is reached only through check_site',
                      'a result is returned without validating `where`: for a function with no candidate, `where=0`, `where=1`, a cursor ... are all accepted and return the program unchanged',
                      path=describe_path(p, rel) if p else None)
        # listing and rewriting construct the same rewriter class, and hand over `within`
        for m, lister in (('sites', 'list_sites'), ('refusals', 'list_refusals')):
            f = meths.get(m)
            if f is None:
                continue
            ctx.functions_analysed.add((rel, f'{cname}.{m}'))
            rets = [s for s in walk_no_nested(f) if isinstance(s, ast.Return)]
            if len(rets) == 1 and isinstance(rets[0].value, ast.Call) and call_name(rets[0].value) == 'stmt_sites':
                # predicate listing: accounted for by C19.P5 below
                continue
            ok = len(rets) == 1 and isinstance(rets[0].value, ast.Call) and isinstance(rets[0].value.func, ast.Attribute) \
                and rets[0].value.func.attr == lister and [norm(a) for a in rets[0].value.args] == ['within']
            ctx.check(ok, rel, f, f'{cname}.{m}', f'{cname}.{m} returns <rewriter>.{lister}(within)', f'got {[norm(r) for r in rets]}')
            lc = _instance_classes(ctx, rel, f)
            ctx.check(lc == rewriters and len(lc) == 1, rel, f, f'{cname}.{m}', f'{cname}.{m} walks with the rewriter apply_with_edits uses ({sorted(rewriters)})',
                      f'{m} walks with {sorted(lc)}: the listing and the rewrite can disagree about what a site is')


def _bound_name(fn: ast.FunctionDef, k: ast.Call) -> str:
    for st in ast.walk(fn):
        if isinstance(st, ast.Assign) and st.value is k and len(st.targets) == 1 and isinstance(st.targets[0], ast.Name):
            return st.targets[0].id
    return ''


# ----------------------------------------------------------------------
# X1 / S1: paths cover every child of every node, in the order the visitors reach them

ARG_PROPS = {'arg': 'args', 'first': 'args', 'second': 'args', 'third': 'args'}


def _node_fields(L, name: str) -> dict[str, str]:
    out: dict[str, str] = {}
    for n in reversed([name] + L.ancestors(name)):
        c = L.classes.get(n)
        if c is None:
            continue
        for st in c.body:
            if isinstance(st, ast.AnnAssign) and isinstance(st.target, ast.Name):
                out[st.target.id] = ast.unparse(st.annotation)
    return out


def _typed(fields: dict[str, str], tyname: str) -> list[str]:
    import re
    return [f for f, t in fields.items() if re.search(rf'\b{tyname}\b', t)]


def _case_for(ctx: Ctx, fn: ast.FunctionDef, cls: str) -> Optional[ast.match_case]:
    ms = [s for s in walk_no_nested(fn) if isinstance(s, ast.Match)]
    if len(ms) != 1:
        raise ShapeError(f'{fn.name}: expected one match statement')
    for c in ms[0].cases:
        if pattern_matches(ctx.repo, PATH, c.pattern, Inst(cls)):
            return c
    return None


def _yielded(body: Iterable[ast.AST]) -> list[tuple[str, str]]:
    """(label, field) of every child `sub_exprs` hands out in a case arm, in source order:
    `('label', i, node.field)` tuples and `at('label', node.field)` calls."""
    found: list[tuple[int, int, str, str]] = []

    def fld(e: ast.AST) -> Optional[str]:
        for n in ast.walk(e):
            if isinstance(n, ast.Attribute) and isinstance(n.value, ast.Name) and n.value.id == 'node':
                return n.attr
        return None
    for st in body:
        for c in ast.walk(st):
            if isinstance(c, ast.Tuple) and len(c.elts) == 3 and isinstance(c.elts[0], ast.Constant) and isinstance(c.elts[0].value, str):
                f = fld(c.elts[2])
                if f:
                    found.append((c.lineno, c.col_offset, c.elts[0].value, f))
            if isinstance(c, ast.Call) and call_name(c) == 'at' and len(c.args) == 2 and isinstance(c.args[0], ast.Constant):
                f = fld(c.args[1])
                if f:
                    found.append((c.lineno, c.col_offset, c.args[0].value, f))
    return [(l, f) for _, _, l, f in sorted(found)]


def _attr_reads(body: Iterable[ast.AST], base: str) -> list[str]:
    """`base.X` attribute names in first-occurrence source order."""
    found: list[tuple[int, int, str]] = []
    for st in body:
        for n in ast.walk(st):
            if isinstance(n, ast.Attribute) and isinstance(n.value, ast.Name) and n.value.id == base:
                found.append((n.lineno, n.col_offset, n.attr))
    out: list[str] = []
    for _, _, a in sorted(found):
        if a not in out:
            out.append(a)
    return out


def _visitor_children(fn: ast.FunctionDef, node_param: str) -> tuple[list[str], list[str]]:
    """(expression fields, block fields) in the order the visitor method visits them."""
    ev: list[tuple[int, int, str, str]] = []
    for k in calls_in(fn):
        cn = call_name(k) or ''
        if cn not in ('self._visit_expr', 'self._visit_block') or not k.args:
            continue
        a0 = k.args[0]
        fld = None
        if isinstance(a0, ast.Attribute) and isinstance(a0.value, ast.Name) and a0.value.id == node_param:
            fld = a0.attr
        elif isinstance(a0, ast.Name):
            # the element of a comprehension / loop over `node.X`
            for comp in ast.walk(fn):
                gens = getattr(comp, 'generators', None)
                if gens and any(x is k for x in ast.walk(comp)):
                    for g in gens:
                        names = {x.id for x in ast.walk(g.target) if isinstance(x, ast.Name)}
                        if a0.id in names:
                            src = [x for x in ast.walk(g.iter) if isinstance(x, ast.Attribute) and isinstance(x.value, ast.Name) and x.value.id == node_param]
                            if src:
                                fld = src[0].attr
        elif isinstance(a0, ast.Subscript):
            x = a0.value
            if isinstance(x, ast.Attribute) and isinstance(x.value, ast.Name) and x.value.id == node_param:
                fld = x.attr
        if fld is None:
            continue
        ev.append((k.lineno, k.col_offset, 'e' if cn == 'self._visit_expr' else 'b', ARG_PROPS.get(fld, fld)))
    exprs: list[str] = []
    blocks: list[str] = []
    for _, _, kind, fld in sorted(ev):
        tgt = exprs if kind == 'e' else blocks
        if fld not in tgt:
            tgt.append(fld)
    return exprs, blocks


def x1_paths_exhaustive(ctx: Ctx):
    repo = ctx.repo
    L = lang(repo)
    sub_exprs = ctx.fn(PATH, 'sub_exprs')
    sub_blocks = ctx.fn(PATH, 'sub_blocks')
    mod = repo.module(PATH)
    lits: dict[str, set[str]] = {}
    for name in ('ExprField', 'BlockField'):
        node = mod.toplevel().get(name)
        val = getattr(node, 'value', None)
        if not (isinstance(val, ast.Subscript) and dotted(val.value) == 'Literal'):
            raise ShapeError(f'{name} is not a Literal[...]')
        elts = val.slice.elts if isinstance(val.slice, ast.Tuple) else [val.slice]
        lits[name] = {e.value for e in elts if isinstance(e, ast.Constant)}
    dtv = {}
    allm = repo.methods(VISITOR, 'DefaultTransformVisitor')
    for name, (_, _, f) in allm.items():
        # `_visit_round` delegates to `_visit_unaryop`: follow one-line forwards
        seen = set()
        while len(f.body) == 1 and isinstance(f.body[0], ast.Return) and isinstance(f.body[0].value, ast.Call) \
                and (call_name(f.body[0].value) or '').startswith('self._visit_') and f.name not in seen:
            seen.add(f.name)
            nxt = allm.get((call_name(f.body[0].value) or '')[5:])
            if nxt is None:
                break
            f = nxt[2]
        dtv[name] = f
    for base in ('Stmt', 'Expr'):
        for cls in L.concrete(base):
            fields = _node_fields(L, cls)
            want_e = _typed(fields, 'Expr')
            want_b = _typed(fields, 'StmtBlock')
            case = _case_for(ctx, sub_exprs, cls)
            wild = case is not None and isinstance(case.pattern, ast.MatchAs) and case.pattern.pattern is None
            labels = [] if case is None or wild else _yielded(case.body)
            got_e = []
            for _, t in labels:
                if t not in got_e:
                    got_e.append(t)
            ctx.check(set(got_e) == set(want_e), PATH, case or sub_exprs, 'sub_exprs', f'{cls}: expression children {sorted(want_e)}',
                      f'sub_exprs yields {sorted(got_e)}: an expression under `{sorted(set(want_e) - set(got_e))}` has no path, so a site there is never listed '
                      'and a cursor cannot name it')
            if base == 'Stmt':
                bcase = _case_for(ctx, sub_blocks, cls)
                bw = bcase is not None and isinstance(bcase.pattern, ast.MatchAs) and bcase.pattern.pattern is None
                got_b = [] if bcase is None or bw else _attr_reads(bcase.body, 'stmt')
                ctx.check(got_b == [f for f in got_b if f in want_b] and set(got_b) == set(want_b), PATH, bcase or sub_blocks, 'sub_blocks',
                          f'{cls}: blocks {sorted(want_b)}', f'sub_blocks yields {got_b}')
                # labels name the fields
                if bcase is not None and not bw:
                    bl = [c.value for n in bcase.body for c in ast.walk(n) if isinstance(c, ast.Constant) and isinstance(c.value, str)]
                    ctx.check(bl == got_b and set(bl) <= lits['BlockField'], PATH, bcase, 'sub_blocks', f'{cls}: each block is labelled with its own field name',
                              f'labels {bl} for fields {got_b}')
            if labels:
                pairs = sorted(set(labels))
                names = [l for l, _ in pairs]
                ctx.check(len(set(names)) == len(names) and set(names) <= lits['ExprField'] and all(l == t for l, t in pairs), PATH, case, 'sub_exprs',
                          f'{cls}: each child is labelled with its own field name and ExprField admits the label',
                          f'(label, field) pairs {pairs}; ExprField lacks {sorted(set(names) - lits["ExprField"])}')
            # S1: the order paths are walked in is the order the default visitor reaches the children in
            vm = L.visit_method(cls)
            vf = dtv.get(vm or '')
            if vf is None:
                raise ShapeError(f'no DefaultTransformVisitor method for {cls}')
            pn = [p for p in param_names(vf) if p not in ('self', 'ctx')]
            ve, vb = _visitor_children(vf, pn[0])
            ge = [ARG_PROPS.get(f, f) for f in got_e]
            ctx.check(ve == [x for x in ge if x in ve] and set(ve) <= set(ge), PATH, case or sub_exprs, 'sub_exprs', f'{cls}: children in visit order {ve} ({vm})',
                      f'sub_exprs walks {ge} but {vm} visits {ve}: the j-th listed expression site is not the one `where=j` counts')
            if base == 'Stmt':
                ctx.check(vb == got_b, PATH, bcase or sub_blocks, 'sub_blocks', f'{cls}: blocks in visit order {vb} ({vm})',
                          f'sub_blocks walks {got_b} but {vm} visits {vb}')
                # a statement's own expressions come before its blocks
                order = [(k.lineno, k.col_offset, call_name(k)) for k in calls_in(vf) if call_name(k) in ('self._visit_expr', 'self._visit_block')]
                kinds = [c for _, _, c in sorted(order)]
                ctx.check('self._visit_expr' not in kinds[kinds.index('self._visit_block'):] if 'self._visit_block' in kinds else True, VISITOR, vf, f'DefaultTransformVisitor.{vm}',
                          f'{cls}: own expressions are visited before the nested blocks (the order walk_exprs lists them in)', f'visit order {kinds}')
    # the walkers: statement before its blocks, expression before its children
    ws = ctx.fn(PATH, 'walk_stmts')
    inner = [s for s in ws.body if isinstance(s, ast.FunctionDef)]
    ok = False
    if len(inner) == 1:
        loop = [s for s in inner[0].body if isinstance(s, ast.For)]
        if len(loop) == 1:
            kinds = ['yield' if isinstance(s, ast.Expr) and isinstance(s.value, ast.Yield) else 'descend' if isinstance(s, ast.For) else 'other' for s in loop[0].body]
            ok = [k for k in kinds if k != 'other'] == ['yield', 'descend'] and 'enumerate(block.stmts)' in norm(loop[0].iter)
    ctx.check(ok, PATH, ws, 'walk_stmts', 'walk_stmts yields a statement, then descends into its blocks, in block order', 'the statement walk is not pre-order')
    we = ctx.fn(PATH, 'walk_exprs')
    inner = [s for s in we.body if isinstance(s, ast.FunctionDef)]
    ok = False
    if len(inner) == 1:
        kinds = ['yield' if isinstance(s, ast.Expr) and isinstance(s.value, ast.Yield) else 'descend' if isinstance(s, ast.For) else 'other' for s in inner[0].body]
        ok = [k for k in kinds if k != 'other'] == ['yield', 'descend']
    ctx.check(ok, PATH, we, 'walk_exprs', 'walk_exprs yields an expression before the expressions it holds', 'the expression walk is not pre-order')
    # overriding visit methods of the expression-sited rewriters keep the child order
    for v in site_visitors(ctx):
        meths = repo.methods(v.rel, v.cls, inherited=False)
        is_expr_sited = any(k in ('self._selects_expr',) for _, c in v.select_calls() for k in [call_name(c)])
        if not is_expr_sited:
            continue
        for name, (_, _, f) in meths.items():
            if not name.startswith('_visit_') or name not in dtv or f is v.fn:
                continue
            pn = [p for p in param_names(f) if p not in ('self', 'ctx')]
            if not pn:
                continue
            oe, _ = _visitor_children(f, pn[0])
            de, _ = _visitor_children(dtv[name], [p for p in param_names(dtv[name]) if p not in ('self', 'ctx')][0])
            if not oe:
                continue
            ctx.check(oe == [x for x in de if x in oe], v.rel, f, f'{v.cls}.{name}', f'{v.cls}.{name} visits {oe} in the default order {de}',
                      f'visits {oe}, the default visitor {de}: indices counted here disagree with the listing order of walk_exprs')


# ----------------------------------------------------------------------
# a small evaluator over integers, None, booleans and opaque tokens: the forwarding
# code touches its operands only through comparisons and +/-, so a finite grid of
# values exercises every ordering

class _Stop(Exception):
    def __init__(self, kind: str, node: Optional[ast.AST]):
        self.kind, self.node = kind, node


def ieval(e: ast.AST, env: dict[str, Any]) -> Any:
    key = ast.unparse(e)
    if key in env:
        return env[key]
    if isinstance(e, ast.Constant):
        return e.value
    if isinstance(e, ast.BinOp) and isinstance(e.op, (ast.Add, ast.Sub, ast.Mult)):
        a, b = ieval(e.left, env), ieval(e.right, env)
        return a + b if isinstance(e.op, ast.Add) else a - b if isinstance(e.op, ast.Sub) else a * b
    if isinstance(e, ast.UnaryOp) and isinstance(e.op, ast.Not):
        return not ieval(e.operand, env)
    if isinstance(e, ast.UnaryOp) and isinstance(e.op, ast.USub):
        return -ieval(e.operand, env)
    if isinstance(e, ast.BoolOp):
        if isinstance(e.op, ast.And):
            v: Any = True
            for x in e.values:
                v = ieval(x, env)
                if not v:
                    return v
            return v
        v = False
        for x in e.values:
            v = ieval(x, env)
            if v:
                return v
        return v
    if isinstance(e, ast.Compare):
        left = ieval(e.left, env)
        for op, c in zip(e.ops, e.comparators):
            right = ieval(c, env)
            r = {ast.Lt: lambda a, b: a < b, ast.LtE: lambda a, b: a <= b, ast.Gt: lambda a, b: a > b, ast.GtE: lambda a, b: a >= b,
                 ast.Eq: lambda a, b: a == b, ast.NotEq: lambda a, b: a != b, ast.Is: lambda a, b: a is b or (a == b and isinstance(a, (str, int, bool, type(None)))),
                 ast.IsNot: lambda a, b: not (a is b or (a == b and isinstance(a, (str, int, bool, type(None))))),
                 ast.In: lambda a, b: a in b, ast.NotIn: lambda a, b: a not in b}.get(type(op))
            if r is None:
                raise ShapeError(f'comparison {ast.unparse(e)} not evaluable')
            if not r(left, right):
                return False
            left = right
        return True
    if isinstance(e, ast.IfExp):
        return ieval(e.body if ieval(e.test, env) else e.orelse, env)
    if isinstance(e, ast.Tuple):
        return tuple(ieval(x, env) for x in e.elts)
    if isinstance(e, ast.Call) and call_name(e) == 'range' and len(e.args) == 2:
        return range(ieval(e.args[0], env), ieval(e.args[1], env))
    raise ShapeError(f'`{key}` is not evaluable from the table inputs {sorted(env)}')


def run_block(stmts: list[ast.stmt], env: dict[str, Any]) -> None:
    """Executes if / assignment / augmented assignment over `env`; leaves through _Stop."""
    for st in stmts:
        if isinstance(st, ast.Expr) and isinstance(st.value, ast.Constant) or isinstance(st, ast.Pass):
            continue
        if isinstance(st, ast.If):
            run_block(st.body if ieval(st.test, env) else st.orelse, env)
        elif isinstance(st, ast.Assign) and len(st.targets) == 1 and isinstance(st.targets[0], ast.Name):
            env[st.targets[0].id] = ieval(st.value, env)
        elif isinstance(st, ast.AugAssign) and isinstance(st.target, ast.Name) and isinstance(st.op, (ast.Add, ast.Sub)):
            d = ieval(st.value, env)
            env[st.target.id] = env[st.target.id] + d if isinstance(st.op, ast.Add) else env[st.target.id] - d
        elif isinstance(st, ast.Continue):
            raise _Stop('continue', st)
        elif isinstance(st, ast.Return):
            raise _Stop('return', st)
        elif isinstance(st, ast.Raise):
            raise _Stop('raise', st)
        else:
            raise ShapeError(f'statement `{norm(st)}` in a decision table')


def outcome(stmts: list[ast.stmt], env: dict[str, Any]) -> tuple[str, Optional[ast.AST]]:
    try:
        run_block(stmts, env)
    except _Stop as s:
        return s.kind, s.node
    return 'fall', None


def _raised(node: Optional[ast.AST]) -> str:
    exc = getattr(node, 'exc', None)
    if isinstance(exc, ast.Call):
        return call_name(exc) or ''
    return norm(exc) if exc is not None else ''


# ----------------------------------------------------------------------
# T2: forwarding tables

def t2_forwarding(ctx: Ctx):
    # (a) _forward_stmt: one edit against one statement, every ordering
    q = '_forward_stmt'
    fn = ctx.fn(CURSOR, q)
    loops = [s for s in fn.body if isinstance(s, ast.For)]
    if len(loops) != 1 or norm(loops[0].iter) != 'edits' or not isinstance(loops[0].target, ast.Name):
        raise ShapeError('_forward_stmt: edit loop not found')
    ev = loops[0].target.id
    bad = None
    n_cases = 0
    for same in (True, False):
        for p in range(0, 5):
            for i in range(0, 5):
                for r in range(0, 4):
                    for n in range(0, 4):
                        env = {'path.index': p, f'{ev}.index': i, f'{ev}.removed': r, f'{ev}.inserted': n, f'{ev}.block_path': 'B',
                               'path.parent': 'B' if same else 'C', 'shift': 0, 'containing': None, ev: 'EDIT',
                               f'{ev}.span': range(i, i + r)}
                        outcome(loops[0].body, env)
                        want_shift = (n - r) if same and p >= i + r else 0
                        want_cont = 'EDIT' if same and i <= p < i + r else None
                        n_cases += 1
                        if (env['shift'], env['containing']) != (want_shift, want_cont) and bad is None:
                            bad = (f'statement {p}, edit at {i} removing {r} inserting {n}, {"same" if same else "another"} block: '
                                   f'shift {env["shift"]} containing {env["containing"]}; expected shift {want_shift} containing {want_cont}')
    ctx.check(bad is None, CURSOR, loops[0], q, f'an edit shifts exactly the later statements of its own block by inserted - removed and contains those it consumed ({n_cases} orderings)',
              bad or '')
    tail = fn.body[fn.body.index(loops[0]) + 1:]
    bad = None
    for cont in (None, 'EDIT'):
        for s in (-2, 0, 3):
            env = {'containing': cont, 'containing.index': 7, 'path.index': 11, 'shift': s, 'block': 'BLK'}
            kind, node = outcome(tail, env)
            val = ieval(node.value, env) if kind == 'return' else None  # type: ignore
            want = ('BLK', (7 if cont else 11) + s, cont)
            if val != want and bad is None:
                bad = f'containing={cont}, shift={s}: returns {val}, expected {want}'
    ctx.check(bad is None, CURSOR, fn, q, 'the image is the edit\'s start (or the statement\'s own index) plus the accumulated shift, with the edit that consumed it', bad or '')
    pre = fn.body[:fn.body.index(loops[0])]
    ctx.check(any(isinstance(s, ast.Assign) and norm(s) == 'block = _forward_block(path.parent, edits, leaf)' for s in pre), CURSOR, fn, q,
              'the enclosing block is forwarded first', 'the block path is not forwarded through the enclosing statements')

    # (b) _forward_block: a statement inside a rewritten one does not forward
    q = '_forward_block'
    fb = ctx.fn(CURSOR, q)
    m = [s for s in fb.body if isinstance(s, ast.Match)]
    arm = None
    if len(m) == 1:
        for c in m[0].cases:
            if isinstance(c.pattern, ast.MatchClass) and dotted(c.pattern.cls) == 'SubBlock':
                arm = c
    if arm is None:
        raise ShapeError('_forward_block: SubBlock arm not found')
    body = [s for s in arm.body if not (isinstance(s, ast.Assign) and isinstance(s.targets[0], ast.Tuple))]
    unpack = [s for s in arm.body if isinstance(s, ast.Assign) and isinstance(s.targets[0], ast.Tuple)]
    good = len(unpack) == 1 and norm(unpack[0].value) == '_forward_stmt(parent, edits, leaf)' and len(unpack[0].targets[0].elts) == 3
    names = [norm(x) for x in unpack[0].targets[0].elts] if good else ['', '', '']
    k1, n1 = outcome(body, {names[2]: 'EDIT', f'{names[2]}.inserted': 1, f'{names[2]}.removed': 1})
    k2, n2 = outcome(body, {names[2]: None, f'SubBlock(StmtPath({names[0]}, {names[1]}), field)': 'OK'})
    ctx.check(good and k1 == 'raise' and _raised(n1) == 'TransformReferenceError', CURSOR, arm.pattern, q,
              'a block inside a rewritten statement raises a reference error', f'outcome {k1} {_raised(n1)}: a cursor under a rebuilt statement would resolve to whatever sits at its old path')
    ctx.check(good and k2 == 'return' and norm(n2.value) == f'SubBlock(StmtPath({names[0]}, {names[1]}), field)', CURSOR, arm.pattern, q,  # type: ignore
              'otherwise the block hangs off the forwarded statement, same field', f'outcome {k2} {norm(n2) if n2 is not None else None}')

    # (c) EditLog.forward dispatch
    q = 'EditLog.forward'
    ff = ctx.fn(CURSOR, q)
    unpack = [s for s in ff.body if isinstance(s, ast.Assign) and isinstance(s.targets[0], ast.Tuple)]
    if len(unpack) != 1 or norm(unpack[0].value) != '_forward_stmt(cursor.path, self.edits, cursor.path)':
        raise ShapeError('EditLog.forward: _forward_stmt call not found')
    bn, xn, en = [norm(x) for x in unpack[0].targets[0].elts]
    tail = ff.body[ff.body.index(unpack[0]) + 1:]
    rows = []
    for edit, ins in ((None, 0), ('E', 1), ('E', 0), ('E', 2), ('E', 5)):
        env: dict[str, Any] = {en: edit, f'{en}.inserted': ins, xn: 4}
        # constructor calls are opaque results
        for s in ast.walk(ast.Module(body=tail, type_ignores=[])):
            if isinstance(s, ast.Return) and isinstance(s.value, ast.Call):
                env[ast.unparse(s.value)] = ('CALL', s.value)
        kind, node = outcome(tail, env)
        rows.append((edit, ins, kind, node))
    for edit, ins, kind, node in rows:
        label = f'edit={edit} inserted={ins}'
        if edit is None or ins == 1:
            v = node.value if kind == 'return' else None  # type: ignore
            good = isinstance(v, ast.Call) and call_name(v) == 'StmtCursor' and [norm(a) for a in v.args] == ['self.result', f'StmtPath({bn}, {xn})']
            ctx.check(good, CURSOR, node or ff, q, f'{label}: the statement at its forwarded path in the result program',
                      f'got {kind} {norm(node) if node is not None else ""}')
        elif ins == 0:
            ctx.check(kind == 'raise' and _raised(node) == 'TransformReferenceError', CURSOR, node or ff, q, f'{label}: a deleted statement raises a reference error',
                      f'got {kind} {norm(node) if node is not None else ""}')
        else:
            v = node.value if kind == 'return' else None  # type: ignore
            good = isinstance(v, ast.Call) and call_name(v) == 'BlockCursor' and [norm(a) for a in v.args][:2] == ['self.result', bn] and len(v.args) == 3
            if good:
                rng = v.args[2]
                good = isinstance(rng, ast.Call) and call_name(rng) == 'range' and len(rng.args) == 2 and \
                    ieval(rng.args[0], {xn: 4, f'{en}.inserted': ins}) == 4 and ieval(rng.args[1], {xn: 4, f'{en}.inserted': ins}) == 4 + ins
            ctx.check(good, CURSOR, node or ff, q, f'{label}: the region of the {ins} statements that replaced it',
                      f'got {kind} {norm(node) if node is not None else ""}')
    head = ff.body[:ff.body.index(unpack[0])]
    guards = [s for s in head if isinstance(s, ast.If)]
    foreign = [g for g in guards if norm(g.test) in ('cursor.func is not self.source', 'self.source is not cursor.func') and isinstance(g.body[0], ast.Raise)
               and _raised(g.body[0]) == 'TransformReferenceError']
    ctx.check(len(foreign) == 1, CURSOR, ff, q, 'a cursor of another program raises a reference error', 'no such guard before the path arithmetic')

    # (d) _forward_expr: every stale case raises
    q = 'EditLog._forward_expr'
    fe = ctx.fn(CURSOR, q)
    unpack = [s for s in fe.body if isinstance(s, ast.Assign) and isinstance(s.targets[0], ast.Tuple)]
    if len(unpack) != 1:
        raise ShapeError('_forward_expr: _forward_stmt call not found')
    bn, xn, en = [norm(x) for x in unpack[0].targets[0].elts]
    body = [s for s in fe.body if s is not unpack[0]]
    import itertools
    for foreign_, preserved, dirty, edit in itertools.product((False, True), (True, False), (False, True), (None, 'E')):
        env = {'cursor.func is not self.source': foreign_, 'self.exprs_preserved': preserved, 'stmt in self.exprs_rewritten': dirty, en: edit,
               'cursor.path.stmt()': 'S'}
        for s in ast.walk(fe):
            if isinstance(s, ast.Return) and s.value is not None:
                env[ast.unparse(s.value)] = 'RET'
        kind, node = outcome(body, env)
        stale = foreign_ or not preserved or dirty or edit is not None
        label = f'other program={foreign_} exprs_preserved={preserved} statement dirty={dirty} statement replaced={edit is not None}'
        if stale:
            ctx.check(kind == 'raise' and _raised(node) == 'TransformReferenceError', CURSOR, node or fe, q, f'{label}: reference error',
                      f'got {kind}: an expression cursor would resolve into rewritten expressions')
        else:
            v = node.value if kind == 'return' else None  # type: ignore
            ctx.check(v is not None and norm(v) == f'ExprCursor(self.result, rebase_expr(cursor.path, StmtPath({bn}, {xn})))', CURSOR, node or fe, q,
                      f'{label}: the same expression path under the forwarded statement', f'got {kind} {norm(v) if v is not None else ""}')

    # (e) Function.forward / with_ast / with_edits / with_rt
    q = 'Function.forward'
    f = ctx.fn(FUNCTION, q)
    loops = [s for s in f.body if isinstance(s, ast.For)]
    whiles = [s for s in f.body if isinstance(s, ast.While)]
    good = len(loops) == 1 and len(whiles) == 1
    if not good:
        raise ShapeError('Function.forward: expected one while and one for loop')
    w, lp = whiles[0], loops[0]
    ctx.check(norm(w.test) in ('f is not None and f.ast is not cursor.func',) and [norm(s) for s in w.body] == ['logs.append(f.edits)', 'f = f.parent'], FUNCTION, w, q,
              'the walk collects each step\'s log from this program back to the cursor\'s own', f'got while {norm(w.test)}: {[norm(s) for s in w.body]}')
    between = f.body[f.body.index(w) + 1:f.body.index(lp)]
    g = [s for s in between if isinstance(s, ast.If) and norm(s.test) == 'f is None' and isinstance(s.body[0], ast.Raise) and _raised(s.body[0]) == 'TransformReferenceError']
    ctx.check(len(g) == 1, FUNCTION, f, q, 'a cursor of an unrelated program raises a reference error', 'no guard for a chain that never reaches the cursor\'s program')
    ctx.check(norm(lp.iter) == 'reversed(logs)', FUNCTION, lp, q, 'the logs are replayed oldest first', f'replayed as {norm(lp.iter)}')
    lv = norm(lp.target)
    k1, n1 = outcome(lp.body, {lv: None})
    ctx.check(k1 == 'raise' and _raised(n1) == 'TransformReferenceError', FUNCTION, lp, q, 'a step that reported no edits stops the walk with a reference error',
              f'got {k1}: the cursor would be assumed to survive a pass that did not say what it rewrote')
    fw = [s for s in lp.body if isinstance(s, ast.Assign) and norm(s) == f'out = {lv}.forward(out)']
    ctx.check(len(fw) == 1, FUNCTION, lp, q, 'each step forwards the image of the previous one', f'got {[norm(s) for s in lp.body]}')
    for name, want_kw, forbid in (('with_ast', {'parent': 'self'}, 'edits'), ('with_edits', {'parent': 'self', 'edits': 'log'}, None),
                                  ('with_rt', {'parent': 'self.parent', 'edits': 'self.edits'}, None)):
        fn2 = ctx.fn(FUNCTION, f'Function.{name}')
        rets = [s for s in walk_no_nested(fn2) if isinstance(s, ast.Return) and isinstance(s.value, ast.Call) and call_name(s.value) == 'Function']
        if len(rets) != 1:
            raise ShapeError(f'Function.{name}: constructor call not found')
        kws = {kw.arg: norm(kw.value) for kw in rets[0].value.keywords}
        good = all(kws.get(k) == v for k, v in want_kw.items()) and (forbid is None or forbid not in kws)
        ctx.check(good, FUNCTION, rets[0], f'Function.{name}', f'{name}: {want_kw}' + (f', no `{forbid}`' if forbid else ''), f'got {kws}')
    we = ctx.fn(FUNCTION, 'Function.with_edits')
    g = [s for s in we.body if isinstance(s, ast.If) and norm(s.test) == 'log.source is not self.ast' and isinstance(s.body[0], ast.Raise)]
    ctx.check(len(g) == 1, FUNCTION, we, 'Function.with_edits', 'a log taken from another program is rejected', 'no source check')
    rb = ctx.fn(FUNCTION, 'Function.rebase')
    k1, n1 = outcome([s for s in rb.body if isinstance(s, (ast.If, ast.Return))], {'isinstance(where, Cursor)': True, 'self.forward(where)': 'FWD'})
    k2, n2 = outcome([s for s in rb.body if isinstance(s, (ast.If, ast.Return))], {'isinstance(where, Cursor)': False, 'where': 'W'})
    ctx.check(k1 == 'return' and norm(n1.value) == 'self.forward(where)' and k2 == 'return' and norm(n2.value) == 'where', FUNCTION, rb, 'Function.rebase',  # type: ignore
              'a cursor is forwarded to this program, an index or None passes through', 'rebase does not forward cursors')

    # (f) check_site / check_where / _selects_at tables
    q = 'SiteRewriter.check_site'
    cs = ctx.fn(UTILS, q)
    body = [s for s in cs.body if not (isinstance(s, ast.Expr) and isinstance(s.value, ast.Constant))]

    def site(where, **kw):
        env = {'self.where': where, 'isinstance(where, int)': isinstance(where, int), 'self.site_idx': kw.get('k', 0), 'self.declined': kw.get('declined', []),
               'self.edits': kw.get('edits', []), 'self._matched': kw.get('matched', 0), 'self.refused': []}
        return outcome(body, env)
    k, n = site(None)
    ctx.check(k in ('return', 'fall'), UTILS, cs, q, 'where=None: nothing to check', f'got {k}')
    bad = None
    for kk in range(0, 4):
        for w in range(-2, 6):
            k, n = site(w, k=kk)
            want = 'ok' if 0 <= w < kk else 'TransformReferenceError'
            got = 'ok' if k in ('return', 'fall') else _raised(n)
            if got != want and bad is None:
                bad = f'where={w} with {kk} site(s): {got}, expected {want}'
    ctx.check(bad is None, UTILS, cs, q, 'an index is accepted exactly when 0 <= where < number of sites', bad or '')
    k, n = site('CUR', declined=['why'], edits=[], matched=0)
    ctx.check(k == 'raise' and _raised(n) == 'TransformDeclined', UTILS, n or cs, q, 'a cursor whose candidates all declined raises TransformDeclined with the reasons', f'got {k} {_raised(n)}')
    k, n = site('CUR', declined=[], edits=[], matched=0)
    ctx.check(k == 'raise' and _raised(n) == 'TransformReferenceError', UTILS, n or cs, q, 'a cursor naming no candidate raises a reference error', f'got {k} {_raised(n)}')
    k, n = site('CUR', declined=[], edits=['e'], matched=1)
    ctx.check(k in ('return', 'fall'), UTILS, cs, q, 'a cursor that matched a site passes', f'got {k} {_raised(n)}')

    q = 'SiteRewriter._selects_at'
    sa = ctx.fn(UTILS, q)
    body = [s for s in sa.body if not (isinstance(s, ast.Expr) and isinstance(s.value, ast.Constant))]
    bad = None
    for w in (None, 0, 1, 2):
        for idx in (0, 1, 2):
            k, n = outcome(body, {'self._target': None, 'self.where': w, 'idx': idx})
            got = ieval(n.value, {'self.where': w, 'idx': idx}) if k == 'return' else None  # type: ignore
            want = True if w is None else idx == w
            if got != want and bad is None:
                bad = f'where={w}, candidate {idx}: {got}, expected {want}'
    ctx.check(bad is None, UTILS, sa, q, 'no cursor: None selects every candidate, an index selects exactly the candidate with that index', bad or '')
    k, n = outcome(body, {'self._target': ('P', range(0, 1)), 'here': None})
    ctx.check(k == 'return' and isinstance(n.value, ast.Constant) and n.value.value is False, UTILS, sa, q,  # type: ignore
              'a cursor never selects a block the rewrite synthesised', f'got {k}')
    rets = [s for s in walk_no_nested(sa) if isinstance(s, ast.Return) and isinstance(s.value, ast.Call) and call_name(s.value) == 'all']
    good = len(rets) == 1 and 'beneath(StmtPath(here, p), path, span)' in norm(rets[0], 400) and 'range(pos, pos + count)' in norm(rets[0], 400)
    ctx.check(good, UTILS, sa, q, 'a cursor selects a candidate when every statement of it lies at or beneath the named region', 'region test changed')

    q = 'check_where'
    cw = ctx.fn(UTILS, q)
    body = [s for s in cw.body if not (isinstance(s, ast.Expr) and isinstance(s.value, ast.Constant))]
    for label, isb, isnone, ok, want in (('a bool', True, False, True, 'TypeError'), ('None', False, True, False, 'ok'), ('an int or a cursor', False, False, True, 'ok'),
                                         ('anything else', False, False, False, 'TypeError')):
        k, n = outcome(body, {'isinstance(where, bool)': isb, 'where is not None': not isnone, 'isinstance(where, (int, Cursor))': ok, 'where': None if isnone else 'W'})
        got = 'ok' if k in ('fall', 'return') else _raised(n)
        ctx.check(got == want, UTILS, cw, q, f'where is {label}: {want}', f'got {got}')


# ----------------------------------------------------------------------
# P5: edits are accounted per statement; prelude passes report what they prepend

def p5_edit_accounting(ctx: Ctx):
    q = 'SiteRewriter._visit_block'
    fn = ctx.fn(UTILS, q)
    loops = [s for s in fn.body if isinstance(s, ast.For)]
    if len(loops) != 1:
        raise ShapeError('SiteRewriter._visit_block: loop not found')
    lp = loops[0]
    cfg = CFG(body=lp.body)

    def node_of(pred):
        return [n for n in cfg.nodes if n.ast is not None and n.kind in ('stmt', 'test') and pred(n)]
    visit = node_of(lambda n: any(call_name(k) == 'self._visit_statement' for k in _calls(n)))
    rec = node_of(lambda n: any(call_name(k) == 'self._record' for k in _calls(n)))
    if len(visit) != 1 or len(rec) != 1:
        raise ShapeError('SiteRewriter._visit_block: visit / record not found')
    rk = [k for k in _calls(rec[0]) if call_name(k) == 'self._record'][0]
    site = node_of(lambda n: isinstance(n.ast, ast.Assign) and norm(n.ast.targets[0]) == 'self._site')
    tgt = norm(lp.target)
    good = norm(lp.iter) == 'enumerate(block.stmts)' and len(site) == 1 and norm(site[0].ast.value) == tgt.replace('pos', 'block, pos').replace(', stmt', '') \
        if tgt == '(pos, stmt)' else False
    ctx.check(good and find_path(cfg, site[0], visit[0]) is not None, UTILS, lp, q, '`_site` is the block and position of the statement about to be visited',
              f'loop over {norm(lp.iter)} sets _site = {norm(site[0].ast.value) if site else None}')
    reset = node_of(lambda n: isinstance(n.ast, ast.Assign) and norm(n.ast) == 'self._replaced = False')
    ctx.check(any(find_path(cfg, r, visit[0]) is not None for r in reset), UTILS, lp, q, '`_replaced` is cleared before each statement visit',
              'a rewrite flagged by an earlier statement would be attributed to this one')
    # the record: (block, pos, growth of the output across the visit including the returned statement)
    test = [n for n in cfg.nodes_of('test') if dotted(n.ast) == 'self._replaced']
    guarded = len(test) == 1 and find_path(cfg, test[0], rec[0], edge_ok=lambda n, lab: not (n is test[0] and lab is True)) is None
    ctx.check(guarded, UTILS, rec[0].ast, q, 'an edit is recorded exactly when the visitor flagged a replacement', 'the record is not under `if self._replaced`')
    defs = {n.ast.targets[0].id: n for n in cfg.nodes if n.kind == 'stmt' and isinstance(n.ast, ast.Assign) and isinstance(n.ast.targets[0], ast.Name)}
    cnt = _linear(rk.args[2]) if len(rk.args) >= 3 else None
    out_name = None
    ok = False
    if cnt is not None:
        for b, dn in defs.items():
            v = dn.ast.value
            if isinstance(v, ast.Call) and call_name(v) == 'len' and cnt == {norm(v): 1, b: -1}:
                out_name = norm(v.args[0])
                app = node_of(lambda n: any(call_name(k) == f'{out_name}.append' for k in _calls(n)))
                ok = find_path(cfg, dn, visit[0]) is not None and len(app) == 1 and find_path(cfg, visit[0], app[0]) is not None \
                    and find_path(cfg, app[0], rec[0]) is not None and find_path(cfg, visit[0], dn) is None
    ctx.check(ok and [norm(a) for a in rk.args[:2]] == ['block', 'pos'], UTILS, rk, q,
              'the edit is (block, pos, statements emitted for this statement): the output length after appending the result minus the length before the visit',
              f'records {norm(rk)}')
    hands_out = any(norm(k.args[1]) == out_name for k in _calls(visit[0]) if call_name(k) == 'self._visit_statement' and len(k.args) == 2)
    ctx.check(hands_out, UTILS, visit[0].ast, q, 'the statement visitor emits into the very list whose growth is measured', f'visitor receives {norm(visit[0].ast)}')

    # _record_at: subsumption and field order
    q = 'SiteRewriter._record_at'
    ra = ctx.fn(UTILS, q)
    edit_fields = [s.target.id for s in ctx.repo.cls(CURSOR, 'Edit').body if isinstance(s, ast.AnnAssign) and isinstance(s.target, ast.Name)]
    ks = [k for k in calls_in(ra) if call_name(k) == 'Edit']
    want = {'block_path': 'path', 'index': 'pos', 'removed': 'removed', 'inserted': 'inserted'}
    good = len(ks) == 1 and edit_fields[:4] == list(want) and [norm(a) for a in ks[0].args] == [want[f] for f in edit_fields[:4]]
    ctx.check(good, UTILS, ks[0] if ks else ra, q, f'Edit{tuple(edit_fields[:4])} is built from (path, pos, removed, inserted)', f'got {norm(ks[0]) if ks else None} for fields {edit_fields}')
    sub = [s for s in walk_no_nested(ra) if isinstance(s, ast.If) and norm(s.test) == 'removed']
    good = len(sub) == 1 and 'beneath(e.block_path, path, replaced)' in norm(sub[0], 600) and 'range(pos, pos + removed)' in norm(sub[0], 600) \
        and 'if not beneath' in norm(sub[0], 600)
    ctx.check(good, UTILS, sub[0] if sub else ra, q, 'a replacement drops the edits recorded beneath the statements it replaces (the edits of one pass stay disjoint)',
              'subsumption changed: EditLog would reject the overlapping edits, or forward through a rebuilt statement')
    rr = ctx.fn(UTILS, 'SiteRewriter._record')
    ks = [k for k in calls_in(rr) if call_name(k) == 'self._record_at']
    good = len(ks) == 1 and [norm(a) for a in ks[0].args] == ['self._paths[id(block)]', 'pos', 'inserted'] and {kw.arg: norm(kw.value) for kw in ks[0].keywords} == {'removed': 'removed'}
    ctx.check(good, UTILS, rr, 'SiteRewriter._record', '_record resolves the block to its path in the source program and forwards (pos, inserted, removed)', f'got {[norm(k) for k in ks]}')
    bg = ctx.fn(UTILS, 'SiteRewriter._begin')
    good = any(norm(s) == 'self._paths = block_paths(func)' for s in bg.body) and any(norm(s) == 'self.site_idx = 0' for s in bg.body) \
        and any(norm(s) == 'self.edits = []' for s in bg.body) and any(norm(s) == 'self._matched = 0' for s in bg.body)
    ctx.check(good, UTILS, bg, 'SiteRewriter._begin', 'each walk starts from index 0, no edits, no matches, and the paths of the program it walks', 'a counter survives from an earlier walk')
    # rewriters that override `_visit_function` start the walk themselves
    for rel, cls, cdef in ctx.repo.subclasses(UTILS, 'SiteRewriter'):
        for s in cdef.body:
            if isinstance(s, ast.FunctionDef) and s.name == '_visit_function':
                calls = [call_name(k) for k in calls_in(s)]
                ok = 'self._begin' in calls or any(_is_super_visit(k) and k.func.attr == '_visit_function' for k in calls_in(s))  # type: ignore
                ctx.check(ok, rel, s, f'{cls}._visit_function', f'{cls}._visit_function resets the site counters (`_begin`)', 'a second walk would continue the previous numbering')

    # prelude passes: what is prepended is what is reported
    fve = ctx.fn('fpy2/transform/free_var_elim.py', 'FreeVarElim.apply_with_edits')
    ed = [k for k in calls_in(fve) if call_name(k) == 'Edit']
    nb = [s for s in walk_no_nested(fve) if isinstance(s, ast.Assign) and norm(s.targets[0]) == 'new_body']
    good = len(ed) == 1 and [norm(a) for a in ed[0].args] == ['FuncBody()', '0', '0', 'len(prelude)'] and len(nb) == 1 and norm(nb[0].value) == 'StmtBlock(prelude + list(func.body.stmts))'
    ctx.check(good, 'fpy2/transform/free_var_elim.py', ed[0] if ed else fve, 'FreeVarElim.apply_with_edits', 'the prelude of len(prelude) statements is reported as an insertion at body[0]',
              f'got {norm(ed[0]) if ed else None}; body {norm(nb[0].value) if nb else None}')
    lc = ctx.fn('fpy2/transform/lift_context.py', 'LiftContext.apply_with_edits')
    ed = [k for k in calls_in(lc) if call_name(k) == 'Edit']
    lifted = [s for s in walk_no_nested(lc) if isinstance(s, ast.Assign) and norm(s.targets[0]) == 'lifted']
    vf = ctx.fn('fpy2/transform/lift_context.py', '_ContextLifter._visit_function')
    per_item = [s for s in walk_no_nested(vf) if isinstance(s, ast.For) and norm(s.iter) == 'self.name_to_expr.items()'
                and len(s.body) == 1 and call_name(s.body[0].value) == 'stmts.append']  # type: ignore
    good = len(ed) == 1 and [norm(a) for a in ed[0].args] == ['FuncBody()', '0', '0', 'lifted'] and len(lifted) == 1 and norm(lifted[0].value) == 'len(lifter.name_to_expr)' \
        and len(per_item) == 1
    ctx.check(good, 'fpy2/transform/lift_context.py', ed[0] if ed else lc, 'LiftContext.apply_with_edits', 'one binding per lifted context is prepended and that many are reported at body[0]',
              f'got {norm(ed[0]) if ed else None}')
    logs = [k for k in calls_in(lc) if call_name(k) == 'EditLog']
    good = len(logs) == 1 and not any(kw.arg == 'exprs_preserved' and not (isinstance(kw.value, ast.Constant) and kw.value.value is False) for kw in logs[0].keywords)
    ctx.check(good, 'fpy2/transform/lift_context.py', logs[0] if logs else lc, 'LiftContext.apply_with_edits',
              'the pass replaces context expressions in place, so its log does not claim expressions were preserved', 'an expression cursor would forward into a replaced expression')
    # the predicate listing of WhileUnroll: every `while` takes an index, unconditionally
    for v in site_visitors(ctx):
        if v.ev['LISTING']:
            continue
        counts = count_on_paths(v.cfg, lambda n: 1 if n is v.inc else 0)
        bad = [r for r in v.cfg.returns() if counts.get(r.id) != frozenset([1])]
        ctx.check(not bad and not v.ev['REF'], v.rel, v.fn, v.q, 'a rewriter without a listing walk counts every node of its kind exactly once (so a predicate listing agrees with it)',
                  'some visit spends no index or the visitor can refuse: the `isinstance` listing would number differently')
        L = lang(ctx.repo)
        node_cls = [c for c in L.concrete('Stmt') + L.concrete('Expr') if L.visit_method(c) == v.fn.name]
        # the transform's `sites` lists exactly that node kind
        for rel, cname, cdef in _transform_classes(ctx):
            if rel != v.rel:
                continue
            sf = next((s for s in cdef.body if isinstance(s, ast.FunctionDef) and s.name == 'sites'), None)
            if sf is None:
                continue
            ks = [k for k in calls_in(sf) if call_name(k) == 'stmt_sites']
            good = len(ks) == 1 and len(ks[0].args) == 3 and isinstance(ks[0].args[1], ast.Lambda) and \
                any(norm(ks[0].args[1].body) == f'isinstance({ks[0].args[1].args.args[0].arg}, {c})' for c in node_cls) and norm(ks[0].args[0]) == 'func' and norm(ks[0].args[2]) == 'within'
            ctx.check(good, rel, sf, f'{cname}.sites', f'{cname}.sites lists the {node_cls} statements of func within `within`', f'got {[norm(k) for k in ks]}')


EXPLANATION = (
    'Structural decision over fpy2/transform (SiteRewriter, its 6 site visitors, cursor.py, path.py), fpy2/strategies/sites.py and '
    'fpy2/function.py (ast + per-function CFG; nothing is run). Decided: (P1) in every site visitor a refusal and the index increment never '
    'share a path, the selection test is handed the index read immediately before the increment, past the refusal decision every path refuses '
    'or spends an index, the refusal is recorded against the visited node; (P2) with the selection answering no, `_matched`, the listing and '
    'every edit record are unreachable; with it answering yes `_matched` is always advanced; the listing arm records the site and no edit; a '
    'rewritten result is always recorded (by the visitor, by SiteRewriter._visit_block through `_replaced`, or by the class\'s own growth '
    'accounting); (P3) the index is spent before any child is visited; (X1) sub_exprs / sub_blocks name every Expr / StmtBlock field of every '
    'concrete node class (from the class annotations), labelled by field name, in the order DefaultTransformVisitor and the overriding '
    'expression-sited rewriters visit them; walk_stmts / walk_exprs are pre-order; (T1) _SITES / _REFUSALS map each strategy to the sites / '
    'refusals of the very class whose apply_with_edits it calls, list exactly the strategies taking `where`, and _REFUSALS exactly those whose '
    'visitor can refuse; (P4) every aimed apply_with_edits runs check_where before the rewriter is built, check_site after its walk on every '
    'path to the result, and returns EditLog(func, result, tuple(<that rewriter>.edits)); sites / refusals walk with the same rewriter class; '
    '(T2) _forward_stmt evaluated over a grid of (statement index, edit index, removed, inserted, same / other block) against the documented '
    'shift, EditLog.forward / _forward_expr / _forward_block / Function.forward / rebase / with_ast / with_edits / with_rt, check_site, '
    'check_where and _selects_at as decision tables; (P5) SiteRewriter._visit_block records (block, pos, growth across the visit), _record_at '
    'builds Edit fields in order and drops subsumed edits, prelude passes report what they prepend, WhileUnroll\'s predicate listing agrees '
    'with its walk. NOT decided: what a rewrite emits, `beneath`, `_forward_region`, `_overlaps`, the rule-rewrite engine in fpy2/rewrite.'
)
ASSUMPTIONS = [
    'a rewriter\'s refusal decision depends only on the source program and its parameters, so the listing walk and the rewriting walk refuse the same candidates',
    '`beneath` and `block_paths` are right (not decided)',
    'the rule-rewrite engine (fpy2/rewrite) is outside this decision: it is aimed through find_all cursors, not through strategies.sites',
]

RULES = [
    Rule('C19.P1', 'a refusal spends no index; the selection sees the index just spent; every candidate is a site or a refusal', p1_index_protocol, 36, 'P'),
    Rule('C19.P2', 'only the selected candidate is matched, listed or rewritten; a listing rewrites nothing; a rewrite is recorded', p2_selection_protocol, 80, 'P'),
    Rule('C19.P3', 'site numbering is pre-order', p3_preorder, 6, 'P'),
    Rule('C19.X1', 'paths reach every expression and block of every node class, in visitor order', x1_paths_exhaustive, 380, 'X'),
    Rule('C19.T1', '_SITES / _REFUSALS name the transform each strategy runs', t1_wiring, 60, 'T'),
    Rule('C19.T2', 'forwarding, check_site, check_where and selection decide every ordering as documented', t2_forwarding, 49, 'T'),
    Rule('C19.P5', 'edits are accounted per statement; prelude passes report what they prepend; predicate listings agree with the walk', p5_edit_accounting, 15, 'P'),
    Rule('C19.G3', 'a whole-function decline of a rewrite is also a decline of each candidate, so that its listings agree with it', g3_whole_function_declines, 1, 'G'),
    Rule('C19.G2', 'inline: a call whose callee captures a name the caller binds (or captures differently) is a refusal, decided before the index is spent', g2_inline_captures, 7, 'G'),
    Rule('C19.G1', 'listing the sites of a rounding pass answers for an operation recorded under no scope (= C10.G2)', lambda ctx: __import__('sa.props.c10', fromlist=['g2_scopeless_operations']).g2_scopeless_operations(ctx), 8, 'G'),
    Rule('C19.P4', 'aimed apply_with_edits: check_where before, check_site after, own edits reported; one rewriter for listing and rewriting', p4_bracket, 80, 'P'),
]

from ..selftest import Mutant  # noqa: E402

T = 'fpy2/transform/'
FU, SL, WU, RI, FI = T + 'for_unroll.py', T + 'split_loop.py', T + 'while_unroll.py', T + 'round_insert.py', T + 'func_inline.py'

MUTANTS = [
    Mutant('whole-function-decline-unknown-to-the-listings', T + 'float_to_fixed.py', "        if self.alias is None:\n            # the whole-function precondition of `apply`, said of each block so\n            # that a listing does not count blocks no aim can rewrite\n            return Declined(\n                'the rewrite names a context constructor, and `fpy2` is not '\n                'in scope to name it by'\n            )\n", "", 'C19.G3',
           'finding F128 before its repair: sites(float_to_fixed, f) lists blocks every aim declines'),
    Mutant('listing-always-for-the-unflattened-callee', FI, "        None if funcs is None else set(funcs),\n        recursive=recursive,\n    )", "        None if funcs is None else set(funcs),\n        recursive=False,\n    )", 'C19.G2',
           'finding F136 before its repair: the listing looks at the callee alone, the rewrite flattens it'),
    Mutant('captured-name-clash-found-after-the-site-is-counted', FI, "            captures=self._captures(e),\n", "", 'C19.G2',
           'finding F127 before its repair: sites(inline, f) lists the call and inline(f, 0) raises RuntimeError'),
    Mutant('only-a-local-clash-is-refused', FI, "            if str(name) in self.func.env and not _same_captured(\n                self.func.env.get(str(name)), e.fn.env.get(str(name))\n            ):", "            if False:", 'C19.G2',
           'a name the two functions capture with different values still raises from inside the rewrite'),
    Mutant('other-refusals-mask-nothing-but-captures-dropped', FI, "    if captures is not None:\n        return captures\n    return reorders\n", "    return reorders\n", 'C19.G2'),
    Mutant('listing-handed-every-keyword-of-the-strategy', SITES, "    return lister(func.ast, func.rebase(within), **_listing_kwargs(strategy, lister, kwargs))\n\n\ndef refusals(", "    return lister(func.ast, func.rebase(within), **kwargs)\n\n\ndef refusals(", 'C19.T1',
           'finding F126 before its repair: sites(unroll_while, f, times=2) raises TypeError'),
    Mutant('listing-filter-drops-what-the-lister-takes', SITES, "    return { k: v for k, v in kwargs.items() if k in taken or k not in own }", "    return { k: v for k, v in kwargs.items() if k not in own }", 'C19.T1',
           'ctx, factor, strategy decide the listing'),
    Mutant('listing-filter-swallows-unknown-keywords', SITES, "    return { k: v for k, v in kwargs.items() if k in taken or k not in own }", "    return { k: v for k, v in kwargs.items() if k in taken }", 'C19.T1',
           'a misspelt keyword is silently ignored'),
    Mutant('leaf-function-returned-before-the-aim-is-checked', FI, "        cg = CallGraph.analyze(func)\n\n        if funcs is not None:", "        cg = CallGraph.analyze(func)\n        if not cg.call_sites[func]:\n            return EditLog(func, func, (), exprs_preserved=True)\n\n        if funcs is not None:", 'C19.P4',
           'seeded change C19e: inline(leaf, 3) returns the program unchanged instead of raising'),
    Mutant('zero-unroll-count-skips-the-listing', FU, "        if not aimed:\n            return super()._visit_for(stmt, ctx)\n        if self.listing:", "        if not (aimed and self.times > 0):\n            return super()._visit_for(stmt, ctx)\n        if self.listing:", 'C19.P2',
           'finding F94 before its repair: sites(unroll_for, f, times=0) is [] while every index below the loop count is accepted'),
    Mutant('refusals-for-the-default-times', FU, "        return _lister(func, times, strategy).list_refusals(within)", "        return _lister(func, 1, strategy).list_refusals(within)", 'C19.T1',
           'seeded change C19d: with times=2 a loop of length 4 is neither a site nor a refusal'),
    Mutant('lister-arguments-crossed', FU, "    return _ForUnroll(\n        func, None, times, strategy, ReachingDefs.analyze(func),", "    return _ForUnroll(\n        func, None, 1, strategy, ReachingDefs.analyze(func),", 'C19.T1',
           'the helper the listers share drops the parameter'),
    Mutant('sites-lister-positional-slip', FU, "        return _lister(func, times, strategy).list_sites(within)", "        return _lister(func, strategy, times).list_sites(within)", 'C19.T1'),
    Mutant('split-listing-takes-nodes-only', 'fpy2/transform/split_loop.py', "    if isinstance(factor, int):\n        factor = Integer(factor, None)\n    elif isinstance(factor, str):\n        factor = Var(NamedId(factor), None)\n    return _SplitLoop(", "    return _SplitLoop(", 'C19.T1',
           'finding F61 before its repair: sites(split, f, factor=3, strategy=STRICT) lists a loop the rewrite refuses'),
    Mutant('split-listing-annotation-narrowed', 'fpy2/transform/split_loop.py', "        factor: Expr | int | str | None = None,\n        strategy: SplitLoopStrategy = SplitLoopStrategy.PEEL,\n    ) -> list[Cursor]:",
           "        factor: Expr | None = None,\n        strategy: SplitLoopStrategy = SplitLoopStrategy.PEEL,\n    ) -> list[Cursor]:", 'C19.T1'),
    Mutant('for-iterable-hoist-loses-its-edit', RI, "    def _visit_for(self, stmt: ForStmt, ctx: Any):\n        return super()._visit_for(stmt, None)[0], ctx", "    def _visit_for(self, stmt: ForStmt, ctx: Any):\n        return super()._visit_for(stmt, ctx)[0], ctx", 'C19.P2',
           'seeded change C19b: a block inserted ahead of the loop with no edit recorded'),
    Mutant('with-header-hoist-loses-its-edit', RI, "    def _visit_context(self, stmt: ContextStmt, ctx: Any):\n        return super()._visit_context(stmt, None)[0], ctx", "    def _visit_context(self, stmt: ContextStmt, ctx: Any):\n        return super()._visit_context(stmt, ctx)[0], ctx", 'C19.P2'),
    # P1
    Mutant('refusal-falls-into-index', FU, "                self.declined.append(reason)\n            return super()._visit_for(stmt, ctx)\n\n        idx = self.site_idx",
           "                self.declined.append(reason)\n\n        idx = self.site_idx", 'C19.P1', 'a refused loop also takes an index'),
    Mutant('selection-sees-next-index', RI, "        if not self._selects_expr(e, idx):", "        if not self._selects_expr(e, self.site_idx):", 'C19.P1'),
    Mutant('refusal-against-rebuilt-node', FI, "            self.refused.append((e, reason))", "            self.refused.append((super()._visit_call(e, ctx), reason))", 'C19.P1',
           'list_refusals looks the node up by identity in the source program'),
    Mutant('candidate-neither-site-nor-refusal', FU, "        idx = self.site_idx\n        self.site_idx += 1\n        aimed",
           "        if self.times == 0:\n            return super()._visit_for(stmt, ctx)\n        idx = self.site_idx\n        self.site_idx += 1\n        aimed", 'C19.P1'),
    Mutant('probe-after-index', SL, "        if not self._selects(block, pos, idx):", "        if not self._selects(block, pos, -1):", 'C19.P1'),
    # P2
    Mutant('matched-before-selection', SL, "        if not self._selects(block, pos, idx):\n            return super()._visit_for(stmt, ctx)\n        self._matched += 1",
           "        self._matched += 1\n        if not self._selects(block, pos, idx):\n            return super()._visit_for(stmt, ctx)", 'C19.P2',
           'a cursor naming no loop passes check_site silently'),
    Mutant('listing-rewrites', RI, "            self.found_exprs.append(e)\n            return super()._visit_expr(e, ctx)\n\n        hoisted", "            self.found_exprs.append(e)\n\n        hoisted", 'C19.P2'),
    Mutant('rewrite-not-recorded', SL, "        self._replaced = True\n        ctx.extend(emitted[:-1])", "        ctx.extend(emitted[:-1])", 'C19.P2'),
    Mutant('inline-splice-not-recorded', FI, "                self._record(block, pos, spliced, removed=0)\n", "                pass\n", 'C19.P2'),
    Mutant('inline-splice-off-by-one', FI, "            spliced = len(block_ctx.stmts) - before - 1", "            spliced = len(block_ctx.stmts) - before", 'C19.P2'),
    Mutant('inline-splice-reordered-terms', FI, "            spliced = len(block_ctx.stmts) - before - 1", "            spliced = len(block_ctx.stmts) - 1 - before", 'C19.P2', expect='silent',
           why='the same count: the rule reads the expression as a linear form, not as text'),
    Mutant('listing-names-next-statement', T + 'utils.py', "                                    StmtPath(self._paths[id(block)], pos)\n", "                                    StmtPath(self._paths[id(block)], pos + 1)\n", 'C19.P2'),
    Mutant('unselected-loop-unrolled', WU, "        if self._selects(block, pos, idx):", "        if self._selects(block, pos, idx) or idx == 0:", 'C19.P2',
           'loop 0 is rewritten whatever index was asked for'),
    Mutant('block-rewrite-of-unselected', T + 'utils.py', "                        if self._selects(block, pos, idx):\n                            self._matched += 1",
           "                        if True:\n                            self._matched += 1", 'C19.P2'),
    # P3
    Mutant('children-numbered-first', WU, "        block, pos = self._site\n        idx = self.site_idx", "        block, pos = self._site\n        self._visit_block(stmt.body, ctx)\n        idx = self.site_idx", 'C19.P3'),
    # X1
    Mutant('assert-msg-unreachable', T + 'path.py', "            return ('test', None, node.test), ('msg', None, node.msg)", "            return ('test', None, node.test),", 'C19.X1'),
    Mutant('if-arms-swapped', T + 'path.py', "            return ('ift', stmt.ift), ('iff', stmt.iff)", "            return ('iff', stmt.iff), ('ift', stmt.ift)", 'C19.X1',
           'walk_stmts would list the else-arm sites before the then-arm sites, the rewriter counts the other way'),
    Mutant('listref-order-swapped', T + 'path.py', "            return ('value', None, node.value), ('index', None, node.index)", "            return ('index', None, node.index), ('value', None, node.value)", 'C19.X1'),
    Mutant('call-kwargs-unreachable', T + 'path.py', "            return *at('args', node.args), *at('kwargs', [v for _, v in node.kwargs])", "            return at('args', node.args)", 'C19.X1'),
    Mutant('stmt-walk-post-order', T + 'path.py', "            yield here, stmt\n            for field, sub in sub_blocks(stmt):\n                yield from walk(sub, SubBlock(here, field))\n\n    yield from walk(func.body, FuncBody())\n\n\ndef walk_blocks",
           "            for field, sub in sub_blocks(stmt):\n                yield from walk(sub, SubBlock(here, field))\n            yield here, stmt\n\n    yield from walk(func.body, FuncBody())\n\n\ndef walk_blocks", 'C19.X1'),
    Mutant('mislabelled-child', T + 'path.py', "            return ('ctx', None, node.ctx),", "            return ('cond', None, node.ctx),", 'C19.X1'),
    Mutant('inline-visits-arms-first', FI, "        cond = self._visit_expr(e.cond, ctx)\n        arm = ctx.conditional('only one arm of a conditional expression is evaluated')\n        ift = self._visit_expr(e.ift, arm)\n        iff = self._visit_expr(e.iff, arm)",
           "        arm = ctx.conditional('only one arm of a conditional expression is evaluated')\n        ift = self._visit_expr(e.ift, arm)\n        iff = self._visit_expr(e.iff, arm)\n        cond = self._visit_expr(e.cond, ctx)", 'C19.X1'),
    # T1
    Mutant('sites-of-another-transform', 'fpy2/strategies/sites.py', "    unroll_for: ForUnroll.sites,", "    unroll_for: SplitLoop.sites,", 'C19.T1'),
    Mutant('refusals-unexplained', 'fpy2/strategies/sites.py', "    unroll_for: ForUnroll.refusals,\n", "", 'C19.T1'),
    Mutant('strategy-unlisted', 'fpy2/strategies/sites.py', "    unroll_while: WhileUnroll.sites,\n", "", 'C19.T1'),
    Mutant('lister-kwargs-dropped', 'fpy2/strategies/sites.py', "    return lister(func.ast, func.rebase(within), **_listing_kwargs(strategy, lister, kwargs))\n\n\ndef refusals", "    return lister(func.ast, func.rebase(within))\n\n\ndef refusals", 'C19.T1',
           'insert_round / unroll_for / split decide their sites from these arguments'),
    # P4
    Mutant('check-site-dropped', T + 'unfold_special.py', "        vtor.check_site('a candidate rounding block')\n", "", 'C19.P4'),
    Mutant('check-where-dropped', FU, "        check_where(where)\n", "", 'C19.P4'),
    Mutant('edits-not-reported', FI, "                func, FuncInline._finish(result), tuple(vtor.edits),", "                func, FuncInline._finish(result), (),", 'C19.P4'),
    Mutant('check-site-before-walk', WU, "        out = unroller.apply()\n        # An in-range `where` matches, so `site_idx` exceeds it even though\n        # re-visiting a matched loop's body inflates the counter\n        unroller.check_site('a `while` loop')\n",
           "        unroller.check_site('a `while` loop')\n        out = unroller.apply()\n", 'C19.P4'),
    Mutant('where-not-handed-over', T + 'rescale_fixed.py', "        vtor = _RescaleFixedInstance(func, eval_info, where)", "        vtor = _RescaleFixedInstance(func, eval_info)", 'C19.P4'),
    # T2
    Mutant('shift-boundary', T + 'cursor.py', "        if path.index >= e.index + e.removed:", "        if path.index > e.index + e.removed:", 'C19.T2'),
    Mutant('shift-boundary-respelled', T + 'cursor.py', "        if path.index >= e.index + e.removed:", "        if e.index + e.removed <= path.index:", 'C19.T2', expect='silent',
           why='the same ordering written the other way round'),
    Mutant('shift-ignores-removed', T + 'cursor.py', "            shift += e.inserted - e.removed", "            shift += e.inserted", 'C19.T2'),
    Mutant('shift-across-blocks', T + 'cursor.py', "        if e.block_path != path.parent:\n            continue\n", "", 'C19.T2'),
    Mutant('deleted-statement-resolves', T + 'cursor.py', "        if edit is None or edit.inserted == 1:", "        if edit is None or edit.inserted <= 1:", 'C19.T2',
           'a cursor to a deleted statement resolves to its neighbour'),
    Mutant('region-one-short', T + 'cursor.py', "range(index, index + edit.inserted))", "range(index, index + edit.inserted - 1))", 'C19.T2'),
    Mutant('nested-under-rewrite-forwards', T + 'cursor.py', "            if edit is not None:\n                raise TransformReferenceError(\n                    f'`{format_path(leaf)}` is inside",
           "            if edit is not None and edit.inserted == 0:\n                raise TransformReferenceError(\n                    f'`{format_path(leaf)}` is inside", 'C19.T2'),
    Mutant('dirty-expression-forwards', T + 'cursor.py', "        if stmt in self.exprs_rewritten:", "        if stmt in self.exprs_rewritten and not self.exprs_preserved:", 'C19.T2'),
    Mutant('logs-replayed-backwards', 'fpy2/function.py', "        for log in reversed(logs):", "        for log in logs:", 'C19.T2'),
    Mutant('silent-pass-skipped', 'fpy2/function.py', "            if log is None:\n                raise TransformReferenceError(\n                    f'`{cursor}` does not reach this program: a pass in between '\n                    'does not report what it rewrote'\n                )",
           "            if log is None:\n                continue", 'C19.T2', 'a cursor survives a pass that reported nothing'),
    Mutant('with-ast-keeps-log', 'fpy2/function.py', "        return Function(ast, runtime=self.runtime, parent=self)", "        return Function(ast, runtime=self.runtime, parent=self, edits=self.edits)", 'C19.T2'),
    Mutant('index-range-inclusive', T + 'utils.py', "            if not 0 <= where < self.site_idx:", "            if not 0 <= where <= self.site_idx:", 'C19.T2'),
    Mutant('index-range-respelled', T + 'utils.py', "            if not 0 <= where < self.site_idx:", "            if where < 0 or where >= self.site_idx:", 'C19.T2', expect='silent',
           why='the same range test'),
    Mutant('index-selects-later-sites', T + 'utils.py', "            return self.where is None or idx == self.where", "            return self.where is None or idx >= self.where", 'C19.T2'),
    Mutant('bool-where-accepted', T + 'utils.py', "    if isinstance(where, bool) or (\n        where is not None", "    if (\n        where is not None", 'C19.T2', 'True would be taken as index 1'),
    Mutant('cursor-naming-nothing-passes', T + 'utils.py', "        elif self._matched == 0:\n            raise TransformReferenceError(f'`{where}` does not name {what}')", "        elif self._matched == 0:\n            return", 'C19.T2'),
    # P5
    Mutant('edit-one-short', T + 'utils.py', "                self._record(block, pos, len(out) - before)", "                self._record(block, pos, len(out) - before - 1)", 'C19.P5'),
    Mutant('edit-fields-swapped', T + 'utils.py', "        self.edits.append(Edit(path, pos, removed, inserted))", "        self.edits.append(Edit(path, pos, inserted, removed))", 'C19.P5'),
    Mutant('prelude-misreported', T + 'free_var_elim.py', "        prepend = Edit(FuncBody(), 0, 0, len(prelude))", "        prepend = Edit(FuncBody(), 0, 0, 1)", 'C19.P5'),
    Mutant('lift-claims-exprs-preserved', T + 'lift_context.py', "        return EditLog(func, out, edits)", "        return EditLog(func, out, edits, exprs_preserved=True)", 'C19.P5'),
    Mutant('while-listing-wider-than-walk', WU, "lambda s: isinstance(s, WhileStmt), within)", "lambda s: isinstance(s, (WhileStmt, ForStmt)), within)", 'C19.P5'),
    Mutant('replaced-flag-not-cleared', T + 'utils.py', "            self._site = (block, pos)\n            self._replaced = False\n            before = len(out)", "            self._site = (block, pos)\n            before = len(out)", 'C19.P5'),
    Mutant('subsumed-edits-kept', T + 'utils.py', "        if removed:\n            replaced = range(pos, pos + removed)", "        if False:\n            replaced = range(pos, pos + removed)", 'C19.P5'),
]
