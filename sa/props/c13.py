"""
C13 — Static analysis facts hold on every execution.

Decided (structure of the analyses, read symbolically with sa/symenv.py):
the environment each sub-visit of ReachingDefs / DefineUse receives and the
phi nodes created at merges and loop headers; the phi update of the
value-class, partial-evaluation and array-size analyses (seed, join of both
operands, exit only on stability); the value-class transfer and refinement
tables against IEEE semantics on representative values; conservative
defaults; array-size facts constrained globally only where every execution
passes; every list-sharing construct of the language has an alias route.

Not decided: type unification, size arithmetic, escape summaries.
"""

from __future__ import annotations

import ast
import itertools
import math
from typing import Any, Optional

from ..core import Ctx, Rule
from ..facts import ShapeError, call_name, calls_in, dotted, norm, param_names, walk_no_nested
from ..lang import lang
from ..symenv import Event, SymExec, execute, lookup, show, sym
from ..tables import Inst, pattern_matches

RD = 'fpy2/analysis/reaching_defs.py'
DU = 'fpy2/analysis/define_use.py'
DEFS = 'fpy2/analysis/defs.py'
VC = 'fpy2/analysis/value_class.py'
PE = 'fpy2/analysis/partial_eval.py'
AS = 'fpy2/analysis/array_size.py'
ALIAS = 'fpy2/analysis/alias.py'

IN = sym('IN')


# ----------------------------------------------------------------------
# D1: reaching definitions — which environment each part of a statement sees

def _rd_hooks():
    def visit_expr(ex: SymExec, ev: Event):
        return ('k', None)

    def visit_block(ex: SymExec, ev: Event):
        return ('out', ev.args[0], ev.args[1])

    def visit_statement(ex: SymExec, ev: Event):
        return ('out', ev.args[0], ev.args[1])

    def add_assign(ex: SymExec, ev: Event):
        name, site, T = ev.args[:3]
        return ('tuple', (('defidx', name, site), ('bind', T, name, ('defidx', name, site))))

    def add_phi(ex: SymExec, ev: Event):
        name, site, lhs, rhs, T = ev.args[:5]
        loop = dict(ev.kwargs).get('is_loop', ev.args[5] if len(ev.args) > 5 else ('k', False))
        return ('tuple', (('phiidx', name, lhs, rhs, loop), ('phi', T, name, lhs, rhs, loop, ev.guards)))

    def unify(ex: SymExec, ev: Event):
        return ('unify',) + ev.args
    return {'self._visit_expr': visit_expr, 'self._visit_block': visit_block, 'self._visit_statement': visit_statement,
            'self._add_assign': add_assign, 'self._add_phi': add_phi, 'self._unify_def': unify}


def _strip_ite(t: Any) -> list[Any]:
    """The alternatives of a value that depends on branches."""
    if isinstance(t, tuple) and t and t[0] == 'ite':
        return _strip_ite(t[2]) + _strip_ite(t[3])
    return [t]


def _phis_in(t: Any) -> list[tuple]:
    return [x for x in _strip_ite(t) if isinstance(x, tuple) and x and x[0] == 'phi']


def _visits(ex: SymExec, name: str) -> list[tuple[Any, Any, Event]]:
    return [(e.args[0], e.args[1], e) for e in ex.calls(name) if len(e.args) >= 2]


def _env_of(ex: SymExec, what: str, subject: str) -> list[Any]:
    return [env for subj, env, _ in _visits(ex, what) if show(subj) == subject]


def _every_expression_read(ctx: Ctx):
    """The use analysis walks every expression of a statement with the default visitor; the definitions analysis overrides
    each statement visitor, and an expression field it forgets to visit is one whose uses (and whose comprehension targets)
    have no definition: `assert c, [t for t in xs]` is accepted and fails with KeyError on every call.  For every
    statement class, each field of the class that holds an expression or a block is handed to a visit by its visitor in
    `_ReachingDefs`."""
    L = lang(ctx.repo)
    meths = ctx.repo.methods(RD, '_ReachingDefs', inherited=False)
    n = 0
    for m, (_, _, fn) in sorted(meths.items()):
        if not m.startswith('_visit_') or len(fn.args.args) < 2 or fn.args.args[1].annotation is None:
            continue
        cname = dotted(fn.args.args[1].annotation) or ''
        cdef = L.classes.get(cname)
        if cdef is None or not L.is_a(cname, 'Stmt'):
            continue
        param = fn.args.args[1].arg
        fields = []
        for s in cdef.body:
            if isinstance(s, ast.AnnAssign) and isinstance(s.target, ast.Name):
                kinds = {x.id for x in ast.walk(s.annotation) if isinstance(x, ast.Name)}
                if kinds & {'Expr', 'StmtBlock'}:
                    fields.append(s.target.id)
        visited = set()
        for k in calls_in(fn):
            if (call_name(k) or '').startswith(('self._visit_', 'super()._visit_')):
                for a in k.args:
                    for x in ast.walk(a):
                        if isinstance(x, ast.Attribute) and isinstance(x.value, ast.Name) and x.value.id == param:
                            visited.add(x.attr)
                    if isinstance(a, ast.Name) and a.id == param:
                        visited |= set(fields)          # the whole statement handed on
        # a field read in a loop header / comprehension of the method (`for e in stmt.indices: self._visit_expr(e, ..)`)
        for x in ast.walk(fn):
            if isinstance(x, (ast.For, ast.comprehension)) and isinstance(x.iter, ast.Attribute) and isinstance(x.iter.value, ast.Name) and x.iter.value.id == param:
                visited.add(x.iter.attr)
        for f_ in fields:
            n += 1
            ctx.check(f_ in visited, RD, fn, f'_ReachingDefs.{m}', f'{cname}.{f_} is read by the definitions analysis',
                      f'`{param}.{f_}` is never visited: a name read (or a comprehension target bound) there has no definition -- `assert len(xs) > 0, [t for t in xs]` is accepted and '
                      'every call fails with KeyError')
    if n < 12:
        raise ShapeError(f'only {n} expression fields of statement classes found')


def d1_reaching_defs(ctx: Ctx):
    _every_expression_read(ctx)

    def run(q: str, passes: int = 1) -> tuple[ast.FunctionDef, SymExec]:
        # a loop over names extends the environment once per name: one symbolic pass reads it;
        # two passes are used where the second iteration sees what the first left (blocks, generators)
        fn = ctx.fn(RD, f'_ReachingDefs.{q}')
        params = [p for p in param_names(fn) if p != 'self']
        env = {params[-1]: IN}
        return fn, execute(fn, env, _rd_hooks(), loop_passes=passes)

    def check_env(fn, q, ex, what, subject, want, why):
        got = _env_of(ex, what, subject)
        ok = bool(got) and all(g == want for g in got)
        ctx.check(ok, RD, fn, f'_ReachingDefs.{q}', f'{subject} is read under {show(want)[:90]}',
                  (f'it is read under {[show(g)[:120] for g in got]}: ' if got else f'{subject} is not visited: ') + why)

    at = lambda env, name: lookup(env, name)  # noqa: E731

    # assignment: the right-hand side sees the old binding
    fn, ex = run('_visit_assign')
    check_env(fn, '_visit_assign', ex, 'self._visit_expr', 'stmt.expr', IN, '`x = x + 1` would read its own definition')
    rets = [r for r, _ in ex.returns]
    ok = len(rets) == 1 and isinstance(rets[0], tuple) and rets[0][0] == 'bind' and show(rets[0][2]) == 'each(names(stmt.target))'
    ctx.check(ok, RD, fn, '_ReachingDefs._visit_assign', 'the statement leaves every target name bound to a new definition',
              f'leaves {show(rets[0])[:160] if rets else None}')
    fn, ex = run('_visit_indexed_assign')
    for subj in ('each(stmt.indices)', 'stmt.expr'):
        check_env(fn, '_visit_indexed_assign', ex, 'self._visit_expr', subj, IN, 'a read of the list inside `xs[i] = f(xs)` would see the updated list')
    rets = [r for r, _ in ex.returns]
    ok = len(rets) == 1 and rets[0][0] == 'bind' and show(rets[0][2]) == 'stmt.var' and _base(rets[0]) == IN
    ctx.check(ok, RD, fn, '_ReachingDefs._visit_indexed_assign', 'an element store is a new definition of the list variable (later reads and loop phis see it)',
              f'leaves {show(rets[0])[:160] if rets else None}')

    # if without else
    fn, ex = run('_visit_if1')
    check_env(fn, '_visit_if1', ex, 'self._visit_expr', 'stmt.cond', IN, 'the condition is evaluated before the body')
    check_env(fn, '_visit_if1', ex, 'self._visit_block', 'stmt.body', IN, 'the body starts from the entry environment')
    body_out = ('out', ('attr', sym('stmt'), 'body'), IN)
    _check_phi(ctx, fn, '_visit_if1', [r for r, _ in ex.returns], base=IN, domain={'each(keys(IN))', 'each(keys(items(IN)))'},
               lhs=lambda n: at(IN, n), rhs=lambda n: at(body_out, n), loop=False, guarded=True,
               why='after `if c: x = e` a read of x may observe either definition')

    # if / else
    fn, ex = run('_visit_if')
    check_env(fn, '_visit_if', ex, 'self._visit_expr', 'stmt.cond', IN, 'the condition is evaluated before either arm')
    check_env(fn, '_visit_if', ex, 'self._visit_block', 'stmt.ift', IN, 'both arms start from the entry environment')
    check_env(fn, '_visit_if', ex, 'self._visit_block', 'stmt.iff', IN, 'the else-arm does not run after the then-arm')
    t_out = ('out', ('attr', sym('stmt'), 'ift'), IN)
    f_out = ('out', ('attr', sym('stmt'), 'iff'), IN)
    dom = show(('each', ('&', frozenset([('keys', t_out), ('keys', f_out)]))))
    # an arm that always returns reaches nothing after the statement: under "exactly one arm always returns" the result
    # is the environment of the other arm, unmerged (merging would drop the names only that arm defines)
    general = []
    for r, guards in ex.returns:
        gs = [show(g) for g in guards]
        one_returns = [g for g in gs if '_always_returns(stmt.ift)' in g and '_always_returns(stmt.iff)' in g and '!=' in g and not g.startswith('not')]
        if one_returns:
            ok = isinstance(r, tuple) and r[0] == 'ite' and show(r[1]) == '_always_returns(stmt.ift)' and r[2] == f_out and r[3] == t_out
            ctx.check(ok, RD, fn, '_ReachingDefs._visit_if', 'exactly one arm always returns -> what follows sees the other arm\'s definitions',
                      f'leaves {show(r)[:200]}: the statements after the `if` run only when the arm that falls through was taken')
        else:
            general.append(r)
    ctx.check(len(general) != len(ex.returns), RD, fn, '_ReachingDefs._visit_if', 'an arm that always returns takes no part in the merge',
              'both arms are merged whatever they end in: after `if c: return 0 else: t = 1` the name t is dropped (it is not defined in the arm that '
              'returned) and `return t` fails in every later analysis')
    if len(general) != len(ex.returns):
        _check_always_returns(ctx)
    _check_phi(ctx, fn, '_visit_if', general, base=IN, domain={dom},
               lhs=lambda n: at(t_out, n), rhs=lambda n: at(f_out, n), loop=False, guarded=True, either_order=True,
               after_exit=lambda g: isinstance(g, tuple) and g[0] == 'not' and show(g[1]) in ('(_always_returns(stmt.ift) != _always_returns(stmt.iff))', '(_always_returns(stmt.iff) != _always_returns(stmt.ift))'),
               why='a name both arms define differently must merge the two definitions')

    # while
    fn, ex = run('_visit_while')
    mutated = ('each', ('&', frozenset([('keys', IN), ('at', sym('self.def_ids'), ('attr', sym('stmt'), 'body'))])))
    header = ('phi', IN, mutated, at(IN, mutated), at(IN, mutated), ('k', True), ())
    check_env(fn, '_visit_while', ex, 'self._visit_expr', 'stmt.cond', header,
              'the condition is re-evaluated after every iteration, so its reads must go through the loop-header phis')
    check_env(fn, '_visit_while', ex, 'self._visit_block', 'stmt.body', header, 'the body of a later iteration reads what the previous one defined')
    body_out = ('out', ('attr', sym('stmt'), 'body'), header)
    _check_phi(ctx, fn, '_visit_while', [r for r, _ in ex.returns], base=IN, domain={show(mutated)},
               lhs=lambda n: at(IN, n), rhs=lambda n: at(body_out, n), loop=True, guarded=False,
               why='after the loop a name holds the entry definition (zero iterations) or the body\'s last one')
    _check_unify(ctx, fn, '_visit_while', ex, mutated)

    # for
    fn, ex = run('_visit_for')
    check_env(fn, '_visit_for', ex, 'self._visit_expr', 'stmt.iterable', IN, 'the iterable is evaluated once, before the loop')
    tnames = ('set', ('names', ('attr', sym('stmt'), 'target')))
    mutated = ('each', ('&', frozenset([('keys', IN), ('|', frozenset([('at', sym('self.def_ids'), ('attr', sym('stmt'), 'body')), tnames]))])))
    header = ('phi', IN, mutated, at(IN, mutated), at(IN, mutated), ('k', True), ())
    got = _env_of(ex, 'self._visit_block', 'stmt.body')
    ok = bool(got) and all(isinstance(g, tuple) and g[0] == 'bind' and show(g[2]) == 'each(names(stmt.target))' and g[1] == header for g in got)
    ctx.check(ok, RD, fn, '_ReachingDefs._visit_for', 'the body runs under the loop-header phis (for every name the body or the loop target rebinds) plus the target binding',
              f'the body is read under {[show(g)[:200] for g in got]}: a loop target that rebinds an outer variable, or a name the body redefines, '
              'would keep its pre-loop definition after the loop')
    body_in = got[0] if got else header
    body_out = ('out', ('attr', sym('stmt'), 'body'), body_in)
    _check_phi(ctx, fn, '_visit_for', [r for r, _ in ex.returns], base=IN, domain={show(mutated)},
               lhs=lambda n: at(IN, n), rhs=lambda n: at(body_out, n), loop=True, guarded=False,
               why='after the loop a name holds the entry definition (empty iterable) or the body\'s last one')
    _check_unify(ctx, fn, '_visit_for', ex, mutated)

    # with
    fn, ex = run('_visit_context')
    check_env(fn, '_visit_context', ex, 'self._visit_expr', 'stmt.ctx', IN, 'the context expression is evaluated before its name is bound')
    got = _env_of(ex, 'self._visit_block', 'stmt.body')
    ok = len(got) == 1 and any(isinstance(a, tuple) and a[0] == 'bind' and show(a[2]) == 'stmt.target' and a[1] == IN for a in _strip_ite(got[0])) \
        and all(a == IN or (isinstance(a, tuple) and a[0] == 'bind') for a in _strip_ite(got[0]))
    ctx.check(ok, RD, fn, '_ReachingDefs._visit_context', 'the body sees the entry environment plus the bound context name', f'body read under {[show(g)[:160] for g in got]}')
    rets = [r for r, _ in ex.returns]
    ok = len(rets) == 1 and isinstance(rets[0], tuple) and rets[0][0] == 'out' and show(rets[0][1]) == 'stmt.body' and got and rets[0][2] == got[0]
    ctx.check(ok, RD, fn, '_ReachingDefs._visit_context', 'a `with` block is not a scope: what its body defines stays defined afterwards', f'leaves {show(rets[0])[:160] if rets else None}')

    # comprehension: an iterable sees the targets of the earlier generators; the element sees all of them
    fn, ex = run('_visit_list_comp', 2)
    vs = _visits(ex, 'self._visit_expr')
    its = [(env, e) for subj, env, e in vs if 'e.iterables' in show(subj)]
    first = [env for env, e in its if any(s[0] == 'for' and s[-1] == 0 for s in e.scopes)]
    later = [env for env, e in its if any(s[0] == 'for' and s[-1] == 1 for s in e.scopes)]
    ok = bool(first) and all(x == IN for x in first) and bool(later) and all(isinstance(x, tuple) and x[0] == 'bind' and _base(x) == IN for x in later)
    ctx.check(ok, RD, fn, '_ReachingDefs._visit_list_comp', 'the first iterable is read under the entry environment, a later one also sees the earlier targets',
              f'first {[show(x)[:80] for x in first]}, later {[show(x)[:80] for x in later]}')
    elt = [env for subj, env, e in vs if show(subj) == 'e.elt']
    ok = len(elt) == 1 and isinstance(elt[0], tuple) and elt[0][0] == 'bind' and _base(elt[0]) == IN
    ctx.check(ok, RD, fn, '_ReachingDefs._visit_list_comp', 'the element expression sees every comprehension target', f'read under {[show(x)[:120] for x in elt]}')
    ctx.check(not ex.returns or all(r == ('k', None) for r, _ in ex.returns), RD, fn, '_ReachingDefs._visit_list_comp',
              'comprehension targets do not leak into the enclosing environment', 'the comprehension returns an extended environment')

    # block: statements are threaded, and each statement's reaching set is recorded before it runs
    fn, ex = run('_visit_block', 2)
    stores = [e for e in ex.events if e.kind == 'store' and show(e.args[0]) == 'self.reach']
    p0 = [e.args[2] for e in stores if e.scopes and e.scopes[-1][-1] == 0]
    p1 = [e.args[2] for e in stores if e.scopes and e.scopes[-1][-1] == 1]
    ok = p0 == [IN] and len(p1) == 1 and isinstance(p1[0], tuple) and p1[0][0] == 'out' and p1[0][2] == IN
    ctx.check(ok, RD, fn, '_ReachingDefs._visit_block', 'reach[stmt] is the environment before the statement: the entry one first, then what the previous statement left',
              f'first {[show(x) for x in p0]}, next {[show(x)[:100] for x in p1]}')
    rets = [r for r, _ in ex.returns]
    ok = len(rets) == 1 and isinstance(rets[0], tuple) and rets[0][0] == 'out'
    ctx.check(ok, RD, fn, '_ReachingDefs._visit_block', 'the block leaves what its last statement left', f'leaves {show(rets[0])[:100] if rets else None}')

    # what counts as "defined in a loop body": every binding construct, nested ones included
    da = {q.split('.')[1]: f for q, f in ctx.repo.functions(DEFS) if q.startswith('_DefAnalysis._visit_')}
    want = {
        '_visit_assign': ['names(stmt.target)'], '_visit_indexed_assign': ['stmt.var'],
        '_visit_for': ['names(stmt.target)', 'stmt.body'], '_visit_context': ['stmt.target', 'stmt.body'],
        '_visit_if1': ['stmt.body'], '_visit_if': ['stmt.ift', 'stmt.iff'], '_visit_while': ['stmt.body'],
    }
    for m, needs in want.items():
        f = da.get(m)
        if f is None:
            raise ShapeError(f'_DefAnalysis.{m} not found')
        ctx.functions_analysed.add((DEFS, f'_DefAnalysis.{m}'))
        t = norm(f, 4000)
        missing = [n for n in needs if (n.replace('names(', '').replace(')', '') + ('.names()' if n.startswith('names(') else '')) not in t]
        blocks = [n for n in needs if '.' in n and not n.startswith('names') and n not in ('stmt.var', 'stmt.target')]
        visited = all(f'self._visit_block({b}, ctx)' in t for b in blocks)
        ctx.check(not missing and visited, DEFS, f, f'_DefAnalysis.{m}', f'{m[7:]}: contributes {needs} to the names a block defines',
                  f'missing {missing or blocks}: a name rebound there gets no loop-header phi, so a later iteration and the code after the loop read a stale definition')
    fb = da.get('_visit_block')
    ok = fb is not None and 'ds |= self._visit_statement(stmt, ctx)' in norm(fb, 2000) and 'self.blocks[block] = ds' in norm(fb, 2000)
    ctx.check(ok, DEFS, fb, '_DefAnalysis._visit_block', 'a block defines the union of what its statements define', 'changed')

    # DefineUse: reads are resolved under the environment recorded for their statement; a `while` condition under the header
    f = ctx.fn(DU, '_DefineUseInstance._visit_statement')
    ok = any(norm(s) == 'ctx = self.reaching_defs.reach[stmt]' for s in f.body) and norm(f.body[-1]) == 'return super()._visit_statement(stmt, ctx)'
    ctx.check(ok, DU, f, '_DefineUseInstance._visit_statement', 'a statement\'s reads resolve against reach[stmt]', 'changed')
    f = ctx.fn(DU, '_DefineUseInstance._visit_while')
    ex = execute(f, {}, {'self._visit_expr': lambda ex, ev: ('k', None), 'self._visit_block': lambda ex, ev: ('k', None)})
    got = _env_of(ex, 'self._visit_expr', 'stmt.cond')
    ok = len(got) == 1 and show(got[0]) == 'self.reaching_defs.in_defs[stmt.body]'
    ctx.check(ok, DU, f, '_DefineUseInstance._visit_while', 'the `while` condition\'s reads resolve against the body-entry environment (the loop-header phis)',
              f'resolved against {[show(g) for g in got]}: a read in the condition would be attributed to the pre-loop definition only')
    f = ctx.fn(DU, '_DefineUseInstance._add_use')
    t = [norm(s) for s in f.body if not (isinstance(s, ast.Expr) and isinstance(s.value, ast.Constant))]
    ctx.check(t == ['d = ctx[name]', 'self.uses[d].add(use)'], DU, f, '_DefineUseInstance._add_use', 'a use is attributed to the definition the environment maps its name to', f'got {t}')
    f = ctx.fn(DU, '_DefineUseInstance._visit_indexed_assign')
    ex = execute(f, {}, {'self._visit_expr': lambda ex, ev: ('k', None)})
    uses = ex.calls('self._add_use')
    ok = len(uses) == 1 and [show(a) for a in uses[0].args] == ['stmt.var', 'stmt', 'ctx']
    ctx.check(ok, DU, f, '_DefineUseInstance._visit_indexed_assign', '`xs[i] = e` uses the list as it was before the store', f'got {[[show(a) for a in u.args] for u in uses]}')
    f = ctx.fn(DU, '_DefineUseInstance._visit_list_comp')
    t = norm(f, 3000)
    ok = 'ctx = ctx.copy()' in t and 'ctx[name] = self.reaching_defs.find_def_from_site(name, e)' in t and t.index('self._visit_expr(iterable, ctx)') < t.index('ctx[name] =') \
        and t.index('ctx[name] =') < t.index('self._visit_expr(e.elt, ctx)')
    ctx.check(ok, DU, f, '_DefineUseInstance._visit_list_comp', 'comprehension reads: iterable before its target is bound, element after, on a private copy of the environment', 'changed')

    # same-object rule shared by alias analysis and storage coalescing
    f = ctx.fn(RD, 'same_object_defs')
    m = [s for s in f.body if isinstance(s, ast.Match)]
    rows = {}
    if len(m) == 1:
        for c in m[0].cases:
            rows[' '.join(ast.unparse(c.pattern).split()) + (' if ' + norm(c.guard) if c.guard is not None else '')] = norm(c.body[0])
    ok = rows.get('AssignDef(site=IndexedAssign()) if d.prev is not None') == 'return (d.prev,)' and rows.get('PhiDef()') == 'return (d.lhs, d.rhs)' and rows.get('_') == 'return ()'
    ctx.check(ok, RD, f, 'same_object_defs', 'an element store and a phi denote the object(s) they came from; a rebinding denotes a new one', f'got {rows}')


def _check_always_returns(ctx: Ctx, complete: bool = False):
    """(`complete`: also the converse, which is what C15 needs -- the front end accepts a program whose arm ends in a return,
    an if/else of returns or a `with` around one without asking that arm to define what is read afterwards, so an arm
    the front end takes as terminated and this helper does not leaves the read with no definition at all.)
    `_always_returns(block)` may say yes only for a block control cannot leave through its end: evaluated, from its
    source, on every block of up to two statements over {assignment, return, if/else, one-armed if, while, for, with}
    nested two deep, against the definition (last statement is a return, an if/else whose arms both are, or a `with`
    whose body is)."""
    from itertools import product

    from ..minipy import Interp, Obj
    if not ctx.repo.has_func(RD, '_always_returns'):
        ctx.bad(RD, None, '_always_returns', 'the test for an arm that always returns', 'helper not found')
        return
    fn = ctx.fn(RD, '_always_returns')
    funcs = {'_always_returns': fn}

    def block(stmts):
        return Obj('StmtBlock', stmts=list(stmts))

    def blocks(depth: int):
        leaves = [('assign', Obj('Assign')), ('return', Obj('ReturnStmt'))]
        out = [((), block(()))]
        kinds = list(leaves)
        if depth > 0:
            inner = [x for x in blocks(depth - 1) if len(x[0]) <= 1]      # arms of one statement keep the family small
            for (da, a), (db, b) in product(inner, inner):
                kinds.append((('if', da, db), Obj('IfStmt', ift=a, iff=b)))
            for d, b in inner:
                kinds.append((('if1', d), Obj('If1Stmt', body=b)))
                kinds.append((('while', d), Obj('WhileStmt', body=b)))
                kinds.append((('for', d), Obj('ForStmt', body=b)))
                kinds.append((('with', d), Obj('ContextStmt', body=b)))
        for k in kinds:
            out.append(((k[0],), block([k[1]])))
        for k1, k2 in product(leaves, kinds):
            out.append(((k1[0], k2[0]), block([k1[1], k2[1]])))
        return out

    def oracle(desc) -> bool:
        if not desc:
            return False
        last = desc[-1]
        if last == 'return':
            return True
        if isinstance(last, tuple) and last[0] == 'if':
            return oracle(last[1]) and oracle(last[2])
        if isinstance(last, tuple) and last[0] == 'with':
            return oracle(last[1])
        return False
    n = 0
    bad = None
    for desc, b in blocks(2):
        got = Interp(funcs).call_function(fn, [b])
        n += 1
        if got and not oracle(desc) and bad is None and not complete:
            bad = f'a block ending in {desc[-1] if desc else "nothing"} is taken to always return'
        if complete and not got and oracle(desc) and bad is None:
            bad = f'a block ending in {desc[-1]} is not taken to always return'
    if complete:
        ctx.check(bad is None, RD, fn, '_always_returns', f'every block the front end takes as terminated is one reaching definitions drops from the merge ({n} block shapes)',
                  (bad or '') + ': `if c: with K: return x  else: y = x + 1` followed by `return y` is accepted, and then every call fails looking up the definition of `y`')
        return
    ctx.check(bad is None, RD, fn, '_always_returns', f'"always returns" is claimed only for blocks control cannot fall out of ({n} block shapes)',
              (bad or '') + ': the definitions of the arm that does fall through are dropped from what follows')


def _base(t: Any) -> Any:
    while isinstance(t, tuple) and t and t[0] in ('bind', 'phi'):
        t = t[1]
    return t


def _check_phi(ctx: Ctx, fn, q: str, rets: list[Any], *, base, domain: set[str], lhs, rhs, loop: bool, guarded: bool, why: str, either_order: bool = False,
               after_exit=lambda g: False):
    qn = f'_ReachingDefs.{q}'
    if len(rets) != 1:
        ctx.bad(RD, fn, qn, 'one result environment', f'{len(rets)} return statements')
        return
    phis = _phis_in(rets[0])
    alts = _strip_ite(rets[0])
    if len(phis) != 1:
        ctx.bad(RD, fn, qn, 'the result environment carries the phi nodes', f'leaves {show(rets[0])[:200]}: {why}')
        return
    _, T, name, l, r, lp, guards = phis[0]
    guards = tuple(g for g in guards if not after_exit(g))      # the negation of an earlier exit, checked by the caller
    ok_dom = show(name) in domain
    ok_ops = (l == lhs(name) and r == rhs(name)) or (either_order and l == rhs(name) and r == lhs(name))
    ok_loop = lp == ('k', loop)
    ok_base = _base(T) == base and all(a == base or a is phis[0] or _base(a) == base for a in alts)
    gtxt = [show(g) for g in guards]
    want_guard = ('cmp', '!=', l, r)
    ok_guard = (not guarded and not guards) or (guarded and list(guards) == [want_guard]) or (guarded and list(guards) == [('cmp', '!=', r, l)])
    ctx.check(ok_dom, RD, fn, qn, f'phi nodes range over {sorted(domain)[0][:110]}', f'they range over {show(name)[:160]}: {why}')
    ctx.check(ok_ops, RD, fn, qn, f'phi operands: {show(lhs(name))[:70]} and {show(rhs(name))[:90]}', f'operands are {show(l)[:120]} and {show(r)[:160]}: {why}')
    ctx.check(ok_loop and ok_base, RD, fn, qn, f'the phi extends the entry environment (is_loop={loop})', f'extends {show(_base(T))[:80]} with is_loop={show(lp)}')
    ctx.check(ok_guard, RD, fn, qn, 'a phi is skipped only where both operands are the same definition' if guarded else 'every loop-mutated name gets its phi unconditionally',
              f'created under {gtxt}')


def _check_unify(ctx: Ctx, fn, q: str, ex: SymExec, mutated):
    """The final loop phi is identified with the provisional header phi the body was read under."""
    us = [e for e in ex.calls('self._unify_def')]
    ok = bool(us)
    for e in us:
        a, b = e.args[:2]
        ok = ok and isinstance(a, tuple) and a[0] == 'phiidx' and isinstance(b, tuple) and b[0] == 'phiidx' and a[1] == mutated and b[1] == mutated \
            and b[2] == b[3] == lookup(IN, mutated) and b[4] == ('k', True)
    ctx.check(ok, RD, fn, f'_ReachingDefs.{q}', 'the loop phi is unified with the header phi the condition and body were read under',
              f'unifies {[[show(x)[:120] for x in e.args[:2]] for e in us]}: reads inside the loop would refer to a definition that is not the loop phi')


# ----------------------------------------------------------------------
# D2: phi updates — both operands joined, loops iterated until stable

def _mentions(t: Any, sub: Any) -> bool:
    if t == sub:
        return True
    if isinstance(t, (tuple, frozenset)):
        return any(_mentions(x, sub) for x in t)
    return False


def _phi_term(ex: SymExec) -> Optional[Any]:
    """The loop variable ranging over the statement's phi nodes."""
    for e in ex.events:
        for s in e.scopes:
            if s[0] == 'for' and 'phis' in show(s[1]):
                return ('each', s[1])
    return None


def _operand(phi: Any, side: str) -> Any:
    return ('at', sym('self.def_use.defs'), ('attr', phi, side))


def _phi_writes(ex: SymExec, phi: Any) -> list[tuple[Event, Any]]:
    """Events that give the phi a value: `_set_def(phi, v)` or `by_def[phi] = v`."""
    out = []
    for e in ex.events:
        if e.kind == 'call' and e.name in ('self._set_def', 'self._set_def_bound') and len(e.args) == 2 and e.args[0] == phi:
            out.append((e, e.args[1]))
        if e.kind == 'store' and show(e.args[0]) == 'self.by_def' and e.args[1] == phi:
            out.append((e, e.args[2]))
    return out


COMBINERS = ('|', 'self._meet', 'self._unify', 'self._join')


def _is_join(v: Any, phi: Any) -> bool:
    """`v` combines a value read from the phi's lhs with one read from its rhs."""
    parts: list[Any] = []
    if isinstance(v, tuple) and v and v[0] == '|':
        parts = list(v[1])
    elif isinstance(v, tuple) and v and v[0] == 'call' and v[1] in COMBINERS:
        parts = list(v[2])
    if len(parts) != 2:
        return False
    l, r = _operand(phi, 'lhs'), _operand(phi, 'rhs')
    a, b = parts
    return (_mentions(a, l) and not _mentions(a, r) and _mentions(b, r) and not _mentions(b, l)) or \
        (_mentions(a, r) and not _mentions(a, l) and _mentions(b, l) and not _mentions(b, r))


def _in_loop(e: Event) -> bool:
    """Inside the iteration loop (a `while`, or a `for` that does not range over the phi nodes themselves)."""
    def over_phis(it: Any) -> bool:
        t = show(it)
        return 'phis' in t and not t.startswith('range(')
    return any(s[0] == 'while' or (s[0] == 'for' and not over_phis(s[1])) for s in e.scopes)


def _stability(g: Any, phi: Any, flip: bool = False, same: frozenset = frozenset()) -> Optional[bool]:
    """True when guard `g` holds exactly if the phi's value did not change; None when `g` says nothing about it.
    `same` names the two-argument functions of the module shown (by `_sameness_functions`) to answer "the same lattice
    element"."""
    if not isinstance(g, tuple) or not g:
        return None
    if g[0] == 'not':
        return _stability(g[1], phi, not flip, same)
    if g[0] == 'call' and g[1] == 'all' and g[2]:
        return _stability(g[2][0], phi, flip, same)
    if g[0] == 'comp':
        return _stability(g[1], phi, flip, same)
    if g[0] == 'ite' and g[2] == ('k', True) and g[3] == ('k', False):
        return _stability(g[1], phi, flip, same)
    if g[0] in ('and',):
        rs = [_stability(x, phi, flip, same) for x in g[1]]
        rs = [r for r in rs if r is not None]
        return all(rs) if rs else None
    cur = [('at', sym('self.by_def'), phi), ('call', 'self.by_def.get', (phi,), ())]
    if g[0] == 'cmp' and g[1] in ('==', '!='):
        if any(_mentions(g[2], c) or _mentions(g[3], c) for c in cur):
            eq = g[1] == '=='
            return eq != flip
    if g[0] == 'call' and g[1] in same and len(g[2]) == 2:
        if any(_mentions(a, c) for a in g[2] for c in cur):
            return not flip
    return None


def _sameness_functions(ctx: Ctx, rel: str) -> frozenset:
    """The two-argument module functions of `rel` that decide "the same lattice element": evaluated, from their source,
    on every pair drawn from bottom (None), top, two different constants and a NaN (a constant that `==` calls different
    from itself); the answer is True exactly on the diagonal."""
    funcs = _module_functions(ctx, rel)

    def nan() -> Obj:
        return Obj('Float', eq=lambda me, other: False, is_zero=lambda: False, is_nar=lambda: True, isnan=True, isinf=False, s=False)
    elems = [None, 'TOP', Fraction(1), Fraction(2), nan()]
    out = set()
    for name, fn in funcs.items():
        if len(fn.args.args) != 2 or fn.args.vararg or fn.args.kwonlyargs:
            continue
        try:
            ok = True
            for i, a in enumerate(elems):
                for j, b in enumerate(elems):
                    it = Interp(funcs, globals_={'_TOP': 'TOP'}, overrides={'same_value': lambda p, q: p is q})
                    if bool(it.call_function(fn, [a, b])) != (i == j):
                        ok = False
            if ok:
                out.add(name)
        except Exception:
            continue
    return frozenset(out)


def _check_fixpoint(ctx: Ctx, rel: str, q: str, body_name: str = 'run_body'):
    fn = ctx.fn(rel, q)
    ex = execute(fn, {}, {}, loop_passes=1)
    phi = _phi_term(ex)
    if phi is None:
        raise ShapeError(f'{q}: no loop over the phi nodes')
    writes = _phi_writes(ex, phi)
    l, r = _operand(phi, 'lhs'), _operand(phi, 'rhs')
    seeds = [(e, v) for e, v in writes if not _in_loop(e) and _mentions(v, l) and not _mentions(v, r)]
    joins = [(e, v) for e, v in writes if _in_loop(e)]
    runs = [e for e in ex.calls(body_name) if _in_loop(e)]
    ctx.check(bool(seeds) and all(e.seq < min((x.seq for x in runs), default=1 << 30) for e, _ in seeds), rel, fn, q,
              'each loop phi starts from its pre-loop operand', 'no seed from `phi.lhs` before the first pass: the first pass reads a stale or missing value')
    good = bool(joins) and all(_is_join(v, phi) or v in (sym('_TOP'),) for e, v in joins) and any(_is_join(v, phi) for _, v in joins)
    ctx.check(good, rel, joins[0][0].node if joins else fn, q, 'after each pass the phi is the join of BOTH operands (pre-loop value and the value the body left)',
              f'phi written as {[show(v)[:140] for _, v in joins]}: a value reaching the header along one edge is not covered by the fact')
    ctx.check(bool(runs) and bool(joins) and min(e.seq for e in runs) < min(e.seq for e, v in joins if _is_join(v, phi) or True), rel, fn, q,
              'the body is re-read before the phis are re-joined', 'the join precedes the pass it should summarise')
    exits = [e for e in ex.events if _in_loop(e) and (e.kind == 'return' or (e.kind == 'call' and e.name == 'break'))]
    same = _sameness_functions(ctx, rel)
    ok = bool(exits)
    detail = 'the loop has no exit'
    for e in exits:
        verdicts = [_stability(g, phi, same=same) for g in e.guards]
        if not any(v is True for v in verdicts) or any(v is False for v in verdicts):
            ok = False
            detail = f'exit at line {getattr(e.node, "lineno", 0)} under {[show(g)[:120] for g in e.guards]} does not require the phis to be unchanged'
        if runs and joins and not (max(x.seq for x in runs) < e.seq):
            ok = False
            detail = 'the exit test precedes the pass'
    ctx.check(ok, rel, exits[0].node if exits else fn, q, 'the iteration stops only when no phi changed in the last pass',
              detail + ': facts computed in an unfinished iteration describe only the first few trips round the loop')
    # the comparison is against the value before this pass
    snaps = [e for e in ex.events if e.kind == 'assign' and _in_loop(e) and isinstance(e.args[0], tuple) and e.args[0][0] == 'dictcomp']
    olds = [e for e in ex.events if e.kind == 'assign' and _in_loop(e) and e.args[0] == ('call', 'self.by_def.get', (phi,), ())]
    if snaps:
        ctx.check(all(s.seq < min(x.seq for x in runs) for s in snaps) if runs else False, rel, snaps[0].node, q,
                  'the snapshot the phis are compared with is taken before the pass', 'the snapshot is taken after the pass, so the comparison always succeeds')
    elif olds:
        js = [e for e, v in joins if _is_join(v, phi)]
        ctx.check(all(o.seq < j.seq for o in olds for j in js) if js else False, rel, olds[0].node, q,
                  'the old value is read before the phi is overwritten', 'the old value is read after the update, so nothing ever appears to change')
    else:
        ctx.bad(rel, fn, q, 'a record of the previous phi values', 'no snapshot of the phi values is kept to compare with')
    return ex, phi


def _check_merge(ctx: Ctx, rel: str, q: str):
    fn = ctx.fn(rel, q)
    ex = execute(fn, {}, {}, loop_passes=1)
    phi = _phi_term(ex)
    if phi is None:
        raise ShapeError(f'{q}: no loop over the phi nodes')
    writes = _phi_writes(ex, phi)
    good = len(writes) == 1 and _is_join(writes[0][1], phi)
    ctx.check(good, rel, writes[0][0].node if writes else fn, q, 'a branch phi is the join of BOTH operands',
              f'phi written as {[show(v)[:160] for _, v in writes]}: the fact after the `if` describes one arm only')


def d2_phi_updates(ctx: Ctx):
    from .c19 import outcome
    # value classes
    _check_merge(ctx, VC, '_ValueClassInstance._merge_phis')
    ex, phi = _check_fixpoint(ctx, VC, '_ValueClassInstance._fixpoint')
    tops = [e for e, v in _phi_writes(ex, phi) if v == sym('_TOP') and not _in_loop(e)]
    tail_runs = [e for e in ex.calls('run_body') if not _in_loop(e)]
    fn = ctx.fn(VC, '_ValueClassInstance._fixpoint')
    ctx.check(bool(tops) and bool(tail_runs) and tops[0].seq < tail_runs[-1].seq, VC, fn, '_ValueClassInstance._fixpoint',
              'if the bound on passes is hit the phis drop to the top class and the body is re-read under it', 'non-convergence leaves the last (unstable) classes in place')
    for m, arms in (('_visit_if1', [('stmt.body', True)]), ('_visit_if', [('stmt.ift', True), ('stmt.iff', False)]), ('_visit_while', [('stmt.body', True)]),
                    ('_visit_if_expr', [('e.ift', True), ('e.iff', False)])):
        f = ctx.fn(VC, f'_ValueClassInstance.{m}')
        exm = execute(f, {}, {}, loop_passes=1)
        for cname, c in list(exm.closures.items()):
            # a nested `def body()` handed to the fixpoint driver: read what it does
            exm.scopes.append(('closure', cname))
            exm.run(c.body)
            exm.scopes.pop()
        cond = 'e.cond' if m == '_visit_if_expr' else 'stmt.cond'
        for subj, truth in arms:
            evs = [e for e in exm.events if e.kind == 'call' and e.name in ('self._visit_block', 'self._operand', 'self._visit_expr') and e.args and show(e.args[0]) == subj]
            scopes = [[s for s in e.scopes if s[0] == 'with'] for e in evs]
            want = ('call', 'self._refined', (_term_of(cond), ('k', truth)), ())
            ok = len(evs) == 1 and len(scopes[0]) == 1 and scopes[0][0][1] == want
            ctx.check(ok, VC, evs[0].node if evs else f, f'_ValueClassInstance.{m}', f'{subj} is read with {cond} known to be {truth}',
                      f'read under {[[show(s[1]) for s in sc] for sc in scopes]}: a refinement from the wrong arm excludes classes the value can have there')
        merges = [e for e in exm.events if e.kind == 'call' and e.name in ('self._merge_phis', 'self._fixpoint')]
        if m != '_visit_if_expr':
            ok = len(merges) == 1 and not any(s[0] == 'with' for s in merges[0].scopes) or (m == '_visit_while' and len(merges) == 1)
            ctx.check(ok, VC, f, f'_ValueClassInstance.{m}', 'the phis are joined outside the arms\' refinement', 'the join runs under an arm\'s refinement')
    f = ctx.fn(VC, '_ValueClassInstance._refined')
    t = norm(f, 4000)
    ok = 'saved = self._refine' in t and 'out = dict(saved)' in t and 'try: yield finally: self._refine = saved' in t and 'out[d] = out.get(d, _TOP) & cls' in t
    ctx.check(ok, VC, f, '_ValueClassInstance._refined', 'an arm narrows a copy of the enclosing mask and the enclosing mask is restored afterwards (also on an exception)',
              'the refinement of one arm can leak into its sibling or into the code after the branch')
    f = ctx.fn(VC, '_ValueClassInstance._visit_while')
    exm = execute(f, {}, {}, loop_passes=1)
    inner = [e for e in exm.events if any(s == ('closure', 'body') for s in e.scopes) and e.kind == 'call' and e.name == 'self._visit_expr']
    ok = any(show(e.args[0]) == 'stmt.cond' for e in inner) or 'self._visit_expr(stmt.cond, ctx)' in norm([s for s in f.body if isinstance(s, ast.FunctionDef)][0], 2000)
    ctx.check(ok, VC, f, '_ValueClassInstance._visit_while', 'the loop condition is re-read in every pass of the fixpoint', 'the condition keeps the classes of the first pass')

    # partial evaluation
    d2_partial_eval(ctx)

    # array sizes
    for m in ('_visit_if1', '_visit_if'):
        _check_merge(ctx, AS, f'_ArraySizeInferInstance.{m}')
    _check_fixpoint(ctx, AS, '_ArraySizeInferInstance._iterate_to_fixpoint')
    f = ctx.fn(AS, '_ArraySizeInferInstance._iterate_to_fixpoint')
    t = norm(f, 4000)
    ctx.check('prev_changes = self._uf_changes' in t and 'self._uf_changes == prev_changes and all(' in t, AS, f, '_ArraySizeInferInstance._iterate_to_fixpoint',
              'the iteration also waits for the size equalities (union-find) to stop changing', 'a merge in the last pass is not propagated to the phis')
    f = ctx.fn(AS, '_ArraySizeInferInstance._join_size')
    rets = [s for s in walk_no_nested(f) if isinstance(s, ast.Return)]
    ok = len(rets) == 1 and isinstance(rets[0].value, ast.IfExp) and norm(rets[0].value.orelse) == 'None' and 'ra is not None' in norm(rets[0].value.test) \
        and '== _repr_size(b, self.uf)' in norm(rets[0].value.test) and norm(rets[0].value.body) == 'ra'
    ctx.check(ok, AS, f, '_ArraySizeInferInstance._join_size', 'two sizes join to a size only when they are provably the same; otherwise unknown', f'got {norm(rets[0]) if rets else None}')
    f = ctx.fn(AS, '_ArraySizeInferInstance._unify')
    t = norm(f, 4000)
    ctx.check('size = self._join_size(t1.size, t2.size)' in t and 'elt = self._unify(t1.elt, t2.elt)' in t, AS, f, '_ArraySizeInferInstance._unify',
              'list bounds join their sizes and, recursively, their element bounds', 'changed')


def d2_partial_eval(ctx: Ctx):
    """The constant-propagation part of D2 (also registered under C07: `simplify` folds what this analysis reports)."""
    from .c19 import ieval, outcome
    _check_merge(ctx, PE, '_PartialEvalInstance._merge_branch_phis')
    ex, phi = _check_fixpoint(ctx, PE, '_PartialEvalInstance._loop_fixpoint')
    # the constants of this lattice are numbers, and a NaN is `!=` to itself: a convergence test written with `==` / `!=`
    # sees a loop that carries a constant NaN change on every pass and never stops
    fx = ctx.fn(PE, '_PartialEvalInstance._loop_fixpoint')
    same = _sameness_functions(ctx, PE)
    cur = [('at', sym('self.by_def'), phi), ('call', 'self.by_def.get', (phi,), ())]

    def raw_compares(g):
        if isinstance(g, tuple):
            if g and g[0] == 'cmp' and g[1] in ('==', '!=') and any(_mentions(g[2], c) or _mentions(g[3], c) for c in cur):
                yield g
            for x in g:
                yield from raw_compares(x)
    exits = [e for e in ex.events if _in_loop(e) and (e.kind == 'return' or (e.kind == 'call' and e.name == 'break'))]
    raw = [g for e in exits for gd in e.guards for g in raw_compares(gd)]
    by_fn = [gd for e in exits for gd in e.guards if _stability(gd, phi, same=same) is True and not list(raw_compares(gd))]
    ctx.check(not raw and bool(by_fn), PE, fx, '_PartialEvalInstance._loop_fixpoint', 'whether a phi changed is decided by a test that calls a NaN constant the same as itself',
              f'decided with {[show(g)[:80] for g in raw] or "no recognised test"} (sameness functions of the module: {sorted(same) or "none"}): '
              '`a = fp.nan(); for _ in range(n): a = fp.nan(); return a` keeps the analysis, and simplify, spinning forever')
    # a definition the analysis has no value for is *unknown* (top), not *unvisited* (the meet's unit):
    # both operands of every meet are read with the top default
    for q in ('_PartialEvalInstance._merge_branch_phis', '_PartialEvalInstance._loop_fixpoint'):
        fn = ctx.fn(PE, q)
        exq = execute(fn, {}, {}, loop_passes=1)
        for e in exq.calls('self._meet'):
            for a in e.args[:2]:
                ok = isinstance(a, tuple) and a[0] == 'call' and a[1] == 'self.by_def.get' and len(a[2]) == 2 and a[2][1] == sym('_TOP')
                ctx.check(ok, PE, e.node, q, f'meet operand {show(a)[:90]}: a definition without a recorded value counts as unknown',
                          'read without the top default, an unknown incoming value is the unit of the meet: `x = a; for ...: x = 1.0; return x` folds to 1.0 although '
                          'the loop may not run')
    f = ctx.fn(PE, '_PartialEvalInstance._meet')
    pe_funcs = _module_functions(ctx, PE)
    pe_meths = {n: fn_ for n, (_, _, fn_) in ctx.repo.methods(PE, '_PartialEvalInstance', inherited=False).items()}
    rows = []
    for a, b in itertools.product((None, 'V1', 'V2', 'TOP'), repeat=2):
        got = Interp(pe_funcs, methods=pe_meths, globals_={'_TOP': 'TOP'}).call_function(pe_meths['_meet'], [a, b], bound_self=True)
        want = b if a is None else a if b is None else 'TOP' if 'TOP' in (a, b) else a if a == b else 'TOP'
        rows.append((a, b, got, want))
    bad = [r for r in rows if r[2] != r[3]]
    ctx.check(not bad, PE, f, '_PartialEvalInstance._meet', 'meet: unknown is the unit, top absorbs, equal constants survive, different constants go to top (16 rows)',
              f'{bad[:3]}: an expression would be reported constant although two different values reach it')
    # two constants are "the same" sign and all: `==` on numbers calls +0.0 and -0.0 equal
    def zero(neg: bool) -> Obj:
        def eq(me, other):
            if isinstance(other, Obj) and other.kind == 'Float':
                return True                                   # IEEE ==: the two zeros are equal
            return other == 0
        return Obj('Float', s=neg, eq=eq, is_zero=lambda: True, is_nar=lambda: False, isnan=False, isinf=False)

    def same_value(a, b):
        return a.fields['s'] == b.fields['s']
    pz, nz, nz2, q0 = zero(False), zero(True), zero(True), Fraction(0)
    funcs = _module_functions(ctx, PE)
    meths = {n: f for n, (_, _, f) in ctx.repo.methods(PE, '_PartialEvalInstance', inherited=False).items()}
    bad = None
    for a, b, want_same in ((pz, nz, False), (nz, pz, False), (q0, nz, False), (nz, q0, False), (nz, nz2, True), (pz, q0, True), (q0, q0, True)):
        it = Interp(funcs, methods=meths, globals_={'_TOP': 'TOP'}, overrides={'same_value': same_value})
        got = it.call_function(meths['_meet'], [a, b], bound_self=True)
        is_top = isinstance(got, str) and got == 'TOP'
        if is_top == want_same and bad is None:
            name = {id(pz): '+0.0', id(nz): '-0.0', id(nz2): '-0.0', id(q0): '0 (rational)'}
            bad = f'meet({name[id(a)]}, {name[id(b)]}) = {"top" if is_top else "a constant"}'
    ctx.check(bad is None, PE, f, '_PartialEvalInstance._meet', 'constants are compared sign and all: +0.0 and -0.0 do not merge into one constant',
              (bad or '') + ': `if c: x = 0.0 else: x = -0.0; return x` would be folded to one of the two zeros')
    # folded lists and tuples: the same constant only when they have the same kind, the same length and the same elements
    one, two, three = Fraction(1), Fraction(2), Fraction(3)
    bad = None
    for a, b, want_same in (([one], [one, two], False), ([one, two], [one], False), ([], [one], False), ([one, two], [one, two], True), ([one, two], [one, three], False),
                            ((one, two), [one, two], False), ([[one], [two]], [[one], [two, three]], False), ([[one], [two, three]], [[one], [two, three]], True),
                            ((one, [two]), (one, [two, three]), False), ([nz], [pz], False)):
        it = Interp(funcs, methods=meths, globals_={'_TOP': 'TOP'}, overrides={'same_value': same_value})
        got = it.call_function(meths['_meet'], [a, b], bound_self=True)
        is_top = isinstance(got, str) and got == 'TOP'
        if is_top == want_same and bad is None:
            bad = f'meet({a!r}, {b!r}) = {"top" if is_top else "a constant"}'.replace('Fraction', '')
    ctx.check(bad is None, PE, f, '_PartialEvalInstance._meet', 'folded lists / tuples merge into one constant only with the same kind, length and elements (10 rows)',
              (bad or '') + ': `if c: xs = [1.0] else: xs = [1.0, 2.0]; return len(xs)` would report `len(xs)` as the constant 1')
    for m in ('_visit_if1', '_visit_if'):
        f = ctx.fn(PE, f'_PartialEvalInstance.{m}')
        calls = [call_name(k) for k in calls_in(f)]
        ctx.check(calls and calls[-1] == 'self._merge_branch_phis', PE, f, f'_PartialEvalInstance.{m}', 'the branch phis are merged after every arm has been read', f'calls {calls}')
    for m in ('_visit_while', '_visit_for'):
        f = ctx.fn(PE, f'_PartialEvalInstance.{m}')
        ks = [k for k in calls_in(f) if call_name(k) == 'self._loop_fixpoint']
        # what one pass of the fixpoint reads: a lambda, or a local function handed over by name
        one_pass = None
        if len(ks) == 1 and len(ks[0].args) == 2:
            one_pass = ks[0].args[1]
            if isinstance(one_pass, ast.Name):
                one_pass = next((s for s in f.body if isinstance(s, ast.FunctionDef) and s.name == one_pass.id), None)
        reads = [norm(k) for k in calls_in(one_pass)] if one_pass is not None else []
        ok = len(ks) == 1 and norm(ks[0].args[0]) == 'stmt' and 'self._visit_block(stmt.body, ctx)' in reads
        ctx.check(ok, PE, f, f'_PartialEvalInstance.{m}', 'the loop body is read under the fixpoint of this statement\'s phis', f'got {[norm(k) for k in ks]}')
        if m == '_visit_while':
            # the condition reads the header phis too: it belongs to the pass, and nowhere else
            outside = [k for k in calls_in(f) if norm(k) == 'self._visit_expr(stmt.cond, ctx)' and not (one_pass is not None and any(x is k for x in ast.walk(one_pass)))]
            ok = ok and 'self._visit_expr(stmt.cond, ctx)' in reads
            ctx.check(ok and not outside, PE, f, '_PartialEvalInstance._visit_while', 'the loop condition is read on every pass of the fixpoint, with the phis of that pass',
                      'the condition is read once ahead of the fixpoint: in a loop nested in another one it sees the phis as the enclosing loop\'s previous pass left them, '
                      'and `while t < y + 1` is folded to `while t < 1`')
    f = ctx.fn(PE, '_PartialEvalInstance._visit_assign')
    t = norm(f, 3000)
    ctx.check('else: self._clear_binding(stmt, stmt.target)' in t, PE, f, '_PartialEvalInstance._visit_assign',
              'a right-hand side that is not constant clears what an earlier pass recorded for the target', 'a constant from an optimistic first pass survives after the phi went to top')
    # a constant bound through a pattern: a list unpacks like a tuple (the interpreter accepts `a, b = [1.0, 2.0]`), and a
    # constant of any other shape leaves the names unknown -- the analysis never raises on a program that runs
    f = ctx.fn(PE, '_PartialEvalInstance._visit_binding')
    nm = {k: Obj('NamedId', label=k) for k in 'abc'}
    pat2 = Obj('TupleBinding', elts=[nm['a'], nm['b']])
    nested = Obj('TupleBinding', elts=[nm['a'], Obj('TupleBinding', elts=[nm['b'], nm['c']])])
    one, two, three = Fraction(1), Fraction(2), Fraction(3)
    for what, pat, val, want in (('a, b = (1, 2)', pat2, (one, two), {'a': one, 'b': two}), ('a, b = [1, 2]', pat2, [one, two], {'a': one, 'b': two}),
                                 ('a, (b, c) = (1, [2, 3])', nested, (one, [two, three]), {'a': one, 'b': two, 'c': three}),
                                 ('a, b = [1, 2, 3]', pat2, [one, two, three], {}), ('a, b = 1', pat2, one, {})):
        by_def: dict = {}
        it = Interp(pe_funcs, methods=pe_meths, globals_={'_TOP': 'TOP'}, is_a=lambda k, c: k == c or (k == 'NamedId' and c == 'Id'),
                    self_obj=Obj('_PartialEvalInstance', by_def=by_def, def_use=Obj('DefineUseAnalysis', find_def_from_site=lambda name, site: name.fields['label'])))
        try:
            it.call_function(pe_meths['_visit_binding'], [Obj('Assign'), pat, val], bound_self=True)
            got: Any = dict(by_def)
        except Exception as exc:  # the source raises (an assertion, an unpacking error)
            got = f'raises {type(exc).__name__}'
        # (a right-hand side of the wrong shape: the program raises when run, so only "the analysis does not" is asked)
        ctx.check(got == want if want else not isinstance(got, str), PE, f, '_PartialEvalInstance._visit_binding',
                  f'`{what}` with a constant right-hand side ' + (f'binds {want}' if want else 'is analysed without raising'),
                  f'got {got}: ConstFold and simplify fail (or bind the wrong constants) on a program that runs')
    f = ctx.fn(PE, '_PartialEvalInstance._visit_expr')
    ctx.check(any(norm(s) == 'self.by_expr.pop(e, None)' for s in f.body), PE, f, '_PartialEvalInstance._visit_expr',
              'a revisited expression forgets the value of the previous pass first', 'a constant from an optimistic first pass survives')


def _term_of(text: str) -> Any:
    base, attr = text.split('.')
    return ('attr', sym(base), attr)


# ----------------------------------------------------------------------
# T1: value-class tables against IEEE semantics

from fractions import Fraction  # noqa: E402

from ..minipy import Interp, Obj  # noqa: E402

NAN, INF, ZERO, FIN = 1, 2, 4, 8
ATOMS = (NAN, INF, ZERO, FIN)
ATOM_NAME = {NAN: 'NaN', INF: 'Inf', ZERO: 'Zero', FIN: 'Finite'}
FLAG_GLOBALS = {'_NAN': NAN, '_INF': INF, '_ZERO': ZERO, '_FINITE': FIN, '_TOP': 15, '_BOT': 0}
TINY = Fraction(1, 2 ** 1074)           # stands for a subnormal: finite, non-zero, not normal
SAMPLES = {
    NAN: [math.nan], INF: [math.inf, -math.inf], ZERO: [Fraction(0)],
    FIN: [Fraction(1), Fraction(-1), Fraction(2), Fraction(1, 2), Fraction(3), TINY],
}
ALL_VALUES = [v for a in ATOMS for v in SAMPLES[a]]


def _cls(x) -> int:
    if isinstance(x, float):
        return NAN if math.isnan(x) else INF
    return ZERO if x == 0 else FIN


def _mask_name(m: int) -> str:
    return '{' + ', '.join(ATOM_NAME[a] for a in ATOMS if m & a) + '}'


def _neg(x):
    return -x


def _cadd(x, y):
    if isinstance(x, float) or isinstance(y, float):
        fx = x if isinstance(x, float) else 1.0
        fy = y if isinstance(y, float) else 1.0
        if math.isnan(fx) or math.isnan(fy):
            return math.nan
        if isinstance(x, float) and isinstance(y, float):
            return x if x == y else math.nan
        return x if isinstance(x, float) else y
    return x + y


def _cmul(x, y):
    if isinstance(x, float) or isinstance(y, float):
        if (isinstance(x, float) and math.isnan(x)) or (isinstance(y, float) and math.isnan(y)):
            return math.nan
        if (not isinstance(x, float) and x == 0) or (not isinstance(y, float) and y == 0):
            return math.nan
        sx = (x > 0) if isinstance(x, float) else (x > 0)
        sy = (y > 0) if isinstance(y, float) else (y > 0)
        return math.inf if sx == sy else -math.inf
    return x * y


def _clogb(x):
    if isinstance(x, float):
        return math.nan if math.isnan(x) else math.inf
    if x == 0:
        return -math.inf
    a = abs(x)
    e = 0
    while a >= 2:
        a /= 2
        e += 1
    while a < 1:
        a *= 2
        e -= 1
    return Fraction(e)


def _cpow(b: Fraction, y):
    if isinstance(y, float):
        if math.isnan(y):
            return math.nan
        grows = (b > 1) == (y > 0)
        return math.inf if grows else Fraction(0)
    return Fraction(1) if y == 0 else Fraction(2)     # any positive real power of a positive base is finite and non-zero


def _module_functions(ctx: Ctx, rel: str) -> dict[str, ast.FunctionDef]:
    return {s.name: s for s in ctx.repo.module(rel).tree.body if isinstance(s, ast.FunctionDef)}


def _holds(rel_sat, masks: dict[str, int], values: dict[str, Any]) -> bool:
    return all(_cls(values[v]) & m for v, m in masks.items())


def t1_value_class_tables(ctx: Ctx):
    L = lang(ctx.repo)
    funcs = _module_functions(ctx, VC)
    meths = {n: f for n, (_, _, f) in ctx.repo.methods(VC, '_ValueClassInstance', inherited=False).items()}
    mod = ctx.repo.module(VC)
    top = mod.toplevel()
    # the atoms are distinct single bits and TOP is their union (what the bit encoding below relies on)
    vc = ctx.repo.cls(VC, 'ValueClass')
    members = [s.targets[0].id for s in vc.body if isinstance(s, ast.Assign) and isinstance(s.targets[0], ast.Name)]
    autos = [s.targets[0].id for s in vc.body if isinstance(s, ast.Assign) and isinstance(s.value, ast.Call) and dotted(s.value.func) == 'enum.auto']
    topdef = [norm(s.value) for s in vc.body if isinstance(s, ast.Assign) and norm(s.targets[0]) == 'TOP']
    ok = autos == ['NAN', 'INF', 'ZERO', 'FINITE'] and topdef == ['NAN | INF | ZERO | FINITE'] and any(dotted(b) == 'enum.Flag' for b in vc.bases)
    ctx.check(ok, VC, vc, 'ValueClass', 'four one-bit atoms NaN / Inf / Zero / Finite and TOP their union', f'members {members}')
    aliases = {n: norm(getattr(top.get(n), 'value', None)) for n in ('_NAN', '_INF', '_ZERO', '_FINITE', '_TOP', '_BOT')}
    ok = aliases == {'_NAN': 'ValueClass.NAN', '_INF': 'ValueClass.INF', '_ZERO': 'ValueClass.ZERO', '_FINITE': 'ValueClass.FINITE', '_TOP': 'ValueClass.TOP', '_BOT': 'ValueClass(0)'}
    ctx.check(ok, VC, 0, 'module', 'the module aliases name the atoms they say', f'got {aliases}')

    it = Interp(funcs, globals_=dict(FLAG_GLOBALS))
    # class_of: the concrete classification the facts are about
    co = funcs.get('class_of')
    if co is None:
        raise ShapeError('class_of not found')
    bad = None
    for x in ALL_VALUES:
        st = Obj('Float', isnan=isinstance(x, float) and math.isnan(x), isinf=isinstance(x, float) and math.isinf(x), is_zero=(lambda x=x: not isinstance(x, float) and x == 0))
        got = Interp(funcs, globals_=dict(FLAG_GLOBALS)).call_function(co, [st])
        if got != _cls(x) and bad is None:
            bad = f'class_of({x}) = {_mask_name(got)}'
    ctx.check(bad is None, VC, co, 'class_of', 'class_of sorts NaN, infinities, zeros and finite non-zeros into their atoms', bad or '')

    def sound(name: str, fn_name: str, concrete_ops, arity: int):
        f = funcs.get(fn_name)
        if f is None:
            raise ShapeError(f'{fn_name} not found')
        ctx.functions_analysed.add((VC, fn_name))
        bad = None
        n = 0
        for A in range(1, 16):
            for B in (range(1, 16) if arity == 2 else [0]):
                got = Interp(funcs, globals_=dict(FLAG_GLOBALS)).call_function(f, [A, B] if arity == 2 else [A])
                want = 0
                for a in ATOMS:
                    if not A & a:
                        continue
                    for x in SAMPLES[a]:
                        if arity == 1:
                            for op in concrete_ops:
                                want |= _cls(op(x))
                            continue
                        for b in ATOMS:
                            if not B & b:
                                continue
                            for y in SAMPLES[b]:
                                for op in concrete_ops:
                                    want |= _cls(op(x, y))
                n += 1
                if want & ~got and bad is None:
                    bad = (f'{fn_name}({_mask_name(A)}' + (f', {_mask_name(B)}' if arity == 2 else '') + f') = {_mask_name(got)} but the exact result can be {_mask_name(want & ~got)}')
        ctx.check(bad is None, VC, f, fn_name, f'{name}: the result class covers every exact result ({n} operand class pairs)', bad or '')
    sound('a + b and a - b', '_exact_add', [_cadd, lambda x, y: _cadd(x, _neg(y))], 2)
    sound('a * b', '_exact_mul', [_cmul], 2)
    # empty operand -> empty result is fine; a non-empty pair must not come out empty
    for tbl, oracle, what in (('_LOGB', [_clogb], 'logb(x)'), ('_POW_POS_BASE', [lambda y, b=b: _cpow(b, y) for b in (Fraction(2), Fraction(1, 2), Fraction(3))], 'b ** y for a positive literal b != 1')):
        node = top.get(tbl)
        val = getattr(node, 'value', None)
        if not isinstance(val, ast.Dict):
            raise ShapeError(f'{tbl} is not a dict literal')
        table = {it.ev(k, {}): it.ev(v, {}) for k, v in zip(val.keys, val.values)}
        bad = None
        for a in ATOMS:
            want = 0
            for x in SAMPLES[a]:
                for op in oracle:
                    want |= _cls(op(x))
            got = table.get(a, 0)
            if want & ~got and bad is None:
                bad = f'{tbl}[{ATOM_NAME[a]}] = {_mask_name(got)} but {what} can be {_mask_name(want & ~got)}'
        ctx.check(bad is None and set(table) == set(ATOMS), VC, node, tbl, f'{tbl}: every atom has a row that covers {what}', bad or f'rows for {sorted(table)}')
    mp = funcs.get('_map')
    bad = None
    for A in range(0, 16):
        tbl = {NAN: 1, INF: 2, ZERO: 6, FIN: 12}
        got = Interp(funcs, globals_=dict(FLAG_GLOBALS)).call_function(mp, [tbl, A])
        want = 0
        for a in ATOMS:
            if A & a:
                want |= tbl[a]
        if got != want and bad is None:
            bad = f'_map(table, {_mask_name(A)}) = {_mask_name(got)}, expected {_mask_name(want)}'
    ctx.check(bad is None, VC, mp, '_map', '_map is the union of the rows of the atoms present', bad or '')

    # refinement: what a condition being true / false says about the variables it tests
    def at(e, cls):
        return [(e.fields['name'], cls)] if isinstance(e, Obj) and e.kind == 'Var' else []
    interp = Interp(funcs, methods=meths, globals_=dict(FLAG_GLOBALS), is_a=L.is_a, overrides={'self._at': at})

    def var(n):
        return Obj('Var', name=n)

    def lit(v):
        return Obj('Integer', as_rational=(lambda v=v: Fraction(v)), val=v)

    def un(kind, a):
        return Obj(kind, arg=a, args=(a,))

    def cmp_(ops, args):
        return Obj('Compare', ops=[('enum', 'CompareOp', o) for o in ops], args=list(args))

    def ceval(c: Obj, env: dict[str, Any]):
        k = c.kind
        if k == 'Var':
            return env[c.fields['name']]
        if k == 'Integer':
            return Fraction(c.fields['val'])
        if k == 'Not':
            return not ceval(c.fields['arg'], env)
        if k == 'And':
            return all(ceval(a, env) for a in c.fields['args'])
        if k == 'Or':
            return any(ceval(a, env) for a in c.fields['args'])
        if k in ('IsNan', 'IsInf', 'IsFinite', 'IsNormal'):
            x = ceval(c.fields['arg'], env)
            if k == 'IsNan':
                return isinstance(x, float) and math.isnan(x)
            if k == 'IsInf':
                return isinstance(x, float) and math.isinf(x)
            if k == 'IsFinite':
                return not isinstance(x, float)
            return not isinstance(x, float) and x != 0 and x != TINY
        if k == 'Compare':
            vals = [ceval(a, env) for a in c.fields['args']]
            for (_, _, op), a, b in zip(c.fields['ops'], vals, vals[1:]):
                if (isinstance(a, float) and math.isnan(a)) or (isinstance(b, float) and math.isnan(b)):
                    r = op == 'NE'
                else:
                    fa, fb = float(a), float(b)
                    r = {'LT': fa < fb, 'LE': fa <= fb, 'GE': fa >= fb, 'GT': fa > fb, 'EQ': fa == fb, 'NE': fa != fb}[op]
                if not r:
                    return False
            return True
        raise ShapeError(f'condition kind {k}')

    x, y = var('x'), var('y')
    conds: list[tuple[str, Obj]] = []
    preds = ('IsNan', 'IsInf', 'IsFinite', 'IsNormal')
    for p in preds:
        conds.append((f'{p.lower()}(x)', un(p, x)))
        conds.append((f'not {p.lower()}(x)', un('Not', un(p, x))))
    for p, q in itertools.permutations(preds, 2):
        conds.append((f'{p.lower()}(x) and {q.lower()}(y)', Obj('And', args=[un(p, x), un(q, y)])))
        conds.append((f'{p.lower()}(x) or {q.lower()}(x)', Obj('Or', args=[un(p, x), un(q, x)])))
    OPS = ('LT', 'LE', 'GE', 'GT', 'EQ', 'NE')
    SYM = {'LT': '<', 'LE': '<=', 'GE': '>=', 'GT': '>', 'EQ': '==', 'NE': '!='}
    for op in OPS:
        for a, b, txt in ((x, lit(0), f'x {SYM[op]} 0'), (x, lit(1), f'x {SYM[op]} 1'), (lit(0), x, f'0 {SYM[op]} x'), (lit(1), x, f'1 {SYM[op]} x'), (x, y, f'x {SYM[op]} y')):
            c = cmp_([op], [a, b])
            conds.append((txt, c))
            conds.append((f'not ({txt})', un('Not', c)))
    for o1, o2 in itertools.product(OPS, repeat=2):
        conds.append((f'0 {SYM[o1]} x {SYM[o2]} y', cmp_([o1, o2], [lit(0), x, y])))
        conds.append((f'x {SYM[o1]} 0 {SYM[o2]} y', cmp_([o1, o2], [x, lit(0), y])))
    conds.append(('x != 0 and isfinite(x)', Obj('And', args=[cmp_(['NE'], [x, lit(0)]), un('IsFinite', x)])))
    conds.append(('not (isnan(x) or x == 0)', un('Not', Obj('Or', args=[un('IsNan', x), cmp_(['EQ'], [x, lit(0)])]))))
    n = 0
    bad = None
    for txt, c in conds:
        for truth in (True, False):
            got = interp.call_function(meths['_implied'], [c, truth], bound_self=True)
            masks: dict[str, int] = {}
            for name, m in got:
                masks[name] = masks.get(name, 15) & m
            n += 1
            for vx in ALL_VALUES:
                for vy in ALL_VALUES:
                    env = {'x': vx, 'y': vy}
                    if bool(ceval(c, env)) != truth:
                        continue
                    for name, m in masks.items():
                        if not (_cls(env[name]) & m) and bad is None:
                            bad = (f'`{txt}` being {truth} is taken to imply {name} in {_mask_name(m)}, but {name} = {env[name]} '
                                   f'({_mask_name(_cls(env[name]))}) makes it {truth}' + (f' with y = {vy}' if 'y' in txt and name == 'x' else ''))
    f = meths['_implied']
    ctx.check(bad is None, VC, f, '_ValueClassInstance._implied', f'a branch refinement never excludes a class the tested variable can have in that arm ({n} condition / outcome pairs)', bad or '')
    ctx.functions_analysed.add((VC, '_ValueClassInstance._implied_compare'))


# ----------------------------------------------------------------------
# X1: conservative defaults of the value-class analysis

def x1_conservative_defaults(ctx: Ctx):
    q = '_ValueClassInstance._rounded'
    f = ctx.fn(VC, q)
    from .c19 import outcome
    body = [s for s in f.body if not (isinstance(s, ast.Expr) and isinstance(s.value, ast.Constant)) and not isinstance(s, ast.Assign)]
    k, n = outcome(body, {'scope is None': True})
    ctx.check(k == 'return' and norm(n.value) == '_TOP', VC, f, q, 'an operation with no known scope may produce any class', f'got {norm(n) if n is not None else k}')  # type: ignore
    k, n = outcome(body, {'scope is None': False, 'isinstance(scope.ctx, Context)': False})
    ctx.check(k == 'return' and norm(n.value) == '_TOP', VC, f, q, 'an operation under a symbolic context may produce any class', f'got {norm(n) if n is not None else k}')  # type: ignore
    k, n = outcome(body, {'scope is None': False, 'isinstance(scope.ctx, Context)': True})
    ok = k == 'return' and norm(n.value) in ('exact if scope.ctx is REAL else representable_classes(scope.ctx)',)  # type: ignore
    ctx.check(ok, VC, f, q, 'only under REAL does the exact class stand; under any other concrete context the result is whatever that context can represent',
              f'got {norm(n) if n is not None else k}')
    # pass-through operations do not round, so the context says nothing about their result
    L = lang(ctx.repo)
    passthrough = {'_visit_unaryop': ['AMin', 'AMax', 'Fst', 'Snd'], '_visit_naryop': ['Min', 'Max']}
    for m, kinds in passthrough.items():
        fn = ctx.fn(VC, f'_ValueClassInstance.{m}')
        ms = [s for s in walk_no_nested(fn) if isinstance(s, ast.Match)]
        if len(ms) != 1:
            raise ShapeError(f'{m}: match not found')
        for kind in kinds:
            case = next((c for c in ms[0].cases if pattern_matches(ctx.repo, VC, c.pattern, Inst(kind))), None)
            uses_rounded = case is not None and any(call_name(k) == 'self._rounded' for s in case.body for k in calls_in(s))
            ctx.check(case is not None and not uses_rounded, VC, case.pattern if case is not None else fn, f'_ValueClassInstance.{m}',
                      f'{kind} hands an operand through unrounded: its class is not narrowed to what the context represents',
                      f'{kind} is given the context\'s classes: a NaN operand would be reported impossible under a context without NaN')
    fn = ctx.fn(VC, '_ValueClassInstance._visit_naryop')
    ms = [s for s in walk_no_nested(fn) if isinstance(s, ast.Match)][0]
    case = next(c for c in ms.cases if pattern_matches(ctx.repo, VC, c.pattern, Inst('Min')))
    t = ' '.join(norm(s) for s in case.body)
    ctx.check('out = _BOT' in t and 'for a in args: out |= a' in t and 'return out' in t, VC, case.pattern, '_ValueClassInstance._visit_naryop',
              'min / max: the union of the operands\' classes', f'got {t[:120]}')
    # every operator dispatch ends in a catch-all that claims nothing beyond the context
    for m in ('_visit_unaryop', '_visit_binaryop', '_visit_naryop', '_visit_nullaryop'):
        fn = ctx.fn(VC, f'_ValueClassInstance.{m}')
        ms = [s for s in walk_no_nested(fn) if isinstance(s, ast.Match)]
        last = ms[0].cases[-1] if ms else None
        ok = last is not None and isinstance(last.pattern, ast.MatchAs) and last.pattern.pattern is None and last.guard is None
        if m == '_visit_nullaryop':
            ok = ok and norm(last.body[0]) == 'exact = _FINITE'
            ctx.check(ok, VC, fn, f'_ValueClassInstance.{m}', 'a named constant other than nan / inf is finite and non-zero (pi, e, ln2, ...)', 'catch-all changed')
        else:
            ok = ok and norm(last.body[0]) in ('return self._rounded(e, _TOP)', 'return _TOP')
            ctx.check(ok, VC, fn, f'_ValueClassInstance.{m}', 'an operation without a rule claims only what its rounding context can represent', 'catch-all changed')
    for m, want in (('_visit_call', 'return _TOP'), ('_visit_ternaryop', 'return self._rounded(e, _TOP)')):
        fn = ctx.fn(VC, f'_ValueClassInstance.{m}')
        ctx.check(norm(fn.body[-1]) == want, VC, fn, f'_ValueClassInstance.{m}', f'{m[7:]}: {want[7:]}', f'got {norm(fn.body[-1])}')
    fn = ctx.fn(VC, '_ValueClassInstance._visit_var')
    ctx.check(norm(fn.body[-1]) == 'return self._def_class(d) & self._refine.get(d, _TOP)', VC, fn, '_ValueClassInstance._visit_var',
              'a read is the definition\'s class narrowed by the enclosing arms\' mask (top when there is none)', f'got {norm(fn.body[-1])}')
    fn = ctx.fn(VC, '_ValueClassInstance._def_class')
    ctx.check('else _TOP' in norm(fn.body[-1]), VC, fn, '_ValueClassInstance._def_class', 'a definition without a class is the top class', f'got {norm(fn.body[-1])}')
    for m, val in (('_visit_for', '_TOP'), ('_visit_list_comp', '_TOP')):
        fn = ctx.fn(VC, f'_ValueClassInstance.{m}')
        ks = [k for k in calls_in(fn) if call_name(k) == 'self._bind']
        ctx.check(len(ks) == 1 and norm(ks[0].args[-1]) == val, VC, fn, f'_ValueClassInstance.{m}', 'a loop / comprehension target is unconstrained', f'got {[norm(k) for k in ks]}')
    fn = ctx.fn(VC, '_ValueClassInstance._bind')
    t = norm(fn, 3000)
    ctx.check('self._bind(site, sub, _TOP)' in t, VC, fn, '_ValueClassInstance._bind', 'an unpacked tuple element is unconstrained', 'changed')
    fn = ctx.fn(VC, '_ValueClassInstance._visit_function')
    t = norm(fn, 3000)
    ctx.check('_arg_class(self.type_info.by_def.get(d))' in t and 'self._set_def(self.def_use.find_def_from_site(v, func), _TOP)' in t, VC, fn, '_ValueClassInstance._visit_function',
              'parameters get the classes their declared context represents, free variables the top class', 'changed')
    fn = ctx.fn(VC, '_arg_class')
    ctx.check(norm(fn.body[-1]) == 'return _TOP', VC, fn, '_arg_class', 'a parameter without a concrete context is unconstrained', f'got {norm(fn.body[-1])}')
    fn = ctx.fn(VC, 'representable_classes')
    t = norm(fn, 3000)
    ctx.check('out = _ZERO | _FINITE' in t and 'out |= _rounded_class(ctx, x)' in t, VC, fn, 'representable_classes',
              'zero and finite are always representable; NaN / Inf only where rounding one gives one back (the substitute\'s class otherwise)', 'changed')
    probes = ctx.repo.module(VC).toplevel().get('_PROBES')
    ctx.check(probes is not None and norm(probes.value) == '(Float(isnan=True), Float(isinf=True), Float(isinf=True, s=True))', VC, probes or 0, '_PROBES',
              'the probes are a NaN and both infinities', f'got {norm(probes.value) if probes is not None else None}')


# ----------------------------------------------------------------------
# G1: constants of list type (shared with C07.G2)

def g4_stated_lengths(ctx: Ctx):
    """Array-size inference starts from the list lengths type inference states.  Two places state one from something
    other than the program text: the type of a captured value, and the type of a slice.  `ListType.__eq__` ignores the
    length (it is metadata), so rows of different length are "equal" types.  (a) `_value_to_type` is evaluated, from its
    source, on captured lists: a length is stated for a level only if every list of that level has it.  (b) the type
    `_visit_list_slice` answers with never carries a static length."""
    from fractions import Fraction
    TI = 'fpy2/analysis/type_infer.py'
    cls = '_TypeInferInstance' if ctx.repo.has_cls(TI, '_TypeInferInstance') else next(c.name for c in ctx.repo.classes(TI) if any(isinstance(s, ast.FunctionDef) and s.name == '_value_to_type' for s in c.body))
    meths = {n: f for n, (_, _, f) in ctx.repo.methods(TI, cls, inherited=False).items()}
    # the equality the analysis relies on
    lt = ctx.repo.cls('fpy2/types.py', 'ListType')
    eqf = next((s for s in lt.body if isinstance(s, ast.FunctionDef) and s.name == '__eq__'), None)
    ignores_length = eqf is not None and 'length' not in {a.attr for a in ast.walk(eqf) if isinstance(a, ast.Attribute)}

    def same(me, other):
        if not (isinstance(other, Obj) and other.kind == me.kind):
            return False
        if me.kind == 'ListType':
            return me.fields['elt'] == other.fields['elt'] and (ignores_length or me.fields['length'] == other.fields['length'])
        if me.kind == 'TupleType':
            return len(me.fields['elts']) == len(other.fields['elts']) and all(x == y for x, y in zip(me.fields['elts'], other.fields['elts']))
        return True
    mk = {
        'ListType': lambda elt, length=None: Obj('ListType', elt=elt, length=length, eq=same), 'RealType': lambda c=None: Obj('RealType', eq=same),
        'BoolType': lambda: Obj('BoolType', eq=same), 'ContextType': lambda: Obj('ContextType', eq=same), 'TupleType': lambda *e: Obj('TupleType', elts=tuple(e), eq=same),
        'cast': lambda t, x: x, 'self._fresh_type_var': lambda: Obj('VarType', eq=same), 'Fraction': Fraction,
    }

    def lengths(t) -> Any:
        if isinstance(t, Obj) and t.kind == 'ListType':
            return (t.fields['length'], lengths(t.fields['elt']))
        if isinstance(t, Obj) and t.kind == 'TupleType':
            return tuple(lengths(x) for x in t.fields['elts'])
        return '.'
    cases = [
        ('[1.0, 2.0, 3.0]', [1.0, 2.0, 3.0], (3, '.')), ('[[1.0, 2.0], [3.0, 4.0]]', [[1.0, 2.0], [3.0, 4.0]], (2, (2, '.'))),
        ('[[1.0, 2.0], [3.0]]', [[1.0, 2.0], [3.0]], (2, (None, '.'))), ('[[3.0], [1.0, 2.0]]', [[3.0], [1.0, 2.0]], (2, (None, '.'))),
        ('[[[1.0], [2.0]], [[3.0, 4.0], [5.0]]]', [[[1.0], [2.0]], [[3.0, 4.0], [5.0]]], (2, (2, (None, '.')))),
        ('[([1.0], 2.0), ([3.0, 4.0], 5.0)]', [([1.0], 2.0), ([3.0, 4.0], 5.0)], (2, ((None, '.'), '.'))),
        ('[[1.0, 2.0], [3.0, 4.0], [5.0]]', [[1.0, 2.0], [3.0, 4.0], [5.0]], (3, (None, '.'))),
    ]
    fn = meths.get('_value_to_type')
    if fn is None:
        raise ShapeError('_value_to_type not found')
    for label, val, want in cases:
        got = Interp({}, meths, globals_={'Type': 'Type', 'list': list, 'tuple': tuple}, overrides=mk, is_a=lambda k, c: k == c).call_function(fn, [val], bound_self=True)
        ctx.check(got is None or _no_false_length(lengths(got), want), TI, fn, f'{cls}._value_to_type', f'captured {label}: every stated length is one every list of that level has',
                  f'typed with lengths {lengths(got)}; the value has {want} (None: rows differ) -- `row = RAG[1]` of a ragged RAG is reported with the first row\'s length')
    # (b) slices
    fs = meths.get('_visit_list_slice')
    if fs is None:
        raise ShapeError('_visit_list_slice not found')
    for known in (3, None):
        src = mk['ListType'](mk['RealType'](), known)
        it = Interp({}, meths, overrides={**mk, 'self._visit_expr': lambda e, c, s=src: s if e == 'value' else mk['RealType'](), 'self._unify': lambda a, b: a, 'self._resolve_type': lambda t: t},
                    globals_={'Type': 'Type', 'list': list, 'tuple': tuple}, is_a=lambda k, c: k == c)
        got = it.call_function(fs, [Obj('ListSlice', value='value', start='start', stop='stop'), None], bound_self=True)
        ctx.check(isinstance(got, Obj) and got.kind == 'ListType' and got.fields['length'] is None, TI, fs, f'{cls}._visit_list_slice',
                  f'a slice of a list of {"length " + str(known) if known else "unknown length"} has no static length',
                  f'answers {got!r}: `XS[0:n]` of a captured three-element XS is reported three long whatever n is')
    # (c) the unified type of two list types is also the type of a value that may be either (`A if c else ys`, a merge
    # after a branch): the length it states is one both sides state.  The helper deciding it is evaluated on every pair.
    funcs = _module_functions(ctx, TI)
    ml = funcs.get('_merge_length')
    uses = [k for k in calls_in(meths['_unify']) if call_name(k) == '_merge_length'] if '_unify' in meths else []
    if ml is None or not uses:
        raise ShapeError('the length of a unified list type is no longer decided by _merge_length in _unify')
    n_, m_ = Obj('NamedId', label='n'), Obj('NamedId', label='m')
    vals = [3, 2, n_, m_, None]
    bad = None
    for a, b in itertools.product(vals, repeat=2):
        got = Interp(funcs, is_a=lambda k, c: k == c).call_function(ml, [a, b])
        if got is not None and not (got == a and got == b) and bad is None:
            sh = lambda v: v.fields['label'] if isinstance(v, Obj) else v  # noqa: E731
            bad = f'lengths {sh(a)} and {sh(b)} unify to {sh(got)}'
    ctx.check(bad is None, TI, ml, '_merge_length', 'two list types unify to a length only if both state that length (25 pairs)',
              (bad or '') + ': `zs = A if c else B` with three and two elements is typed three long, and a call returning `A if c else ys` gets the static size 3')
    for k in uses:
        ctx.check([norm(a) for a in k.args] == ['a_ty.length', 'b_ty.length'], TI, k, f'{cls}._unify', 'the two lengths unified are those of the two list types', f'got {norm(k)}')


def _no_false_length(got, want) -> bool:
    """Every length `got` states is the one `want` has at that place (stating fewer is fine)."""
    if got == '.' or want == '.':
        return got == want or got == '.'
    if isinstance(got, tuple) and len(got) == 2 and (got[0] is None or isinstance(got[0], int)) and isinstance(want, tuple) and len(want) == 2 and (want[0] is None or isinstance(want[0], int)):
        return (got[0] is None or got[0] == want[0]) and _no_false_length(got[1], want[1])
    if isinstance(got, tuple) and isinstance(want, tuple) and len(got) == len(want):
        return all(_no_false_length(g, w) for g, w in zip(got, want))
    return False


def g1_heap_constants(ctx: Ctx):
    from . import c07
    sub = Ctx(ctx.repo, ctx.rule)
    c07.g2_heap_values(sub)
    for inst in sub.instances:
        if inst.file.startswith('fpy2/analysis/'):
            ctx.instances.append(inst)
    ctx.functions_analysed |= sub.functions_analysed


# ----------------------------------------------------------------------
# G2: a size fact learnt from an assert or a strict zip constrains sizes globally only
# where every execution passes

AS_CLS = '_ArraySizeInferInstance'
GLOBAL_SIZE_WRITES = ('self._pin_size', 'self._merge_sizes', 'self._seed_from_assert', 'self._relate_sizes')
BRANCH = ('call', 'self._branch', (), ())

# positions the language evaluates conditionally (or zero times): method -> subjects
CONDITIONAL = {
    '_visit_if1': ['stmt.body'],
    '_visit_if': ['stmt.ift', 'stmt.iff'],
    '_visit_while': ['stmt.cond', 'stmt.body'],
    '_visit_for': ['stmt.body'],
    '_visit_list_comp': ['e.elt'],
    '_visit_if_expr': ['e.ift', 'e.iff'],
}


def _under_branch(e: Event) -> bool:
    return any(s[0] == 'with' and s[1] == BRANCH for s in e.scopes)


def g2_size_facts_unconditional(ctx: Ctx):
    repo = ctx.repo
    meths = repo.methods(AS, AS_CLS, inherited=False)
    for m, subjects in CONDITIONAL.items():
        if m not in meths:
            raise ShapeError(f'{AS_CLS}.{m} not found')
        f = meths[m][2]
        ctx.functions_analysed.add((AS, f'{AS_CLS}.{m}'))
        ex = execute(f, {}, {}, loop_passes=1)
        # nested `def body()` / lambda handed to the fixpoint driver: read under the scope of the call that receives it
        drivers = [e for e in ex.calls('self._iterate_to_fixpoint')]
        for e in drivers:
            for a in e.args:
                if isinstance(a, tuple) and a and a[0] == 'closure' and a[1] in ex.closures:
                    saved = list(ex.scopes)
                    ex.scopes = list(e.scopes)
                    ex.run(ex.closures[a[1]].body)
                    ex.scopes = saved
        lambdas = [k for k in calls_in(f) if call_name(k) == 'self._iterate_to_fixpoint' and len(k.args) == 2 and isinstance(k.args[1], ast.Lambda)]
        for k in lambdas:
            ev = next((e for e in drivers if e.node is k), None)
            if ev is not None:
                saved = list(ex.scopes)
                ex.scopes = list(ev.scopes)
                ex.ev(k.args[1].body)
                ex.scopes = saved
        for subj in subjects:
            evs = [e for e in ex.events if e.kind == 'call' and e.name in ('self._visit_expr', 'self._visit_block') and e.args and show(e.args[0]) == subj]
            ok = bool(evs) and all(_under_branch(e) for e in evs)
            ctx.check(ok, AS, evs[0].node if evs else f, f'{AS_CLS}.{m}', f'{subj} is read as conditionally executed (`with self._branch()`)',
                      (f'{subj} is read at the enclosing depth' if evs else f'{subj} is not visited') +
                      ': an assert or strict zip inside it would pin list sizes for executions that never reach it')
    # a comprehension over several iterables: only the first is always evaluated -- a later one runs once per item of those
    # before it, so not at all over an empty one
    f = meths['_visit_list_comp'][2]
    ex = execute(f, {}, {}, loop_passes=1)
    its = [e for e in ex.events if e.kind == 'call' and e.name == 'self._visit_expr' and e.args and show(e.args[0]) != 'e.elt']
    first_only = lambda e: show(e.args[0]) == 'e.iterables[0]' or any('== 0' in show(g) and not show(g).startswith('not') for g in e.guards)  # noqa: E731
    loose = [e for e in its if not _under_branch(e) and not first_only(e)]
    ok = bool(its) and not loose and any(_under_branch(e) for e in its)
    ctx.check(ok, AS, (loose[0].node if loose else f), f'{AS_CLS}._visit_list_comp', 'the iterables after the first are read as conditionally executed',
              (f'`{show(loose[0].args[0])}` is read at the enclosing depth for every generator' if loose else 'no iterable is read under `with self._branch()`') +
              ': `[x for x in xs for p in zip(a, b)]` merges len(a) and len(b) for the whole function although the zip never runs when xs is empty')
    # and / or: only the first operand is unconditional
    f = meths['_visit_naryop'][2]
    ex = execute(f, {}, {}, loop_passes=1)
    evs = [e for e in ex.events if e.kind == 'call' and e.name == 'self._visit_expr']
    short = [e for e in evs if any(isinstance(g, tuple) and g[0] != 'not' and 'And' in show(g) and 'Or' in show(g) for g in e.guards)]
    tail = [e for e in short if show(e.args[0]) != 'e.args[0]']
    ok = bool(tail) and all(_under_branch(e) for e in tail) and any(show(e.args[0]) == 'e.args[0]' and not _under_branch(e) for e in short)
    ctx.check(ok, AS, f, f'{AS_CLS}._visit_naryop', 'the later operands of `and` / `or` are read as conditionally executed',
              'every operand of `and` / `or` is read as unconditional: a strict zip in a skipped operand would merge list sizes globally')
    # every global size constraint is behind the every-execution-passes test
    for m, (_, _, f) in meths.items():
        if m in ('_pin_size', '_merge_sizes', '_relate_sizes', '_seed_from_assert'):
            continue
        sites = [k for k in calls_in(f) if call_name(k) in GLOBAL_SIZE_WRITES]
        if not sites:
            continue
        ex = execute(f, {}, {}, loop_passes=1)
        for e in ex.events:
            if e.kind == 'call' and e.name in GLOBAL_SIZE_WRITES:
                guarded = any(_positive(g, ('call', 'self._unconditional', (), ())) for g in e.guards)
                ctx.check(guarded, AS, e.node, f'{AS_CLS}.{m}', f'{e.name[5:]}(...) runs only where every execution passes (`self._unconditional()`)',
                          f'guards {[show(g)[:80] for g in e.guards]}: a fact that holds on some executions would be applied to all')
    f = meths['_unconditional'][2] if '_unconditional' in meths else None
    if f is None:
        raise ShapeError('_unconditional not found')
    rets = [s for s in walk_no_nested(f) if isinstance(s, ast.Return)]
    parts = set()
    if len(rets) == 1 and isinstance(rets[0].value, ast.BoolOp) and isinstance(rets[0].value.op, ast.And):
        parts = {norm(v) for v in rets[0].value.values}
    ctx.check(parts == {'self._cond_depth == 0', 'not self._returned'}, AS, f, f'{AS_CLS}._unconditional',
              'every execution passes = in no conditional region and after no `return`', f'got {sorted(parts)}')
    f = meths['_visit_return'][2]
    ex = execute(f, {}, {}, loop_passes=1)
    sets = [e for e in ex.events if e.kind == 'setattr' and e.name == 'self._returned' and e.args == (('k', True),)]
    # on every path through the visitor (an arm that leaves early guards what follows it)
    ok = len(sets) >= 1 and any(not s.guards for s in sets)
    ctx.check(ok, AS, f, f'{AS_CLS}._visit_return', 'every `return` -- of a scalar as of a list -- makes what follows conditional',
              f'`_returned` is set only under {[[show(g)[:60] for g in s.guards] for s in sets]}: a `return` that takes the other path leaves later asserts / zips unconditional')
    f = meths['_branch'][2]
    t = norm(f, 2000)
    ctx.check('self._cond_depth += 1 try: yield finally: self._cond_depth -= 1' in t, AS, f, f'{AS_CLS}._branch', 'the conditional depth is restored on every exit', 'changed')


def _positive(g: Any, atom: Any) -> bool:
    """`atom` is a positive conjunct of guard `g`."""
    if g == atom:
        return True
    if isinstance(g, tuple) and g and g[0] == 'and':
        return any(_positive(x, atom) for x in g[1])
    return False


# ----------------------------------------------------------------------
# X2: every list-sharing construct of the language has an alias route

# Operations that build a fresh sequence from integers only: nothing list-shaped can be retained.
# Frozen by reading fpy2/ast/fpyast.py: range(n) / range(a, b) / range(a, b, s) / empty(d1, ..., dk).
FRESH_FROM_INTEGERS = {'Range1', 'Range2', 'Range3', 'Empty'}
MODELLED = {'Var', 'ListRef', 'Fst', 'Snd', 'IfExpr', 'ListSlice', 'ListExpr', 'TupleExpr', 'ListComp', 'Enumerate', 'Zip', 'Call'}


def x2_alias_routes(ctx: Ctx):
    L = lang(ctx.repo)
    q = '_Builder._build_region'
    f = ctx.fn(ALIAS, q)
    ms = [s for s in walk_no_nested(f) if isinstance(s, ast.Match)]
    if len(ms) != 1:
        raise ShapeError('_build_region: match not found')
    case_of: dict[str, ast.match_case] = {}
    for cls in L.concrete('Expr'):
        for c in ms[0].cases:
            if pattern_matches(ctx.repo, ALIAS, c.pattern, Inst(cls)):
                case_of[cls] = c
                break
    wild = ms[0].cases[-1]
    ok = isinstance(wild.pattern, ast.MatchAs) and wild.pattern.pattern is None
    ctx.check(ok, ALIAS, wild.pattern, q, 'the dispatch ends in a catch-all', 'an expression kind can fall through with no region')
    ex = execute(f, {}, {}, loop_passes=1)

    def evs(kind_guard: str, name: str) -> list[Event]:
        return [e for e in ex.events if e.kind == 'call' and e.name == name and e.guards and show(e.guards[0]) == kind_guard]

    def rets(kind_guard: str) -> list[Any]:
        return [e.args[0] for e in ex.events if e.kind == 'return' and e.guards and show(e.guards[0]) == kind_guard]

    def merge_pairs(kind_guard: str) -> set[frozenset]:
        return {frozenset(show(a) for a in e.args[:2]) for e in evs(kind_guard, 'self.regions.merge')}

    # the catch-all escapes what it mentions; the integer-built sequences are the only unescaped fresh values
    g = 'case(e, _)'
    esc = [e for e in ex.events if e.kind == 'call' and e.name == '._visit_expr' and e.args and show(e.args[0]) == '_EscapeVars(self)' and e.guards and show(e.guards[0]) == g]
    ctx.check(len(esc) == 1 and show(esc[0].args[1]) == 'e', ALIAS, wild.pattern, q, 'an unmodelled expression marks every list variable it mentions as shared outward',
              'an unmodelled operation that returns or retains its operand would leave the operand looking uniquely owned')
    fresh = {cls for cls, c in case_of.items() if c is not wild and not any(call_name(k) in ('self.regions.merge', 'self._escape_args', 'self._project', 'self._part', 'self._reg') for s in c.body for k in calls_in(s))}
    ctx.check(fresh == FRESH_FROM_INTEGERS, ALIAS, f, q, f'fresh values that neither merge with nor escape their operands are exactly {sorted(FRESH_FROM_INTEGERS)}',
              f'also {sorted(fresh - FRESH_FROM_INTEGERS)}; missing {sorted(FRESH_FROM_INTEGERS - fresh)}: an operation over lists would sever the link between its result and its operand')
    for cls in sorted(MODELLED):
        ctx.check(cls in case_of and case_of[cls] is not wild, ALIAS, case_of.get(cls, wild).pattern, q, f'{cls} has its own route', f'{cls} falls to the catch-all')

    def unconditional(cls_guard: str, pair: frozenset) -> Optional[str]:
        """None if some merge of `pair` under the arm depends on nothing but its operand having a region (a scalar has
        none); else the condition it also depends on."""
        extra = None
        for e in evs(cls_guard, 'self.regions.merge'):
            if frozenset(show(a) for a in e.args[:2]) != pair:
                continue
            more = [show(g2) for g2 in e.guards[1:] if not (show(g2).startswith('(self._region_for(') and show(g2).endswith(' is not None)'))]
            if not more:
                return None
            extra = more[0]
        return extra

    def expect(cls_guard: str, what: str, want_pairs: set[frozenset], detail: str):
        got = merge_pairs(cls_guard)
        ctx.check(want_pairs <= got, ALIAS, f, q, what, f'merges {sorted(sorted(p) for p in got)}: {detail}')
        for pair in want_pairs & got:
            cond = unconditional(cls_guard, pair)
            ctx.check(cond is None, ALIAS, f, q, what + ' -- whenever the operand is a list, whatever its element type',
                      f'the link is made only when `{cond}`: a list of tuples that hold lists (or any shape the condition leaves out) loses it, and two names of one list are reported distinct')

    expect('case(e, ListSlice())', 'xs[i:j]: the slice\'s elements are the source\'s elements',
           {frozenset(["self._part(self._alloc('slice', e))", 'self._part(self._region_for(e.value))'])}, 'a row reached through the slice would not alias the row in the source')
    expect('case(e, ListExpr())', '[a, b]: the literal\'s elements are its operands',
           {frozenset(["self._part(self._alloc('literal', e))", 'self._region_for(each(e.elts))'])}, 'a list placed in a literal would not alias itself')
    expect('case(e, TupleExpr())', '(a, b): field i is operand i',
           {frozenset(["self._part(self._alloc('literal', e), proj(0, each(enumerate(e.elts))))", 'self._region_for(proj(1, each(enumerate(e.elts))))'])}, 'tuple packing loses the list')
    expect('case(e, ListComp())', '[elt for ...]: the result\'s elements are the element expression',
           {frozenset(["self._part(self._alloc('comprehension', e))", 'self._region_for(e.elt)'])}, 'rows produced by a comprehension would not alias their source')
    ctx.check(bool(evs('case(e, ListComp())', 'self._bind_comp_targets')), ALIAS, f, q, 'comprehension targets are bound to the elements they iterate', 'targets unbound')
    expect('case(e, IfExpr())', 'a if c else b: the result is either arm',
           {frozenset(["self.regions.new('branch')", 'self._region_for(each(tuple(e.ift, e.iff)))'])}, 'a conditional expression would sever the alias')
    ez = merge_pairs('case(e, Enumerate() | Zip())')
    want = frozenset(["self._part(self._part(self._alloc('builtin', e)), ite(isinstance(e, Enumerate), 1, proj(0, each(enumerate(e.args)))))",
                      'self._part(self._region_for(proj(1, each(enumerate(e.args)))))'])
    ctx.check(want in ez, ALIAS, f, q, 'enumerate / zip: field 1 (enumerate) or field i (zip) of each element is an element of argument i',
              f'merges {sorted(sorted(p) for p in ez)}: a row read through enumerate / zip would not alias the row in the source')
    if want in ez:
        cond = unconditional('case(e, Enumerate() | Zip())', want)
        ctx.check(cond is None, ALIAS, f, q, 'enumerate / zip: the link is made whenever the argument is a list', f'made only when `{cond}`')
    r = rets('case(e, Fst() | Snd())')
    ok = len(r) == 1 and 'self._part(self._region_for(e.args[0]), ite(isinstance(e, Fst), 0, 1))' in show(r[0])
    ctx.check(ok, ALIAS, f, q, 'fst / snd: field 0 / 1 of the tuple', f'got {[show(x)[:120] for x in r]}')
    r = rets('case(e, Var())')
    ctx.check(len(r) == 1 and show(r[0]) == 'self._reg(self.def_use.find_def_from_use(e))', ALIAS, f, q, 'a variable denotes the region of the definition it reads', f'got {[show(x) for x in r]}')
    ctx.check(bool(evs('case(e, Call())', 'self._escape_args')), ALIAS, f, q, 'a list handed to a call is shared outward', 'call arguments not escaped')

    # projection
    p = ctx.fn(ALIAS, '_Builder._project')
    exp = execute(p, {}, {}, loop_passes=1)
    prets = [(show(e.args[0]), [show(g) for g in e.guards]) for e in exp.events if e.kind == 'return']
    def returned_under(value: str, guard: str) -> bool:
        return any(v == value and guard in gs for v, gs in prets)
    ok = returned_under('self._part(self._region_for(e.value))', 'not(isinstance(self.types.by_expr.get(e.value), TupleType))') \
        and returned_under('self._part(self._region_for(e.value), e.index.val)', 'isinstance(e.index, Integer)')
    ctx.check(ok, ALIAS, p, '_Builder._project', 'xs[i]: the elements part of a list; field i of a tuple for a literal index', f'got {prets}')
    mg = {frozenset(show(a) for a in e.args[:2]) for e in exp.calls('self.regions.merge')}
    ok = any('self._part(self._region_for(e.value), 0)' in x and any('each(range(1, len(' in y for y in x) for x in mg)
    ctx.check(ok, ALIAS, p, '_Builder._project', 'a tuple indexed by a non-literal may be any field: all fields are merged', f'merges {sorted(sorted(x) for x in mg)}')

    # binding, stores, iteration
    def one_call(qn: str, name: str, want: list[str], what: str, why: str, passes: int = 1):
        fn = ctx.fn(ALIAS, qn)
        e2 = execute(fn, {}, {}, loop_passes=passes)
        got = [[show(a) for a in e.args] for e in e2.calls(name)]
        ctx.check(want in got, ALIAS, fn, qn, what, f'calls {name} with {got}: {why}')
        return e2
    one_call('_Builder._visit_assign', 'self._bind', ['stmt.target', 'self._region_for(stmt.expr)', 'stmt'], 'ys = xs: the target denotes the right-hand side\'s region', 'a rebinding would not alias')
    one_call('_Builder._visit_for', 'self._bind', ['stmt.target', 'self._part(self._region_for(stmt.iterable))', 'stmt'], 'for row in xss: the target denotes the elements of the iterable',
             'a row taken by iteration would not alias the row in the list')
    one_call('_Builder._bind_comp_targets', 'self._bind',
             ['proj(0, each(zip(e.targets, e.iterables)))', 'self._part(self._region_for(proj(1, each(zip(e.targets, e.iterables)))))', 'e'],
             'a comprehension target denotes the elements of its iterable', 'a row taken by a comprehension would not alias')
    one_call('_Builder._visit_return', 'self.regions.mark_returned', ['self._region_for(stmt.expr)'], 'a returned list is marked as handed to the caller', 'returned lists look owned')
    b = ctx.fn(ALIAS, '_Builder._bind')
    eb = execute(b, {}, {}, loop_passes=1)
    mg = [[show(a) for a in e.args] for e in eb.calls('self.regions.merge')]
    ctx.check(['self._reg(self.def_use.find_def_from_site(target, site))', 'region'] in mg, ALIAS, b, '_Builder._bind', 'binding a name merges its definition\'s region with the value\'s', f'merges {mg}')
    rec = [[show(a) for a in e.args] for e in eb.calls('self._bind')]
    ctx.check(['proj(1, each(enumerate(target.elts)))', 'self._part(region, proj(0, each(enumerate(target.elts))))', 'site'] in rec, ALIAS, b, '_Builder._bind',
              'a, b = t: name i denotes field i', f'recursion {rec}')
    ia = ctx.fn(ALIAS, '_Builder._visit_indexed_assign')
    depth = {}
    for passes in (0, 1):
        ei = execute(ia, {}, {}, loop_passes=passes)
        ms_ = [e for e in ei.calls('self.regions.merge')]
        if len(ms_) != 1:
            raise ShapeError('_visit_indexed_assign: merge not found')
        t = show(ms_[0].args[0])
        depth[passes] = (t.count('self._part('), show(ms_[0].args[1]), t)
    ok = depth[0][0] == 1 and depth[1][0] == 2 and depth[0][1] == 'self._region_for(stmt.expr)' and 'self._reg(self.def_use.find_def_from_site(stmt.var, stmt))' in depth[0][2]
    loops = [s for s in walk_no_nested(ia) if isinstance(s, ast.For)]
    ok = ok and len(loops) == 1 and norm(loops[0].iter) == 'stmt.indices[:-1]'
    ctx.check(ok, ALIAS, ia, '_Builder._visit_indexed_assign', 'xss[i1]..[ik] = e: e joins the elements part k levels down (one `_part` per index)',
              f'depths {depth}: the stored list would be attached at the wrong nesting level, or not at all')
    mr = ctx.fn(ALIAS, '_Builder._merge_redefinitions')
    em = execute(mr, {}, {}, loop_passes=1)
    mg = [[show(a) for a in e.args] for e in em.calls('self.regions.merge')]
    ctx.check(['self._reg(each(self.def_use.defs))', 'self._reg(self.def_use.defs[each(same_object_defs(each(self.def_use.defs)))])'] in mg, ALIAS, mr, '_Builder._merge_redefinitions',
              'an element store and a phi are the same list as the definitions they come from', f'merges {mg}')
    # ... for every definition whose value can hold a list *anywhere inside*: a tuple with a list in it that passes a
    # branch or loop merge is the same tuple, with the same list.  The method is evaluated, from its source, on one phi per
    # type shape.
    afuncs = {s.name: s for s in ctx.repo.module(ALIAS).tree.body if isinstance(s, ast.FunctionDef)}
    bmeths = {n: f for n, (_, _, f) in ctx.repo.methods(ALIAS, '_Builder', inherited=False).items()}
    REALT = Obj('RealType')
    shapes = {
        'list[real]': (Obj('ListType', elt=REALT), True), 'tuple[list[real], real]': (Obj('TupleType', elts=(Obj('ListType', elt=REALT), REALT)), True),
        'tuple[real, tuple[real, list[real]]]': (Obj('TupleType', elts=(REALT, Obj('TupleType', elts=(REALT, Obj('ListType', elt=REALT))))), True),
        'list[tuple[real, real]]': (Obj('ListType', elt=Obj('TupleType', elts=(REALT, REALT))), True),
        'tuple[real, real]': (Obj('TupleType', elts=(REALT, REALT)), False), 'real': (REALT, False),
    }
    for label, (ty, carries) in shapes.items():
        d0, phi = Obj('AssignDef'), Obj('PhiDef')
        merged: list = []
        me = Obj('_Builder', def_use=Obj('du', defs=[d0, phi]), types=Obj('types', by_def={d0: ty, phi: ty}), regions=Obj('regions', merge=lambda a, b: merged.append((a, b))))
        it = Interp(afuncs, bmeths, self_obj=me, is_a=lambda k, c: k == c, overrides={'same_object_defs': lambda d: (0,) if d is phi else (), 'self._reg': lambda d: d})
        it.call_function(mr, [], bound_self=True)
        unified = any(a is phi and b is d0 for a, b in merged)
        if carries:
            ctx.check(unified, ALIAS, mr, '_Builder._merge_redefinitions', f'a merge point of type {label} is the same object as its operands',
                      'left apart: the list inside a tuple that went through an `if` aliases nothing, so a store through it widens no other name and `xs[0]` keeps a format the stored value exceeds')
        else:
            ctx.ok(ALIAS, mr, '_Builder._merge_redefinitions', f'type {label} carries no list: {"unified anyway" if unified else "no region"}')
    ve = ctx.fn(ALIAS, '_Builder._visit_expr')
    ctx.check(any(norm(s) == 'self._region_for(e)' for s in ve.body) and norm(ve.body[-1]) == 'return super()._visit_expr(e, ctx)', ALIAS, ve, '_Builder._visit_expr',
              'every expression visited gets a region (the net that makes the analysis total) and its children are still traversed', 'changed')
    # merging two regions merges what lives inside them
    mf = ctx.fn(ALIAS, '_Regions.merge')
    t = norm(mf, 6000)
    ok = 'for key, region in theirs.items(): if key in mine: pending.append((mine[key], region)) else: mine[key] = region' in t and 'root = self._uf.union(ra, rb)' in t
    ctx.check(ok, ALIAS, mf, '_Regions.merge', 'identifying two lists identifies their contents: matching parts are merged, others adopted', 'the cascade into parts changed')
    ma = ctx.fn(ALIAS, 'AliasAnalysis.may_alias') if ctx.repo.has_func(ALIAS, 'AliasAnalysis.may_alias') else None
    if ma is not None:
        t = norm(ma, 3000)
        ctx.check('self._regions.find(ca) is self._regions.find(cb)' in t, ALIAS, ma, 'AliasAnalysis.may_alias', 'two places may alias when their regions have one representative', 'changed')


# ----------------------------------------------------------------------

EXPLANATION = (
    'Structural decision over fpy2/analysis (ast; analysis visitors are read symbolically by sa/symenv.py, table functions by sa/minipy.py over '
    'their whole finite domain; nothing of the repository is run). Decided: (D1) for ReachingDefs the environment term every sub-visit receives '
    '(right-hand sides under the entry environment; both arms of an `if` under the entry environment; a `while` condition and body under the '
    'loop-header phis; a `for` iterable under the entry environment and its body under header phis for every name the body OR the loop target '
    'rebinds), the operands, domain and guards of every phi, the unification of the final loop phi with the header phi, what a block is said to '
    'define (DefAnalysis), and how DefineUse resolves reads (reach[stmt]; `while` condition under the body-entry environment); (D2) in '
    'ValueClassInfer, PartialEval and ArraySizeInfer every branch phi is the join of both operands, every loop driver seeds from the pre-loop '
    'operand, re-reads the body, re-joins both operands and exits only under a test that the phis did not change against a snapshot taken before '
    'the pass; refinements are applied to the right arm with the right polarity and restored; PartialEval._meet as a 16-row table; (T1) '
    '_exact_add / _exact_mul over all 15 x 15 non-empty class pairs, _LOGB, _POW_POS_BASE, _map, class_of and the branch refinement '
    '(_implied / _implied_compare over ~330 condition shapes x both outcomes) against IEEE semantics on representative values of each class; '
    '(X1) conservative defaults; (G1 = C07.G2) list constants; (G2) every global size constraint is behind `_unconditional()`, which requires '
    'depth 0 and no earlier `return`, and every conditionally evaluated position (if / loop bodies, comprehension elements, conditional-expression '
    'arms, later operands of and / or) is read under `_branch()`; (X2) each list-sharing construct has its alias route with the documented merge, '
    'unmodelled expressions escape their operands, only integer-built sequences are fresh without escaping. NOT decided: type unification, size '
    'arithmetic (_affine, slices), escape summaries, ContextUse, LiveVars, Purity.'
)
ASSUMPTIONS = [
    'DefaultVisitor reaches every child of a node it is not told otherwise about (decided for the transform visitor in C19.X1)',
    'the representative values per class (NaN; +-inf; 0; 1, -1, 2, 1/2, 3 and one subnormal) exercise every behaviour the four-atom lattice can distinguish',
    'the union-find and the type analysis the array-size and alias analyses build on are right (not decided)',
]

RULES = [
    Rule('C13.D1', 'reaching definitions: every read sees the environment of its program point; merges and loop headers get phi nodes', d1_reaching_defs, 50, 'D'),
    Rule('C13.D2', 'phi facts join both operands; loop facts are iterated until stable; refinements stay in their arm', d2_phi_updates, 38, 'D'),
    Rule('C13.T1', 'value-class transfer and refinement tables cover IEEE behaviour on every class combination', t1_value_class_tables, 9, 'T'),
    Rule('C13.X1', 'value-class defaults are conservative (unknown scope, pass-through operations, targets, parameters)', x1_conservative_defaults, 24, 'X'),
    Rule('C13.G1', 'a list value is reported constant only with a store-or-alias fact', g1_heap_constants, 1, 'G'),
    Rule('C13.G4', 'a list length stated by type inference for a captured value or a slice is one the value has', g4_stated_lengths, 9, 'G'),
    Rule('C13.G3', 'a constant is computed only under a statically known, non-stochastic context (= C07.G4)', lambda ctx: __import__('sa.props.c07', fromlist=['g4_fold_context']).g4_fold_context(ctx), 11, 'G'),
    Rule('C13.G2', 'array sizes are constrained globally only where every execution passes', g2_size_facts_unconditional, 15, 'G'),
    Rule('C13.X2', 'every list-sharing construct has an alias route; anything unmodelled escapes its operands', x2_alias_routes, 36, 'X'),
]

from ..selftest import Mutant  # noqa: E402

MUTANTS = [
    Mutant('assert-message-not-read-by-the-definitions-analysis', RD, "        if stmt.msg is not None:\n            # the message is an expression of the program too: a comprehension\n            # in it binds targets that its element reads\n            self._visit_expr(stmt.msg, ctx)\n", "", 'C13.D1',
           'finding F134 before its repair: assert c, [t for t in xs] is accepted and fails with KeyError'),
    Mutant('unified-lists-keep-the-more-specific-length', 'fpy2/analysis/type_infer.py', "    if a == b:\n        return a\n    return None\n",
           "    if isinstance(a, int):\n        return a\n    if isinstance(b, int):\n        return b\n    return a if a is not None else b\n", 'C13.G4',
           'finding F124 before its repair: zs = A if c else B typed with the length of A'),
    Mutant('later-generators-read-as-unconditional', AS, "            if i == 0:\n                ty = self._visit_expr(iterable, ctx)\n            else:\n                with self._branch():\n                    ty = self._visit_expr(iterable, ctx)\n",
           "            ty = self._visit_expr(iterable, ctx)\n", 'C13.G2',
           'finding F123 before its repair: [x for x in xs for p in zip(a, b)] merges len(a) and len(b) although the zip never runs over an empty xs'),
    Mutant('every-generator-read-as-conditional', AS, "            if i == 0:\n                ty = self._visit_expr(iterable, ctx)\n            else:\n                with self._branch():\n                    ty = self._visit_expr(iterable, ctx)\n",
           "            with self._branch():\n                ty = self._visit_expr(iterable, ctx)\n", 'C13.G2', 'fewer facts, none wrong', expect='silent'),
    Mutant('loop-fixpoint-compares-constants-with-!=', PE, "                if not _same_element(new, old):", "                if new != old:", 'C13.D2',
           'finding F109 before its repair: simplify never returns on a loop carrying a constant NaN'),
    Mutant('constant-list-not-unpacked', PE, "                if isinstance(val, (tuple, list)) and len(val) == len(binding.elts):\n                    for elt, v in zip(binding.elts, val):\n                        self._visit_binding(site, elt, v)\n                else:\n                    self._clear_binding(site, binding)\n",
           "                assert isinstance(val, tuple)\n                for elt, v in zip(binding.elts, val):\n                    self._visit_binding(site, elt, v)\n", 'C13.D2',
           'finding F111 before its repair: a, b = [1.0, 2.0] makes ConstFold raise AssertionError'),
    Mutant('sameness-of-elements-forgets-top', PE, "    if a is None or b is None or a is _TOP or b is _TOP:\n        return a is b\n    return _same_constant(a, b)", "    if a is None or b is None:\n        return a is b\n    return a is b or _same_constant(a, b)", 'C13.D2',
           'top compared with a constant by == : still false, the same answers on every pair', expect='silent'),
    Mutant('slice-of-non-rows-shares-nothing', ALIAS, "                base = self._region_for(e.value)\n                if base is not None:\n                    self.regions.merge(\n                        self._part(region), self._part(base),",
           "                base = self._region_for(e.value)\n                ty = self.types.by_expr.get(e)\n                if base is not None and isinstance(ty, ListType) and isinstance(ty.elt, ListType):\n                    self.regions.merge(\n                        self._part(region), self._part(base),", 'C13.X2',
           'seeded change C13e: a slice of a list of tuples that hold lists loses its link to the source'),
    Mutant('ragged-rows-take-the-first-length', 'fpy2/analysis/type_infer.py', "                for e in elt_tys[1:]:\n                    first = self._common_lengths(first, cast(Type, e))\n", "", 'C13.G4',
           'finding F85 before its repair: RAG = [[1.0, 2.0], [3.0]]; row = RAG[1] is reported two long'),
    Mutant('slice-keeps-the-length', 'fpy2/analysis/type_infer.py', "        if isinstance(resolved, ListType) and resolved.length is not None:\n            return ListType(resolved.elt)\n", "", 'C13.G4',
           'finding F85 before its repair: XS[0:n] is reported as long as XS'),
    Mutant('common-length-of-the-outer-level-only', 'fpy2/analysis/type_infer.py', "                elt = self._common_lengths(a.elt, b.elt)\n", "                elt = a.elt\n", 'C13.G4'),
    Mutant('one-draw-reported-constant', PE, "        if ctx.is_stochastic():\n            return None\n        try:", "        try:", 'C13.G3',
           'finding F74 before its repair'),
    Mutant('while-condition-read-ahead-of-the-fixpoint', PE, "            self._visit_expr(stmt.cond, ctx)\n            self._visit_block(stmt.body, ctx)\n\n        self._loop_fixpoint(stmt, run_pass)",
           "            self._visit_block(stmt.body, ctx)\n\n        self._visit_expr(stmt.cond, ctx)\n        self._loop_fixpoint(stmt, run_pass)", 'C13.D2',
           'finding F73 before its repair: an inner `while t < y + 1` is folded to `while t < 1`'),
    Mutant('while-condition-read-after-the-body', PE, "            self._visit_expr(stmt.cond, ctx)\n            self._visit_block(stmt.body, ctx)\n\n        self._loop_fixpoint(stmt, run_pass)",
           "            self._visit_block(stmt.body, ctx)\n            self._visit_expr(stmt.cond, ctx)\n\n        self._loop_fixpoint(stmt, run_pass)", 'C13.D2',
           'within one pass the phis are the same before and after the body', expect='silent'),
    Mutant('lists-compared-over-the-common-prefix', PE, "            type(a) is type(b) and len(a) == len(b)\n            and all(", "            type(a) is type(b)\n            and all(", 'C13.D2',
           'seeded change C13d: `[1.0]` and `[1.0, 2.0]` merge into the constant `[1.0]`'),
    Mutant('list-and-tuple-one-constant', PE, "            type(a) is type(b) and len(a) == len(b)\n            and all(", "            len(a) == len(b)\n            and all(", 'C13.D2'),
    # D1
    Mutant('returning-arm-merged', RD, "        if ift_returns != iff_returns:\n            self.phis[stmt] = {}\n            return iff_out if ift_returns else ift_out\n", "", 'C13.D1',
           'finding F39 before its repair: `if c: return 0 else: t = 1; return t` fails with KeyError t'),
    Mutant('returning-arm-kept-instead-of-the-other', RD, "            return iff_out if ift_returns else ift_out", "            return ift_out if ift_returns else iff_out", 'C13.D1'),
    Mutant('one-armed-if-counts-as-returning', RD, "        case ContextStmt(body=body):\n            return _always_returns(body)\n        case _:\n            return False",
           "        case ContextStmt(body=body) | If1Stmt(body=body):\n            return _always_returns(body)\n        case _:\n            return False", 'C13.D1'),
    Mutant('either-arm-returning-counts', RD, "            return _always_returns(ift) and _always_returns(iff)", "            return _always_returns(ift) or _always_returns(iff)", 'C13.D1'),
    Mutant('while-cond-under-entry-env', RD, "        self._visit_expr(stmt.cond, body_in)", "        self._visit_expr(stmt.cond, ctx)", 'C13.D1'),
    Mutant('loop-phi-ignores-body', RD, "            phi, ctx = self._add_phi(name, stmt, ctx[name], body_out[name], ctx, is_loop=True)", "            phi, ctx = self._add_phi(name, stmt, ctx[name], body_in[name], ctx, is_loop=True)", 'C13.D1', count=2, nth=0),
    Mutant('for-target-gets-no-phi', RD, "mutated = ctx.keys() & (self.def_ids[stmt.body] | set(stmt.target.names()))", "mutated = ctx.keys() & self.def_ids[stmt.body]", 'C13.D1',
           'finding F26 before its repair'),
    Mutant('else-arm-after-then-arm', RD, "        iff_out = self._visit_block(stmt.iff, ctx)", "        iff_out = self._visit_block(stmt.iff, ift_out)", 'C13.D1'),
    Mutant('if1-no-phi', RD, "            if orig != body_out[name]:\n                phi, ctx = self._add_phi(name, stmt, orig, body_out[name], ctx)", "            if False:\n                phi, ctx = self._add_phi(name, stmt, orig, body_out[name], ctx)", 'C13.D1'),
    Mutant('assign-binds-before-reading', RD, "        self._visit_expr(stmt.expr, ctx)\n        for name in stmt.target.names():\n            _, ctx = self._add_assign(name, stmt, ctx)\n        return ctx\n\n    def _visit_indexed_assign",
           "        for name in stmt.target.names():\n            _, ctx = self._add_assign(name, stmt, ctx)\n        self._visit_expr(stmt.expr, ctx)\n        return ctx\n\n    def _visit_indexed_assign", 'C13.D1'),
    Mutant('store-not-a-definition', DEFS, "        return {stmt.var}", "        return set()", 'C13.D1', 'a list stored into inside a loop gets no loop phi'),
    Mutant('defuse-while-cond-pre-loop', DU, "        self._visit_expr(stmt.cond, body_in)", "        self._visit_expr(stmt.cond, ctx)", 'C13.D1'),
    Mutant('with-is-a-scope', RD, "        return self._visit_block(stmt.body, ctx)\n\n    def _visit_assert", "        self._visit_block(stmt.body, ctx)\n        return ctx\n\n    def _visit_assert", 'C13.D1'),
    Mutant('loop-phi-unified-with-target', RD, "            phis[name] = self._unify_def(phi, header[name])", "            phis[name] = self._unify_def(phi, body_in[name])", 'C13.D1'),
    Mutant('phi-same-object-drops-rhs', RD, "        case PhiDef():\n            return (d.lhs, d.rhs)\n        case _:\n            return ()", "        case PhiDef():\n            return (d.lhs,)\n        case _:\n            return ()", 'C13.D1'),
    Mutant('if-phi-domain-respelled', RD, "        for name in ift_out.keys() & iff_out.keys():", "        for name in iff_out.keys() & ift_out.keys():", 'C13.D1', expect='silent', why='the same set'),
    # D2
    Mutant('branch-phi-one-sided', VC, "            self._set_def(phi, lhs | rhs)", "            self._set_def(phi, rhs)", 'C13.D2', count=2, nth=0),
    Mutant('loop-phi-one-sided', VC, "                self._set_def(phi, lhs | rhs)", "                self._set_def(phi, rhs)", 'C13.D2'),
    Mutant('branch-phi-operands-swapped', VC, "            self._set_def(phi, lhs | rhs)", "            self._set_def(phi, rhs | lhs)", 'C13.D2', count=2, nth=0, expect='silent', why='join is commutative'),
    Mutant('loop-seeded-from-body', VC, "            self._set_def(phi, self._def_class(self.def_use.defs[phi.lhs]))", "            self._set_def(phi, self._def_class(self.def_use.defs[phi.rhs]))", 'C13.D2'),
    Mutant('loop-stops-after-one-pass', VC, "            if all(self.by_def[phi] == prev[phi] for phi in phis):\n                return", "            if True:\n                return", 'C13.D2'),
    Mutant('else-arm-refined-as-then', VC, "        with self._refined(stmt.cond, False):\n            self._visit_block(stmt.iff, ctx)", "        with self._refined(stmt.cond, True):\n            self._visit_block(stmt.iff, ctx)", 'C13.D2'),
    Mutant('refinement-leaks', VC, "        finally:\n            self._refine = saved", "        finally:\n            pass", 'C13.D2'),
    Mutant('meet-keeps-first-constant', PE, "        return a if _same_constant(a, b) else _TOP", "        return a", 'C13.D2'),
    Mutant('meet-plain-equality', PE, "        return a if _same_constant(a, b) else _TOP", "        return a if a == b else _TOP", 'C13.D2', 'finding F30 before its repair: +0.0 and -0.0 merge'),
    Mutant('pe-unknown-is-the-unit', PE, "                lhs = self.by_def.get(self.def_use.defs[phi.lhs], _TOP)\n                rhs = self.by_def.get(self.def_use.defs[phi.rhs], _TOP)\n                new",
           "                lhs = self.by_def.get(self.def_use.defs[phi.lhs])\n                rhs = self.by_def.get(self.def_use.defs[phi.rhs], _TOP)\n                new", 'C13.D2', 'seeded change C07a'),
    Mutant('pe-loop-stops-after-one-pass', PE, "            if not changed:\n                return", "            return", 'C13.D2'),
    Mutant('pe-branch-phi-one-sided', PE, "            rhs = self.by_def.get(self.def_use.defs[phi.rhs], _TOP)\n            merged", "            rhs = self.by_def.get(self.def_use.defs[phi.lhs], _TOP)\n            merged", 'C13.D2'),
    Mutant('size-loop-phi-one-sided', AS, "                self.by_def[phi] = self._unify(lhs, rhs)", "                self.by_def[phi] = rhs", 'C13.D2'),
    Mutant('size-snapshot-after-pass', AS, "            prev = {phi: self.by_def[phi] for phi in phis}\n            prev_changes = self._uf_changes\n            run_body()",
           "            prev_changes = self._uf_changes\n            run_body()\n            prev = {phi: self.by_def[phi] for phi in phis}", 'C13.D2'),
    Mutant('size-join-keeps-first', AS, "        return ra if ra is not None and ra == _repr_size(b, self.uf) else None", "        return ra", 'C13.D2'),
    # T1
    Mutant('inf-minus-inf-forgotten', VC, "    if a & _INF and b & _INF:\n        out |= _NAN                      # inf - inf", "    if a & _INF and b & _INF:\n        pass", 'C13.T1'),
    Mutant('zero-times-inf-is-zero', VC, "        if x & _INF and y & _ZERO:\n            out |= _NAN                  # 0 * inf", "        if x & _INF and y & _ZERO:\n            out |= _ZERO", 'C13.T1'),
    Mutant('logb-of-zero', VC, "_LOGB = {_NAN: _NAN, _INF: _INF, _ZERO: _INF,", "_LOGB = {_NAN: _NAN, _INF: _INF, _ZERO: _ZERO,", 'C13.T1'),
    Mutant('cancellation-forgotten', VC, "    if a & _FINITE and b & _FINITE:\n        out |= _ZERO | _FINITE\n    return out", "    if a & _FINITE and b & _FINITE:\n        out |= _FINITE\n    return out", 'C13.T1'),
    Mutant('failed-eq-zero-excludes-nan', VC, "                    for i in self._at(x, _NAN | _INF | _FINITE)]", "                    for i in self._at(x, _INF | _FINITE)]", 'C13.T1',
           'the trap the module docstring names: a NaN takes the `not (x == 0)` arm too'),
    Mutant('not-finite-excludes-nan', VC, "                return self._at(cond.arg, _ZERO | _FINITE if truth else _NAN | _INF)", "                return self._at(cond.arg, _ZERO | _FINITE if truth else _INF)", 'C13.T1'),
    Mutant('failed-ordering-excludes-nan', VC, "        else:\n            return []           # a failed ordering admits a NaN", "        else:\n            return [i for x, y in _both(args) for i in self._at(x, _INF | _ZERO | _FINITE)]", 'C13.T1'),
    Mutant('class-of-swaps-zero', VC, "    return _ZERO if x.is_zero() else _FINITE\n\n\n_PROBES", "    return _FINITE if x.is_zero() else _ZERO\n\n\n_PROBES", 'C13.T1'),
    Mutant('ne-one-excludes-nan', VC, "                    if v == 0:\n                        out += self._at(x, _NAN | _INF | _FINITE)", "                    if v is not None:\n                        out += self._at(x, _INF | _ZERO | _FINITE)", 'C13.T1'),
    # X1
    Mutant('exact-class-under-any-context', VC, "        return exact if scope.ctx is REAL else representable_classes(scope.ctx)", "        return exact", 'C13.X1'),
    Mutant('projection-gets-context-classes', VC, "            case AMin() | AMax() | Fst() | Snd():\n                return _TOP          # passes an operand through; see `_rounded`", "            case AMin() | AMax() | Fst() | Snd():\n                return self._rounded(e, a)", 'C13.X1'),
    Mutant('call-gets-caller-context', VC, "        # the callee produces the result, so the caller's context says nothing\n        return _TOP", "        return self._rounded(e, _TOP)", 'C13.X1'),
    Mutant('loop-target-assumed-finite', VC, "            self._bind(stmt, stmt.target, _TOP)", "            self._bind(stmt, stmt.target, _FINITE)", 'C13.X1'),
    # G2
    Mutant('scalar-return-not-conditional', AS, "        ret_size = self._visit_expr(stmt.expr, ctx)\n        self._returned = True\n        if not isinstance(ret_size, ListSize):\n            return",
           "        ret_size = self._visit_expr(stmt.expr, ctx)\n        if not isinstance(ret_size, ListSize):\n            return\n        self._returned = True", 'C13.G2',
           'seeded change C13b: a `return` of a scalar leaves later asserts unconditional'),
    Mutant('return-not-conditional', AS, "        return self._cond_depth == 0 and not self._returned", "        return self._cond_depth == 0", 'C13.G2', 'finding F27 before its repair'),
    Mutant('boolop-tail-unconditional', AS, "            with self._branch():\n                tys += [self._visit_expr(arg, ctx) for arg in e.args[1:]]", "            if True:\n                tys += [self._visit_expr(arg, ctx) for arg in e.args[1:]]", 'C13.G2',
           'finding F28 before its repair'),
    Mutant('ifexpr-arms-unconditional', AS, "        with self._branch():\n            ift = self._visit_expr(e.ift, ctx)", "        if True:\n            ift = self._visit_expr(e.ift, ctx)", 'C13.G2'),
    Mutant('assert-always-global', AS, "        if self._unconditional():\n            self._seed_from_assert(stmt.test)", "        if True:\n            self._seed_from_assert(stmt.test)", 'C13.G2'),
    Mutant('comp-element-unconditional', AS, "        with self._branch():\n            elt_ty = self._visit_expr(e.elt, ctx)", "        if True:\n            elt_ty = self._visit_expr(e.elt, ctx)", 'C13.G2'),
    # X2
    Mutant('slice-severs-rows', ALIAS, "                if base is not None:\n                    self.regions.merge(\n                        self._part(region), self._part(base),\n                    )\n                return region", "                return region", 'C13.X2'),
    Mutant('enumerate-wrong-field', ALIAS, "                        field = 1 if isinstance(e, Enumerate) else i", "                        field = 0 if isinstance(e, Enumerate) else i", 'C13.X2'),
    Mutant('for-target-is-the-list', ALIAS, "            self._bind(stmt.target, self._part(it), stmt)", "            self._bind(stmt.target, it, stmt)", 'C13.X2'),
    Mutant('store-one-level-too-deep', ALIAS, "                for _ in stmt.indices[:-1]:", "                for _ in stmt.indices:", 'C13.X2'),
    Mutant('unmodelled-keeps-ownership', ALIAS, "                _EscapeVars(self)._visit_expr(e, None)\n", "", 'C13.X2'),
    Mutant('enumerate-unmodelled', ALIAS, "            case Enumerate() | Zip():", "            case Zip():", 'C13.X2', 'a row read through enumerate no longer aliases the row in the list'),
    Mutant('merge-does-not-cascade', ALIAS, "                    pending.append((mine[key], region))", "                    pass", 'C13.X2'),
    Mutant('redefinitions-not-unified', ALIAS, "                self.regions.merge(self._reg(d), self._reg(self.def_use.defs[i]))", "                pass", 'C13.X2'),
    Mutant('tuple-unpack-loses-field', ALIAS, "                    self._bind(elt, self._part(region, i), site)", "                    self._bind(elt, region, site)", 'C13.X2'),
]
