"""
C14 — Format inference bounds every run-time value.

Decided: the special-value flags, the sign of zero and the direction of the
finite bounds of every AbstractFormat operator (+, -, *, unary -, abs, |, &),
read from the operator's own source over an exhaustive family of stand-in
formats (all 16 flag combinations x the sign shapes of the two bounds) and
compared with IEEE arithmetic on their members; containment (`<=`) against
membership; that branch and loop phis of the inference join both operands,
iterate until stable, switch widening on only after the iteration limit and
restore it; the refinement arms; the join table of `_join_bounds`; the
`round_is_identity` table (shared with C10).

Not decided: the precision (`prec`) arithmetic, `effective_prec`, the branch
refinement arithmetic (`_implied_compare`, `_implied_logb`), SetFormat
arithmetic, storage selection.
"""

from __future__ import annotations

import ast
import itertools
from typing import Any, Optional

from ..core import Ctx, Rule
from ..facts import ShapeError, call_name, calls_in, dotted, norm, walk_no_nested
from ..minipy import Interp, Obj
from ..symenv import execute, show, sym
from . import c13

FMT = 'fpy2/analysis/format_infer/format.py'
ANA = 'fpy2/analysis/format_infer/analysis.py'
INST = '_FormatInferInstance'

FLAGS = ('has_pos_inf', 'has_neg_inf', 'has_nan', 'has_neg_zero')
SHAPES = ((0, 0), (0, 3), (-3, 0), (-2, 5))       # (neg_bound, pos_bound): zero only, non-negative, non-positive, both signs


# ----------------------------------------------------------------------
# stand-in formats and their members

def _fmt(neg: int, pos: int, flags: tuple[bool, ...], exp: int = 0) -> Obj:
    return Obj('AbstractFormat', prec=float('inf'), exp=exp, pos_bound=pos, neg_bound=neg, **dict(zip(FLAGS, flags)))


def _members(f: Obj) -> list[tuple]:
    q = 2 ** f.fields['exp']
    out: list[tuple] = [('zero', False)]
    if f.fields['has_neg_zero']:
        out.append(('zero', True))
    for v in range(f.fields['neg_bound'], f.fields['pos_bound'] + 1):
        if v != 0 and v % q == 0:
            out.append(('num', v))
    if f.fields['has_pos_inf']:
        out.append(('inf', False))
    if f.fields['has_neg_inf']:
        out.append(('inf', True))
    if f.fields['has_nan']:
        out.append(('nan',))
    return out


def _contains(f: Obj, v: tuple) -> bool:
    k = v[0]
    if k == 'nan':
        return bool(f.fields['has_nan'])
    if k == 'inf':
        return bool(f.fields['has_neg_inf'] if v[1] else f.fields['has_pos_inf'])
    if k == 'zero':
        return (not v[1]) or bool(f.fields['has_neg_zero'])
    q = 2 ** f.fields['exp'] if isinstance(f.fields['exp'], int) and f.fields['exp'] >= 0 else 1
    return f.fields['neg_bound'] <= v[1] <= f.fields['pos_bound'] and v[1] % q == 0


def _sign(v: tuple) -> bool:
    return v[1] if v[0] in ('inf', 'zero') else v[1] < 0


def c_neg(x: tuple) -> tuple:
    if x[0] == 'nan':
        return x
    if x[0] == 'num':
        return ('num', -x[1])
    return (x[0], not x[1])


def c_abs(x: tuple) -> tuple:
    if x[0] == 'nan':
        return x
    if x[0] == 'num':
        return ('num', abs(x[1]))
    return (x[0], False)


def c_add(x: tuple, y: tuple) -> tuple:
    if x[0] == 'nan' or y[0] == 'nan':
        return ('nan',)
    if x[0] == 'inf' and y[0] == 'inf':
        return x if x[1] == y[1] else ('nan',)
    if x[0] == 'inf':
        return x
    if y[0] == 'inf':
        return y
    if x[0] == 'zero' and y[0] == 'zero':
        return ('zero', x[1] and y[1])          # like-signed sum keeps the sign, otherwise +0 (round to nearest)
    if x[0] == 'zero':
        return y
    if y[0] == 'zero':
        return x
    s = x[1] + y[1]
    return ('num', s) if s != 0 else ('zero', False)


def c_sub(x: tuple, y: tuple) -> tuple:
    return c_add(x, c_neg(y))


def c_mul(x: tuple, y: tuple) -> tuple:
    if x[0] == 'nan' or y[0] == 'nan':
        return ('nan',)
    if (x[0] == 'inf' and y[0] == 'zero') or (x[0] == 'zero' and y[0] == 'inf'):
        return ('nan',)
    s = _sign(x) != _sign(y)
    if x[0] == 'inf' or y[0] == 'inf':
        return ('inf', s)
    if x[0] == 'zero' or y[0] == 'zero':
        return ('zero', s)
    return ('num', x[1] * y[1])


def _show_val(v: tuple) -> str:
    if v[0] == 'nan':
        return 'NaN'
    if v[0] == 'inf':
        return '-inf' if v[1] else '+inf'
    if v[0] == 'zero':
        return '-0.0' if v[1] else '+0.0'
    return str(v[1])


def _show_fmt(f: Obj) -> str:
    fl = [n[4:] for n in FLAGS if f.fields[n]]
    return f'[{f.fields["neg_bound"]}, {f.fields["pos_bound"]}]' + (' + {' + ', '.join(fl) + '}' if fl else '')


# ----------------------------------------------------------------------
# reading an operator: the slice of its body that decides exp, bounds and flags

def _assigned(st: ast.stmt) -> set[str]:
    out = set()
    if isinstance(st, ast.FunctionDef):
        return {st.name}            # a local helper binds its own name and nothing else of the enclosing scope
    for n in ast.walk(st):
        if isinstance(n, (ast.Assign, ast.AnnAssign, ast.AugAssign)):
            for t in (n.targets if isinstance(n, ast.Assign) else [n.target]):
                for x in ast.walk(t):
                    if isinstance(x, ast.Name):
                        out.add(x.id)
    return out


def _reads(node: ast.AST) -> set[str]:
    return {x.id for x in ast.walk(node) if isinstance(x, ast.Name) and isinstance(x.ctx, ast.Load)}


def _operator_slice(fn: ast.FunctionDef) -> tuple[list[ast.stmt], ast.Call]:
    rets = [s for s in fn.body if isinstance(s, ast.Return)]
    if len(rets) != 1 or not (isinstance(rets[0].value, ast.Call) and call_name(rets[0].value) == 'AbstractFormat'):
        raise ShapeError(f'{fn.name}: result is not a single AbstractFormat(...) construction')
    call = rets[0].value
    wanted: list[ast.AST] = list(call.args[1:]) + [kw.value for kw in call.keywords]      # everything but `prec`
    need: set[str] = set()
    for w in wanted:
        need |= _reads(w)
    keep: list[ast.stmt] = []
    for st in reversed(fn.body[:fn.body.index(rets[0])]):
        if isinstance(st, ast.If) and all(isinstance(b, ast.Raise) for b in st.body) and not st.orelse:
            continue        # argument type guard
        if _assigned(st) & need:
            keep.append(st)
            need |= _reads(st)
    keep.reverse()
    return keep, call


def _interp(ctx: Ctx) -> tuple[Interp, dict[str, ast.FunctionDef]]:
    cdef = ctx.repo.cls(FMT, 'AbstractFormat')
    meths = {s.name: s for s in cdef.body if isinstance(s, ast.FunctionDef)}

    def ctor(prec, exp, bound, *, neg_bound=None, has_pos_inf=False, has_neg_inf=False, has_nan=False, has_neg_zero=False):
        return Obj('AbstractFormat', prec=prec, exp=exp, pos_bound=bound, neg_bound=(-bound if neg_bound is None else neg_bound),
                   has_pos_inf=has_pos_inf, has_neg_inf=has_neg_inf, has_nan=has_nan, has_neg_zero=has_neg_zero)
    import math
    it = Interp({}, methods=meths, overrides={'AbstractFormat': ctor, 'RealFloat.from_int': lambda n: n, 'math.isnan': lambda x: isinstance(x, float) and math.isnan(x)})
    # the constructor's own defaulting (`neg_bound = -bound`, flags False) is what `ctor` mirrors: check it
    init = meths.get('__init__')
    if init is None:
        raise ShapeError('AbstractFormat.__init__ not found')
    t = norm(init, 4000)
    defaults = {a.arg: norm(d) for a, d in zip(init.args.kwonlyargs, init.args.kw_defaults) if d is not None}
    ok = 'self.neg_bound = -bound if neg_bound is None else neg_bound' in t and 'self.pos_bound = bound' in t \
        and defaults == {'neg_bound': 'None', 'has_pos_inf': 'False', 'has_neg_inf': 'False', 'has_nan': 'False', 'has_neg_zero': 'False'}
    ctx.check(ok, FMT, init, 'AbstractFormat.__init__', 'constructor: symmetric negative bound and no special values unless stated', f'defaults {defaults}')
    return it, meths


def _apply(it: Interp, fn: ast.FunctionDef, sl: list[ast.stmt], call: ast.Call, a: Obj, b: Optional[Obj]) -> Obj:
    env: dict[str, Any] = {'self': a}
    if b is not None:
        env[fn.args.args[1].arg] = b
    it.self_obj = a
    it.fuel = 100000
    it.run(sl, env)
    kw = {k.arg: it.ev(k.value, env) for k in call.keywords}
    exp = it.ev(call.args[1], env)
    pos = it.ev(call.args[2], env)
    neg = kw.get('neg_bound')
    return Obj('AbstractFormat', prec=float('inf'), exp=exp, pos_bound=pos, neg_bound=(-pos if neg is None else neg),
               **{f: bool(kw.get(f, False)) for f in FLAGS})


def _all_formats() -> list[Obj]:
    return [_fmt(n, p, fl) for (n, p) in SHAPES for fl in itertools.product((False, True), repeat=4)]


CLAUSES = ('the finite range', 'infinities and NaN', 'the sign of zero')


def _clause(v: tuple) -> str:
    return CLAUSES[0] if v[0] == 'num' else CLAUSES[2] if v[0] == 'zero' else CLAUSES[1]


def t1_operator_soundness(ctx: Ctx):
    it, meths = _interp(ctx)
    fmts = _all_formats()
    binary = {'__add__': (c_add, '+'), '__sub__': (c_sub, '-'), '__mul__': (c_mul, '*')}
    unary = {'__neg__': (c_neg, '-'), '__abs__': (c_abs, 'abs')}
    for name, (op, symb) in {**binary, **unary}.items():
        fn = meths.get(name)
        if fn is None:
            raise ShapeError(f'AbstractFormat.{name} not found')
        ctx.functions_analysed.add((FMT, f'AbstractFormat.{name}'))
        sl, call = _operator_slice(fn)
        first_bad: dict[str, str] = {}
        n = 0
        for a in fmts:
            for b in (fmts if name in binary else [None]):
                r = _apply(it, fn, sl, call, a, b)
                n += 1
                for x in _members(a):
                    for y in (_members(b) if b is not None else [None]):
                        v = op(x, y) if y is not None else op(x)
                        if not _contains(r, v):
                            cl = _clause(v)
                            if cl not in first_bad:
                                lhs = f'{_show_val(x)} {symb} {_show_val(y)}' if y is not None else f'{symb}({_show_val(x)})'
                                first_bad[cl] = (f'{lhs} = {_show_val(v)} with operands from {_show_fmt(a)}' + (f' and {_show_fmt(b)}' if b is not None else '') +
                                                 f', but the result format is {_show_fmt(r)}')
        if name in binary:
            # unbounded operands (`inf` stands for "no largest finite value"): the bounds of the result are still bounds,
            # never the NaN of `0 * inf` or `inf - inf`, against which every containment test answers "inside"
            INF = float('inf')
            big = 1000
            for (na, pa), (nb, pb) in itertools.product(((0, INF), (-INF, 0), (-INF, INF)), SHAPES + ((0, INF), (-INF, INF))):
                for a, b in ((_fmt(na, pa, (False,) * 4), _fmt(nb, pb, (False,) * 4)), (_fmt(nb, pb, (False,) * 4), _fmt(na, pa, (False,) * 4))):
                    r = _apply(it, fn, sl, call, a, b)
                    n += 1
                    lo, hi = r.fields['neg_bound'], r.fields['pos_bound']
                    sample = lambda f: [v for v in (f.fields['neg_bound'], f.fields['pos_bound'], -big, -1, 0, 1, big) if f.fields['neg_bound'] <= v <= f.fields['pos_bound'] and abs(v) != INF]  # noqa: E731
                    for x in sample(a):
                        for y in sample(b):
                            v = {'+': x + y, '-': x - y, '*': x * y}[symb]
                            if not (lo <= v <= hi) and CLAUSES[0] not in first_bad:     # a NaN bound fails both comparisons
                                first_bad[CLAUSES[0]] = (f'{x} {symb} {y} = {v} with operands from [{a.fields["neg_bound"]}, {a.fields["pos_bound"]}] and '
                                                         f'[{b.fields["neg_bound"]}, {b.fields["pos_bound"]}], but the result is bounded by [{lo}, {hi}]')
        for cl in CLAUSES:
            ctx.check(cl not in first_bad, FMT, fn, f'AbstractFormat.{name}', f'{name}: {cl} of the result covers every exact result',
                      first_bad.get(cl, ''))
        ctx.note(f'{name}: {n} operand format combinations evaluated')
    # union and intersection
    for name, must in (('__or__', 'either'), ('__and__', 'both')):
        fn = meths[name]
        ctx.functions_analysed.add((FMT, f'AbstractFormat.{name}'))
        sl, call = _operator_slice(fn)
        bad = None
        n = 0
        for a in fmts:
            for b in fmts:
                r = _apply(it, fn, sl, call, a, b)
                n += 1
                vals = _members(a) + _members(b)
                for v in vals:
                    need = (_contains(a, v) or _contains(b, v)) if must == 'either' else (_contains(a, v) and _contains(b, v))
                    if need and not _contains(r, v) and bad is None:
                        bad = f'{_show_val(v)} is in {must} of {_show_fmt(a)}, {_show_fmt(b)} but not in the result {_show_fmt(r)}'
        ctx.check(bad is None, FMT, fn, f'AbstractFormat.{name}', f'{name}: the result holds every value that is in {must} operand{"s" if must == "both" else ""} ({n} pairs)', bad or '')
    # the quantum: exp of a sum / difference is the finer one, of a product the sum
    for name, want in (('__add__', 'min'), ('__sub__', 'min'), ('__or__', 'min'), ('__and__', 'max'), ('__mul__', 'sum')):
        fn = meths[name]
        sl, call = _operator_slice(fn)
        bad = None
        for ea, eb in ((0, 0), (0, 2), (2, 0), (-3, 1)):
            a, b = _fmt(-2, 5, (False,) * 4, ea), _fmt(-2, 5, (False,) * 4, eb)
            a.fields['exp'], b.fields['exp'] = ea, eb
            r = _apply(it, fn, sl, call, a, b)
            exp = {'min': min(ea, eb), 'max': max(ea, eb), 'sum': ea + eb}[want]
            good = r.fields['exp'] == exp if want == 'max' else r.fields['exp'] <= exp
            if not good and bad is None:
                bad = f'exp {ea} and {eb} give {r.fields["exp"]}, the exact result needs digits down to {exp}'
        ctx.check(bad is None, FMT, fn, f'AbstractFormat.{name}', f'{name}: the least digit position is the {want} of the operands\'', bad or '')
    # the helper `bound`
    bfn = meths.get('bound')
    if bfn is not None:
        bad = None
        for n_, p_ in SHAPES + ((-7, 2),):
            a = _fmt(n_, p_, (False,) * 4)
            it.self_obj = a
            got = it.call_function(bfn, [], bound_self=True)
            if got != max(p_, -n_) and bad is None:
                bad = f'bound of [{n_}, {p_}] is {got}'
        ctx.check(bad is None, FMT, bfn, 'AbstractFormat.bound', 'bound: the larger magnitude of the two bounds', bad or '')


# ----------------------------------------------------------------------
# T2: containment agrees with membership

def t2_containment(ctx: Ctx):
    it, meths = _interp(ctx)
    fn = meths.get('_is_contained_in')
    if fn is None:
        raise ShapeError('_is_contained_in not found')
    ctx.functions_analysed.add((FMT, 'AbstractFormat._is_contained_in'))
    fmts = []
    for (n, p) in SHAPES + ((-3, 3),):
        for fl in itertools.product((False, True), repeat=4):
            for e in (0, 1):
                f = _fmt(n, p, fl, e)
                fmts.append(f)
    bad = None
    cnt = 0
    accepted = 0
    for a in fmts:
        ma = _members(a)
        for b in fmts:
            it.self_obj = a
            it.fuel = 100000
            got = it.call_function(fn, [b], bound_self=True)
            cnt += 1
            if got:
                accepted += 1
                miss = [v for v in ma if not _contains(b, v)]
                if miss and bad is None:
                    bad = f'{_show_fmt(a)} (digits from 2^{a.fields["exp"]}) is reported contained in {_show_fmt(b)} (digits from 2^{b.fields["exp"]}) although {_show_val(miss[0])} is not a member of the latter'
    ctx.check(bad is None and accepted > 0, FMT, fn, 'AbstractFormat._is_contained_in', f'a <= b only if every member of a is a member of b ({cnt} pairs, {accepted} accepted)',
              bad or 'no pair accepted')
    # ... with the precision axis: a format of `prec` significant digits whose smallest digit is 2**exp (exp may be
    # unbounded below: a multi-precision float context) and whose bounds may be infinite.  Members are taken among the
    # multiples of 1/4 up to 16.
    from fractions import Fraction as Fr
    INF = float('inf')

    def digits(v: Fr) -> int:
        n = abs(v.numerator)
        return (n >> ((n & -n).bit_length() - 1)).bit_length()

    def holds(f: Obj, v: Fr) -> bool:
        if v == 0:
            return True
        e, p = f.fields['exp'], f.fields['prec']
        if isinstance(e, int) and (v / Fr(2) ** e).denominator != 1:
            return False
        if isinstance(p, int) and digits(v) > p:
            return False
        return f.fields['neg_bound'] <= v <= f.fields['pos_bound']
    cand = [Fr(k, 4) for k in range(-64, 65)]
    pf = [Obj('AbstractFormat', prec=p, exp=e, pos_bound=b, neg_bound=-b, **dict(zip(FLAGS, (True,) * 4)))
          for p in (INF, 1, 2, 3, 5) for e in (-INF, -2, 0, 1) for b in (INF, 16, 6, 2) if not (p == INF and e == -INF and False)]
    it2 = Interp({}, methods=meths, overrides={'RealFloat': lambda s, exp, c: (-1 if s else 1) * Fr(c) * Fr(2) ** exp, 'RealFloat.from_int': lambda n: n})
    bad = None
    cnt = accepted = 0
    for a in pf:
        ma = [v for v in cand if holds(a, v)]
        for b in pf:
            it2.self_obj = a
            it2.fuel = 100000
            got = it2.call_function(fn, [b], bound_self=True)
            cnt += 1
            if got:
                accepted += 1
                miss = [v for v in ma if not holds(b, v)]
                if miss and bad is None:
                    sh = lambda f: f'{{prec {f.fields["prec"]}, digits from 2**{f.fields["exp"]}, |x| <= {f.fields["pos_bound"]}}}'  # noqa: E731
                    bad = f'{sh(a)} is reported contained in {sh(b)} although {miss[0]} is a member of the first only'
    ctx.check(bad is None and accepted > 0, FMT, fn, 'AbstractFormat._is_contained_in',
              f'a <= b only if every member of a is a member of b, precision and unbounded exponents included ({cnt} pairs, {accepted} accepted)',
              (bad or 'no pair accepted') + ' (every bounded format counted as contained in MPFloatContext(2): RoundElim dropped `round(t)` under it, 2.0 became 1.75)')
    for name, target in (('__le__', 'self._is_contained_in(other)'), ('__ge__', 'other._is_contained_in(self)'), ('contained_in', 'self._is_contained_in(other)')):
        f = meths.get(name)
        if f is None:
            continue
        rets = [norm(s.value) for s in walk_no_nested(f) if isinstance(s, ast.Return) and s.value is not None and norm(s.value) != 'NotImplemented']
        ctx.check(rets == [target], FMT, f, f'AbstractFormat.{name}', f'{name} is {target}', f'got {rets}')
    # round_is_identity: shared with C10
    from . import c10
    sub = Ctx(ctx.repo, ctx.rule)
    c10.g1_identity_guard(sub)
    for inst in sub.instances:
        if inst.file == ANA:
            ctx.instances.append(inst)


# ----------------------------------------------------------------------
# D1: phis of the inference

def d1_phi_updates(ctx: Ctx):
    for m in ('_visit_if1', '_visit_if'):
        c13._check_merge(ctx, ANA, f'{INST}.{m}')
    ex, phi = c13._check_fixpoint(ctx, ANA, f'{INST}._fixpoint')
    fn = ctx.fn(ANA, f'{INST}._fixpoint')
    # widening: off until the iteration limit (unless an outer loop already widens), restored afterwards
    sets = [e for e in ex.events if e.kind == 'setattr' and e.name == 'self._widen']
    inloop = [e for e in sets if c13._in_loop(e)]
    after = [e for e in sets if not c13._in_loop(e)]
    runs = [e for e in ex.calls('run_body') if c13._in_loop(e)]
    def widen_term_ok(t: Any) -> bool:
        # `saved_widen or iter_count >= self._loop_iter_limit` (the counter reads 0 in the first pass)
        if not (isinstance(t, tuple) and t[0] == 'or' and len(t[1]) == 2):
            return False
        a, b = t[1]
        return a == sym('self._widen') and isinstance(b, tuple) and b[0] == 'cmp' and b[1] == '>=' and b[3] == sym('self._loop_iter_limit') \
            and (b[2] == ('k', 0) or c13._mentions(b[2], ('k', 0)))
    ok = len(inloop) == 1 and widen_term_ok(inloop[0].args[0]) and bool(runs) and inloop[0].seq < runs[0].seq
    ctx.check(ok, ANA, inloop[0].node if inloop else fn, f'{INST}._fixpoint', 'joins widen only once the pass count reaches the limit (or an enclosing loop already widens), decided before each pass',
              f'got {[show(e.args[0]) for e in inloop]}')
    ok = bool(after) and show(after[-1].args[0]) == 'self._widen' and not after[-1].guards
    # `saved_widen = self._widen` is read before the loop, so the restored term is the entry value
    ctx.check(ok, ANA, after[-1].node if after else fn, f'{INST}._fixpoint', 'the widening switch is restored to its value on entry', f'got {[show(e.args[0]) for e in after]}')
    incs = [e for e in ex.events if e.kind == 'assign' and e.name == 'iter_count' and c13._in_loop(e)]
    ctx.check(bool(incs), ANA, fn, f'{INST}._fixpoint', 'passes are counted', 'the pass counter never advances, so widening never engages and an ascending chain does not terminate')
    # a known trip count: exactly n joins, none when n <= 0
    q = f'{INST}._unroll'
    un = ctx.fn(ANA, q)
    exu = execute(un, {}, {}, loop_passes=1)
    phi_u = c13._phi_term(exu)
    if phi_u is None:
        raise ShapeError('_unroll: no loop over the phis')
    writes = c13._phi_writes(exu, phi_u)
    l, r = c13._operand(phi_u, 'lhs'), c13._operand(phi_u, 'rhs')
    seeds = [(e, v) for e, v in writes if not c13._in_loop(e) and c13._mentions(v, l) and not c13._mentions(v, r)]
    joins = [(e, v) for e, v in writes if c13._in_loop(e)]
    ctx.check(bool(seeds) and not seeds[0][0].guards, ANA, un, q, 'each phi starts from its pre-loop operand', 'no seed')
    ctx.check(bool(joins) and all(c13._is_join(v, phi_u) for _, v in joins), ANA, joins[0][0].node if joins else un, q, 'each of the n passes joins BOTH operands into the phi',
              f'phi written as {[show(v)[:120] for _, v in joins]}')
    loops = [s for s in walk_no_nested(un) if isinstance(s, ast.For) and norm(s.iter) == 'range(n)']
    ctx.check(len(loops) == 1, ANA, un, q, 'the body is read exactly n times', 'the trip count changed')
    vf = ctx.fn(ANA, f'{INST}._visit_for')
    exf = execute(vf, {}, {}, loop_passes=1)
    us = exf.calls('self._unroll')
    fs = exf.calls('self._fixpoint')
    ok = len(us) == 1 and len(fs) == 1 and any(show(g) == '(self._known_iter_count(stmt.iterable) is not None)' for g in us[0].guards) \
        and show(us[0].args[2]) == 'self._known_iter_count(stmt.iterable)'
    ctx.check(ok, ANA, vf, f'{INST}._visit_for', 'the exact walk is used only for a statically known trip count, and with that count; otherwise the fixpoint',
              f'unroll guards {[[show(g) for g in e.guards] for e in us]}')
    # arms
    for m, arms in (('_visit_if1', [('stmt.body', True)]), ('_visit_if', [('stmt.ift', True), ('stmt.iff', False)])):
        f = ctx.fn(ANA, f'{INST}.{m}')
        exm = execute(f, {}, {}, loop_passes=1)
        for subj, truth in arms:
            evs = [e for e in exm.events if e.kind == 'call' and e.name == 'self._visit_block' and e.args and show(e.args[0]) == subj]
            scopes = [[s for s in e.scopes if s[0] == 'with'] for e in evs]
            want = ('call', 'self._refined', (c13._term_of('stmt.cond'), ('k', truth)), ())
            ok = len(evs) == 1 and len(scopes[0]) == 1 and scopes[0][0][1] == want
            ctx.check(ok, ANA, evs[0].node if evs else f, f'{INST}.{m}', f'{subj} is read with stmt.cond known to be {truth}',
                      f'read under {[[show(s[1]) for s in sc] for sc in scopes]}: a bound refined by the wrong outcome excludes values the variable has in that arm')
        joins = [e for e, _ in c13._phi_writes(exm, c13._phi_term(exm))]
        ctx.check(bool(joins) and not any(s[0] == 'with' for e in joins for s in e.scopes), ANA, f, f'{INST}.{m}', 'the phis are joined outside the arms\' refinement', 'joined under a refinement')
    wf = ctx.fn(ANA, f'{INST}._visit_while')
    inner = [s for s in wf.body if isinstance(s, ast.FunctionDef)]
    t = norm(inner[0], 2000) if inner else ''
    ctx.check('self._visit_expr(stmt.cond, ctx)' in t and 'self._visit_block(stmt.body, ctx)' in t, ANA, wf, f'{INST}._visit_while', 'condition and body are re-read in every pass', 'changed')
    rf = ctx.fn(ANA, f'{INST}._visit_return')
    t = norm(rf, 2000)
    ctx.check('self._return_fmt = self._join(self._return_fmt, fmt)' in t, ANA, rf, f'{INST}._visit_return', 'the result format is the join over every `return`', 'a later return overwrites the format of an earlier one')


# ----------------------------------------------------------------------
# X1: the join of two bounds

def x1_join_table(ctx: Ctx):
    q = '_join_bounds'
    fn = ctx.fn(ANA, q)
    ms = [s for s in fn.body if isinstance(s, ast.Match)]
    if len(ms) != 1:
        raise ShapeError('_join_bounds: match not found')
    def key_of(c: ast.match_case) -> str:
        k = ' '.join(ast.unparse(c.pattern).split())
        return k[1:-1] if k[:1] in '[(' and k[-1:] in '])' else k
    rows: dict[str, ast.match_case] = {key_of(c): c for c in ms[0].cases}

    def body(pat: str) -> str:
        c = rows.get(pat)
        if c is None:
            raise ShapeError(f'_join_bounds: no case `{pat}` (cases: {sorted(rows)})')
        return ' '.join(norm(s, 2000) for s in c.body)
    t = body('SetFormat(values=a), SetFormat(values=b)')
    ctx.check('return SetFormat(a | b)' in t and 'if widen: return REAL_FORMAT' in t, ANA, rows['SetFormat(values=a), SetFormat(values=b)'].pattern, q,
              'two value sets join to their union (or to the real format under widening)', f'got {t[:160]}')
    for pat in ('SetFormat(values=vals), Format() as fmt', 'Format() as fmt, SetFormat(values=vals)'):
        t = body(pat)
        ctx.check(t == 'return fmt if _all_representable_in(vals, fmt) else REAL_FORMAT', ANA, rows[pat].pattern, q,
                  'a value set joins into a format only if every value is representable there; otherwise the real format', f'got {t[:160]}')
    c = rows.get('Format(), Format()')
    if c is None:
        raise ShapeError('_join_bounds: Format/Format case not found')
    ex = execute(ast.FunctionDef(name='case', args=ast.arguments(posonlyargs=[], args=[], kwonlyargs=[], kw_defaults=[], defaults=[]), body=c.body, decorator_list=[], lineno=c.pattern.lineno),
                 {}, {}, loop_passes=1)
    s1, s2 = sym('s1'), sym('s2')

    def contained(gs: tuple, inner: Any, outer: Any) -> bool:
        """some guard proves `inner`'s abstract format <= `outer`'s"""
        for g in gs:
            if isinstance(g, tuple) and g[0] == 'cmp' and g[1] == '<=' and c13._mentions(g[2], inner) and not c13._mentions(g[2], outer) \
                    and c13._mentions(g[3], outer) and not c13._mentions(g[3], inner):
                return True
        return False
    rets = list(ex.returns)
    bad = []
    for v, gs in rets:
        if v == s1:
            ok = any(g in (('cmp', '==', s1, s2), ('cmp', '==', s2, s1)) for g in gs) or contained(gs, s2, s1)
        elif v == s2:
            ok = contained(gs, s1, s2)
        elif v == sym('REAL_FORMAT'):
            ok = True
        else:
            ok = c13._mentions(v, s1) and c13._mentions(v, s2) and '|' in show(v)
        if not ok:
            bad.append((show(v), [show(g) for g in gs]))
    ctx.check(bool(rets) and not bad, ANA, c.pattern, q, 'two formats join to one of them only under equality or proven containment of the other; otherwise to the union or the real format',
              f'returns {bad}: the join would not contain one of its operands')
    for pat, want in (('TupleFormat(elts=a), TupleFormat(elts=b)', 'TupleFormat(tuple((_join_bounds(x, y, widen=widen) for x, y in zip(a, b))))'),
                      ('ListFormat(elt=a), ListFormat(elt=b)', 'ListFormat(_join_bounds(a, b, widen=widen))')):
        key = pat if pat in rows else None
        t = ' '.join(norm(s, 2000) for s in rows[key].body) if key else ''
        ctx.check(t == f'return {want}', ANA, rows[key].pattern if key else fn, q, f'{pat.split("(")[0]}: joined component-wise', f'got {t[:160]}')
    last = ms[0].cases[-1]
    ctx.check(isinstance(last.pattern, ast.MatchAs) and last.pattern.pattern is None and isinstance(last.body[0], ast.Raise), ANA, last.pattern, q,
              'an unexpected pair of bounds is an error, not a guess', 'the catch-all returns a bound')
    j = ctx.fn(ANA, f'{INST}._join')
    t = norm(j, 2000)
    ctx.check('_join_bounds(s1, s2, widen=self._widen)' in t, ANA, j, f'{INST}._join', 'the instance join is _join_bounds under the current widening switch', 'changed')


# ----------------------------------------------------------------------
# T3: the boolean skeleton of branch refinement

def t3_refinement_skeleton(ctx: Ctx):
    """What a condition being true / false implies about its comparisons: `and` only when true, `or` only when
    false, `not` flips.  The comparison leaves are replaced by tokens; the skeleton is evaluated for every shape."""
    from ..lang import lang
    L = lang(ctx.repo)
    meths = {s.name: s for s in ctx.repo.cls(ANA, INST).body if isinstance(s, ast.FunctionDef)}
    fn = meths.get('_implied')
    if fn is None:
        raise ShapeError('_implied not found')
    ctx.functions_analysed.add((ANA, f'{INST}._implied'))

    def atom(name: str) -> Obj:
        return Obj('Compare', ops=[('enum', 'CompareOp', 'LT')], args=[name, 0], name=name)

    def leaf(cond, truth):
        return [(cond.fields['name'], truth)]
    A, B = atom('a'), atom('b')

    def un(x):
        return Obj('Not', arg=x, args=(x,))

    def nary(kind, *xs):
        return Obj(kind, args=list(xs))
    shapes = {
        'a': A, 'not a': un(A), 'a and b': nary('And', A, B), 'a or b': nary('Or', A, B), 'not (a and b)': un(nary('And', A, B)),
        'not (a or b)': un(nary('Or', A, B)), 'a and not b': nary('And', A, un(B)), 'not a or b': nary('Or', un(A), B),
        '(a or b) and a': nary('And', nary('Or', A, B), A), 'not (not a)': un(un(A)), '(a and b) or a': nary('Or', nary('And', A, B), A),
        'not (a and not b)': un(nary('And', A, un(B))),
    }

    def ev(c: Obj, env: dict) -> bool:
        if c.kind == 'Compare':
            return env[c.fields['name']]
        if c.kind == 'Not':
            return not ev(c.fields['arg'], env)
        vals = [ev(x, env) for x in c.fields['args']]
        return all(vals) if c.kind == 'And' else any(vals)
    bad = None
    n = 0
    for txt, c in shapes.items():
        for truth in (True, False):
            it = Interp({}, methods=meths, is_a=L.is_a, overrides={'self._implied_compare': leaf})
            got = it.call_function(fn, [c, truth], bound_self=True)
            n += 1
            for a in (False, True):
                for b in (False, True):
                    env = {'a': a, 'b': b}
                    if ev(c, env) != truth:
                        continue
                    for name, t in got:
                        if env[name] != t and bad is None:
                            bad = f'`{txt}` being {truth} is read as implying `{name}` is {t}, but a={a}, b={b} makes the condition {truth} with `{name}` = {env[name]}'
    ctx.check(bad is None, ANA, fn, f'{INST}._implied', f'a branch refinement follows from the condition: `and` is split only when it holds, `or` only when it fails, `not` flips ({n} shapes x outcomes)',
              (bad or '') + ': a bound would be tightened in an arm where the comparison need not hold')
    # a failed ordering is its reverse only for the four orderings (a NaN fails every ordering; the constraint leaves specials untouched)
    from ..tables import module_dict
    neg = module_dict(ctx.repo, ANA, '_NEGATE')
    rows = {norm(k): norm(v) for k, v in zip(neg.keys, neg.values)}
    want = {'CompareOp.LT': 'CompareOp.GE', 'CompareOp.GE': 'CompareOp.LT', 'CompareOp.LE': 'CompareOp.GT', 'CompareOp.GT': 'CompareOp.LE'}
    ctx.check(rows == want, ANA, neg, '_NEGATE', 'the negation table holds exactly the four orderings', f'got {rows}')
    mc = ctx.fn(ANA, '_magnitude_constraint')
    t = norm(mc, 3000)
    ok = 'if op in (CompareOp.LT, CompareOp.LE) and c >= 0: return _unconstrained(pos_bound=b)' in t and 'if op in (CompareOp.GT, CompareOp.GE) and c <= 0: return _unconstrained(neg_bound=b)' in t \
        and 'if not is_dyadic(c):' in t
    ctx.check(ok, ANA, mc, '_magnitude_constraint', 'a comparison tightens only the bound it speaks about, only toward zero, only for a dyadic literal', 'changed')
    # a bound on `e = logb(v)` speaks of what logb *returned*: the exponent rounded under the context it was read in.  It
    # says something of `v` only where that rounding is an identity -- every path of `_implied_logb` to a non-empty answer
    # passes the test `round_is_identity(exact_logb(<format of v>), <the context active at the logb>)`, on its true side.
    from ..cfg import CFG, find_path
    il = meths.get('_implied_logb')
    if il is None:
        raise ShapeError('_implied_logb not found')
    cfg = CFG(il)
    answers = [n for n in cfg.returns() if isinstance(n.ast, ast.Return) and not (isinstance(n.ast.value, ast.List) and not n.ast.value.elts)]
    if not answers:
        raise ShapeError('_implied_logb: no refinement returned')

    def resolved_names() -> set[str]:
        return {norm(s.targets[0]) for s in walk_no_nested(il) if isinstance(s, ast.Assign) and isinstance(s.value, ast.Call) and call_name(s.value) == 'self._resolve_active_ctx'
                and s.value.args and norm(s.value.args[0]).endswith('site.expr')}

    def is_guard(n) -> bool:
        st_ = n.extra
        t_ = n.ast if isinstance(st_, ast.If) else None
        if t_ is None or not (isinstance(t_, ast.UnaryOp) and isinstance(t_.op, ast.Not)):
            return False
        k = t_.operand
        if not (isinstance(k, ast.Call) and call_name(k) == 'round_is_identity' and len(k.args) == 2):
            return False
        first_ok = isinstance(k.args[0], ast.Call) and call_name(k.args[0]) == 'exact_logb'
        second_ok = norm(k.args[1]) in resolved_names() or (isinstance(k.args[1], ast.Call) and call_name(k.args[1]) == 'self._resolve_active_ctx')
        leaves = all(isinstance(s, ast.Return) and isinstance(s.value, ast.List) and not s.value.elts for s in st_.body) and bool(st_.body)
        return first_ok and second_ok and leaves
    guards = [n for n in cfg.nodes_of('test') if is_guard(n)]
    for a_ in answers:
        p = find_path(cfg, cfg.entry, a_, avoid=lambda n: n in guards)
        ctx.check(bool(guards) and p is None, ANA, a_.ast, f'{INST}._implied_logb', 'a bound on logb(v) refines v only past a test that logb\'s own rounding changes nothing',
                  ('no such test' if not guards else 'a path reaches the answer around it') + ': under MPFloatContext(2), `e = logb(x); if e >= 8: y = x` takes x = 128 + 2**-45 '
                  '(logb 7, returned as 8) into the arm where x is claimed to have no digit below 2**-44')


def t5_partial_fit_specials(ctx: Ctx):
    """`_bound_if_fits` bounds the image of `round_C(exact)`.  When *exact* neither fits the scope nor covers it, the bound is
    the intersection of the two, built field by field.  The image contains more than finite numbers: a NaN that *exact*
    carries stays a NaN, an infinity stays one, a finite value beyond the scope's largest rounds to an infinity, a
    negative value finer than the scope's quantum may round to -0 -- each where the scope has that special.  The flag
    expressions of the constructed intersection are evaluated, from their source, over stand-in formats (all 16 flag
    combinations on either side, bounds inside / outside the scope, quantum finer / coarser) and must cover those."""
    from itertools import product

    from ..minipy import Interp, Obj
    q = '_FormatInferInstance._bound_if_fits'
    fn = ctx.fn(ANA, q)
    builds = [s.value for s in walk_no_nested(fn) if isinstance(s, ast.Assign) and norm(s.targets[0]) == 'overlap' and isinstance(s.value, ast.Call) and call_name(s.value) == 'AbstractFormat']
    if len(builds) != 1:
        raise ShapeError('_bound_if_fits: the intersection format is not built in one place')
    kw = {k.arg: k.value for k in builds[0].keywords}
    flags = ('has_pos_inf', 'has_neg_inf', 'has_nan', 'has_neg_zero')
    # (properties of the format class that the function reads -- `bound` -- are evaluated from the class's own source)
    fmt_meths = {s.name: s for s in ctx.repo.cls(FMT, 'AbstractFormat').body if isinstance(s, ast.FunctionDef)}
    it = Interp({}, methods=fmt_meths)
    n = 0
    bad = None
    for ef in product((False, True), repeat=4):
        for sf in product((False, True), repeat=4):
            for ep, en, ee in product((5, 20), (-5, -20, 0), (-3, 0)):
                exact = Obj('AbstractFormat', prec=10, exp=ee, pos_bound=ep, neg_bound=en, **dict(zip(flags, ef)))
                scope = Obj('AbstractFormat', prec=8, exp=-1, pos_bound=10, neg_bound=-10, **dict(zip(flags, sf)))
                env = {'exact': exact, 'scope_af': scope}
                got = {f: bool(it.ev(kw[f], dict(env))) if f in kw else False for f in flags}
                need = {
                    'has_pos_inf': sf[0] and (ef[0] or ep > 10),
                    'has_neg_inf': sf[1] and (ef[1] or en < -10),
                    'has_nan': sf[2] and ef[2],
                    'has_neg_zero': sf[3] and (ef[3] or (en < 0 and ee < -1)),
                }
                n += 1
                for f in flags:
                    if need[f] and not got[f] and bad is None:
                        what = {'has_pos_inf': '+inf', 'has_neg_inf': '-inf', 'has_nan': 'NaN', 'has_neg_zero': '-0'}[f]
                        bad = (f'exact {{{", ".join(x for x, v in zip(flags, ef) if v) or "finite only"}, bounds [{en}, {ep}], quantum 2**{ee}}} rounded into a scope '
                               f'{{{", ".join(x for x, v in zip(flags, sf) if v) or "finite only"}, bounds [-10, 10], quantum 2**-1}}: the image holds {what}, the bound does not')
    ctx.check(bad is None, ANA, builds[0], q, f'the bound of a rounding that only partly fits its scope keeps every special value the image can hold ({n} format pairs)',
              (bad or '') + ' (x + 1 under FP64 for an FP64 x was inferred as a format without NaN and infinities)')
    # ... and its finite bounds hold the rounded image: a bound of *exact* that is not on the scope's grid rounds to the
    # grid point beyond it.  The statement choosing the bounds is evaluated with the exact bound on and off the grid.
    from fractions import Fraction
    import math as _math
    chooser = [s for s in walk_no_nested(fn) if isinstance(s, ast.If) and any(isinstance(x, ast.Assign) and norm(x.targets[0]) == 'pos_bound' for x in s.body)]
    if len(chooser) != 1:
        raise ShapeError('_bound_if_fits: the statement choosing the finite bounds was not found')
    # (the statements between the first of `prec` / `exp` and the chooser: what its test reads)
    top = list(fn.body)
    at = top.index(chooser[0]) if chooser[0] in top else -1
    first = next((i for i, s in enumerate(top) if isinstance(s, ast.Assign) and norm(s.targets[0]) in ('prec', 'exp')), -1)
    if at < 0 or first < 0 or first > at:
        raise ShapeError('_bound_if_fits: the statements leading to the choice of bounds were not found')
    lead = top[first:at + 1]
    OVM = Obj('OverflowMode', WRAP='wrap', SATURATE='saturate', OVERFLOW='overflow', ASSERT='assert')

    def choose(exact, scope, overflow):
        env = {'exact': exact, 'scope_af': scope, 'resolved': Obj('Context', **({'overflow': overflow} if overflow else {})), 'OV': OVM, 'OverflowMode': OVM,
               'getattr': lambda o, a, d=None: o.fields.get(a, d), 'max': max, 'min': min, 'abs': abs}
        Interp({}, methods=fmt_meths).run_stmts(lead, env)
        return env
    bad = None
    rows = 0
    for ep, en, ee, pr in product((Fraction(21, 4), Fraction(5)), (Fraction(-21, 4), Fraction(-5)), (-3, -1, 0), (4, 8, 10)):
        if (ee > -3 and ep.denominator > 2) or (ee > -3 and en.denominator > 2):
            continue                         # not a member of a format with that quantum
        exact = Obj('AbstractFormat', prec=pr, exp=ee, pos_bound=ep, neg_bound=en)
        scope = Obj('AbstractFormat', prec=8, exp=-1, pos_bound=Fraction(10), neg_bound=Fraction(-10))
        env = choose(exact, scope, 'saturate')
        rows += 1
        up = Fraction(_math.ceil(ep * 2), 2)           # where round-up puts ep on the grid of halves
        dn = Fraction(_math.floor(en * 2), 2)
        if (env['pos_bound'] < min(up, 10) or env['neg_bound'] > max(dn, -10)) and bad is None:
            bad = f'exact bounds [{en}, {ep}] with quantum 2**{ee} into a scope with quantum 2**-1: the stated bounds are [{env["neg_bound"]}, {env["pos_bound"]}], the image reaches [{dn}, {up}]'
    ctx.check(bad is None and rows >= 12, ANA, chooser[0], q, f'the finite bounds of a partly fitting rounding hold the rounded image ({rows} rows, bounds on and off the scope\'s grid)',
              (bad or 'table shrank') + ' (x + y with x, y in [-0.375, 0.375] under an integer scope: inferred {0, -0}, 0.375 + 0.375 rounds to 1)')
    # ... under a scope that wraps on overflow a value past one end comes back from the other: once the exact range leaves
    # the scope's, on either side, the image may lie anywhere in the scope.  (A scope that saturates, raises or overflows to
    # an infinity clips, and the intersection is its image.)
    bad = None
    rows = 0
    # The scopes: a symmetric one, and the two shapes wrapping scopes really have -- two's complement (one more value below
    # zero than above: the exact range of `-y` leaves it at the top by one while its magnitude stays the scope's) and
    # unsigned (nothing below zero: `x - 1` leaves it at the bottom with a magnitude well inside).
    for mode in ('wrap', 'saturate', 'overflow', None):
        for slo, shi in ((Fraction(-10), Fraction(10)), (Fraction(-10), Fraction(9)), (Fraction(0), Fraction(10))):
            for ep, en in product((Fraction(5), Fraction(10), Fraction(20)), (Fraction(0), Fraction(-1), Fraction(-10), Fraction(-20))):
                exact = Obj('AbstractFormat', prec=6, exp=0, pos_bound=ep, neg_bound=en)
                scope = Obj('AbstractFormat', prec=8, exp=0, pos_bound=shi, neg_bound=slo)
                env = choose(exact, scope, mode)
                rows += 1
                leaves = ep > shi or en < slo
                want = (slo, shi) if (mode == 'wrap' and leaves) else (max(en, slo), min(ep, shi))
                if (env['neg_bound'] > want[0] or env['pos_bound'] < want[1]) and bad is None:
                    bad = (f'exact range [{en}, {ep}] into a scope [{slo}, {shi}] that {"wraps" if mode == "wrap" else "clips (" + str(mode) + ")"}: '
                           f'the stated bounds are [{env["neg_bound"]}, {env["pos_bound"]}], the image reaches [{want[0]}, {want[1]}]')
    ctx.check(bad is None and rows >= 144, ANA, chooser[0], q, f'the finite bounds of a partly fitting rounding cover what a wrapping scope brings back from its other end ({rows} rows)',
              (bad or 'table shrank') + ' (x in UINT8, `with SINT8: y = x + 45`: inferred [0, 127], x = 100 gives -111; `with SINT8: z = -y`: inferred [-127, 127], y = -128 gives -128)')


def t6_captured_values(ctx: Ctx):
    """The format stated for a captured value has to hold that value.  A finite number is stated as the singleton set of
    itself; what a Fraction cannot say -- a negative zero -- has to be said as the set {-0}; an infinity or a NaN must not
    fall back to the bound derived from the type, which under a pinned context (SINT8, a fixed-point format) holds
    neither.  `_free_var_format` is evaluated, from its source, on one stand-in per kind of capturable scalar."""
    import math
    from fractions import Fraction

    from ..minipy import Interp, Obj
    fn = ctx.fn(ANA, '_free_var_format')

    def num(kind, **f):
        o = Obj(kind, **f)
        o.fields.setdefault('is_finite', lambda o=o: not (o.fields.get('isinf') or o.fields.get('isnan')))
        o.fields.setdefault('is_zero', lambda o=o: o.fields.get('zero', False))
        o.fields.setdefault('as_rational', lambda o=o: ('rational-of', o))
        return o
    cases = [
        ('Float 1.5', num('Float', s=False), 'value'), ('Float +0', num('Float', s=False, zero=True), 'value'), ('Float -0', num('Float', s=True, zero=True), 'negzero'),
        ('Float +inf', num('Float', s=False, isinf=True), 'nonfinite'), ('Float NaN', num('Float', s=False, isnan=True), 'nonfinite'),
        ('RealFloat 1.5', num('RealFloat', s=False), 'value'), ('RealFloat -0', num('RealFloat', s=True, zero=True), 'negzero'),
        ('int 3', 3, 'value'), ('float 1.5', 1.5, 'value'), ('float -0.0', -0.0, 'negzero'), ('float inf', math.inf, 'nonfinite'), ('float nan', math.nan, 'nonfinite'),
        ('Fraction 1/3', Fraction(1, 3), 'value'),
    ]

    def frac(v):
        if isinstance(v, Obj):
            return ('rational-of', v)
        return Fraction(v)
    n = 0
    for label, v, want in cases:
        it = Interp({'_free_var_format': fn}, globals_={'NEG_ZERO': 'NEG_ZERO', 'REAL_FORMAT': 'REAL_FORMAT', 'math': math},
                    overrides={'SetFormat.from_value': lambda x: ('set', x), 'Fraction': frac, 'math.copysign': math.copysign})
        try:
            got = it.call_function(fn, [v])
        except Exception as ex:       # a raise inside the table is a verdict on that row, not an analysis failure
            got = ('raises', type(ex).__name__)
        n += 1
        if want == 'negzero':
            ok = got in (('set', 'NEG_ZERO'), 'REAL_FORMAT')
            why = 'a negative zero is stated as {-0} (a Fraction has none)'
        elif want == 'nonfinite':
            ok = got == 'REAL_FORMAT'
            why = 'an infinity / NaN is given a format that holds it (the type-derived bound of a pinned context does not)'
        else:
            ok = isinstance(got, tuple) and got[0] == 'set' and got[1] != 'NEG_ZERO'
            why = 'a finite number is stated as the singleton set of itself'
        ctx.check(ok, ANA, fn, '_free_var_format', f'captured {label}: {why}', f'got {got!r}')
    if n < 12:
        raise ShapeError('captured-value table incomplete')


def t7_active_context(ctx: Ctx):
    """Which context an operation is rounded under, as far as the analysis knows: the concrete context of the scope it
    sits in; for the function's own scope, the context the caller pinned; for a `with` block whose context is computed
    at run time, nothing -- to say "the pinned context" there states a format the value need not be in."""
    q = '_FormatInferInstance._resolve_active_ctx'
    fn = ctx.fn(ANA, q)
    from ..tables import decide as _decide
    rows = [
        ({'isinstance(scope.ctx, Context)': True}, 'scope.ctx', 'a concrete scope -> its context'),
        ({'isinstance(scope.ctx, Context)': False, 'isinstance(scope.site, FuncDef)': True}, 'self._outer_ctx', 'the function\'s own symbolic scope -> the context the caller pinned'),
        ({'isinstance(scope.ctx, Context)': False, 'isinstance(scope.site, FuncDef)': False, 'isinstance(scope.site, ContextStmt)': True}, 'None', 'a `with` block of unknown context -> unknown'),
    ]
    for env, want, label in rows:
        try:
            kind, val, st = _decide(ctx.repo, ANA, fn.body, dict(env), on_assign=lambda s, e: isinstance(s, ast.Assign))
        except Exception as ex:
            kind, val, st = 'undecided', ex, None
        got = 'None' if (kind == 'return' and val is None) else (norm(val.node) if hasattr(val, 'node') else repr(val))
        # "unknown" is always a sound answer
        ctx.check(kind == 'return' and got in (want, 'None'), ANA, st or fn, q, label, f'source yields {kind} {got}: an operation under `with fp.MPFloatContext(p):` is given the format of the pinned caller context')


def t4_exact_shortcuts(ctx: Ctx):
    """`exact_binop` and `exact_unop` answer through an algebraic identity when an operand is the singleton {0}.  The
    identities that hold are `0 + x = x`, `x + 0 = x` and `x - 0 = x`; `0 - x` is `-x` and `0 * x` is not 0 for an
    infinite x.  The function is evaluated, from its source, on every (operation, zero / set / format, zero / set /
    format) triple with tagged stand-ins, and each answer must be one the cell allows: the general path `op(abstract(lhs),
    abstract(rhs))` or the pointwise set result (sound by T1), giving up (None), or the operand the identity names."""
    from ..minipy import Interp, Obj
    fn = ctx.fn(ANA, 'exact_binop')
    ops = {k: (lambda a, b, k=k: ('op', k, a, b)) for k in ('add', 'sub', 'mul')}
    operator = Obj('module', **ops)
    n = 0
    for opname, opf in ops.items():
        for lk in ('zero', 'set', 'fmt'):
            for rk in ('zero', 'set', 'fmt'):
                if lk != 'fmt' and rk != 'fmt':
                    continue        # set / set: pointwise arithmetic over the members, not a shortcut
                mk = lambda side, k: Obj('SetFormat' if k != 'fmt' else 'Format', side=side, zero=(k == 'zero'), values=())  # noqa: E731
                lhs, rhs = mk('lhs', lk), mk('rhs', rk)
                ov = {
                    '_is_zero_set': lambda f: isinstance(f, Obj) and f.fields.get('zero', False),
                    '_to_abstract': lambda f: ('abs', f),
                    '_setformat_to_abstract': lambda f: ('abs', f),
                }
                interp = Interp({}, globals_={'operator': operator, '_SET_BINOPS': {}}, overrides=ov,
                                is_a=lambda k, c: c in ('AbstractableFormatBound',) or k == c)
                got = interp.call_function(fn, [lhs, rhs, opf], {'cap': None})
                general = ('op', opname, ('abs', lhs), ('abs', rhs))
                allowed = [None, general]
                if opname == 'add' and lk == 'zero':
                    allowed += [rhs, ('abs', rhs)]
                if opname in ('add', 'sub') and rk == 'zero':
                    allowed += [lhs, ('abs', lhs)]
                if opname == 'mul' and 'zero' in (lk, rk):
                    allowed = [None]        # 0 * inf is NaN, 0 * negative is -0: neither is in {0} nor in the zero-bounded product
                n += 1
                shown = 'None' if got is None else 'the general path' if got == general else f'the {got[1].fields["side"] if isinstance(got, tuple) and got[0] == "abs" else got.fields["side"]} operand\'s own format' \
                    if (isinstance(got, Obj) or (isinstance(got, tuple) and got[0] == 'abs')) else repr(got)
                ctx.check(any(got is a or got == a for a in allowed), ANA, fn, 'exact_binop', f'{opname}({lk}, {rk}) answers by an identity that holds',
                          f'{opname}({{0}} as {"lhs" if lk == "zero" else "rhs"}, format) gives {shown}: 0 - x is -x (and 0 * x is not 0 for every x)')
    if n < 15:
        raise ShapeError(f'exact_binop: only {n} cells evaluated')


EXPLANATION = (
    'Structural decision over fpy2/analysis/format_infer (ast; the AbstractFormat operators are read by sa/minipy.py: the slice of each '
    'operator that computes its exponent, bounds and special-value flags is evaluated over an exhaustive family of stand-in formats - all 16 flag '
    'combinations x 4 sign shapes of the bounds, 64 formats, 4096 pairs per binary operator - and every exact result of IEEE +, -, *, unary -, '
    'abs on every pair of members (NaN, both infinities, both zeros, every integer in range) must be a member of the computed format; nothing of '
    'the repository is run). Decided: (T1) per operator, three clauses - finite range, infinities / NaN, sign of zero; union / intersection; the '
    'least digit position; (T2) `<=` accepts only formats whose members are all members of the other, over 2*80*80 pairs incl. two digit '
    'positions; round_is_identity table (with C10.G1); (D1) branch phis join both operands, _fixpoint seeds / re-reads / re-joins and exits only '
    'when nothing changed against a snapshot taken before the pass, widening switches on only at the pass limit and is restored, _unroll joins '
    'exactly n times and not at all for n <= 0, refinement arms have the right polarity, the return format is a join; (X1) _join_bounds returns '
    'an operand only under equality or proven containment. NOT decided: prec / effective_prec arithmetic, SetFormat arithmetic, exact_logb / '
    'exact_exp2, the refinement arithmetic of _implied_compare / _implied_logb, callee instantiation, storage selection.'
)
ASSUMPTIONS = [
    'integer stand-ins for the bounds exercise the operators\' bound arithmetic as RealFloat would (only +, -, *, unary -, abs, min, max and comparisons are applied to them)',
    'exact zero sums of unlike-signed operands are +0.0 (round-to-nearest; what the interpreter does for every context probed)',
    'every format holds a +0.0 (the class convention pos_bound >= 0 >= neg_bound)',
]

def t8_range_elements(ctx: Ctx):
    """`range(start, stop, step)` with known arguments: the format stated for the loop variable holds every integer
    the range produces, whichever way it runs and wherever it starts.  `_range_elt_format` is evaluated, from its source,
    with the exact-set threshold at 2 so that the bounded arm answers for short ranges too, over every (start, stop,
    step) with start, stop in [-6, 6] and step in {-3..-1, 1..3}."""
    from fractions import Fraction
    fn = ctx.fn(ANA, '_FormatInferInstance._range_elt_format')

    def fmt(*a):
        if len(a) != 3:
            raise ShapeError(f'AbstractFormat{a}')
        o = Obj('AbstractFormat', prec=a[0], exp=a[1], bound=a[2])
        o.fields['format'] = lambda: o
        return o
    n = 0
    bad = None
    for start, stop, step in itertools.product(range(-6, 7), range(-6, 7), (-3, -2, -1, 1, 2, 3)):
        it = Interp({}, {}, globals_={'_INTEGER_FORMAT': 'INT'}, self_obj=Obj('self', _range_set_threshold=2),
                    overrides={'RealFloat.from_int': lambda v: v, 'AbstractFormat': fmt, 'SetFormat': lambda vs: Obj('SetFormat', values=set(vs)),
                               'frozenset': frozenset, 'Fraction': Fraction})
        got = it.call_function(fn, [start, stop, step], bound_self=True)
        vals = list(range(start, stop, step))
        n += 1
        if bad is not None or got == 'INT':
            continue
        if isinstance(got, Obj) and got.kind == 'SetFormat':
            if got.fields['values'] != set(vals):
                bad = f'range({start}, {stop}, {step}) is given the set {sorted(got.fields["values"])}'
        elif isinstance(got, Obj) and got.kind == 'AbstractFormat':
            b = got.fields['bound']
            if got.fields['exp'] != 0 or got.fields['prec'] != float('inf') or any(abs(v) > b for v in vals):
                bad = f'range({start}, {stop}, {step}) produces {vals} and is given integers of magnitude at most {b}'
        else:
            bad = f'range({start}, {stop}, {step}) is given {got!r}'
    ctx.check(bad is None, ANA, fn, '_FormatInferInstance._range_elt_format', f'the element format of a known range holds every element ({n} ranges)',
              (bad or '') + ': `for i in range(-300, 20): k = i * 3` stores k in an int8_t and wraps for i <= -43')
    if n < 1000:
        raise ShapeError(f'only {n} ranges evaluated')


def t9_zero_sums(ctx: Ctx):
    """Terms of unlike sign that cancel give -0 where the scope rounds toward negative (ops._zero_sum, C11.T2) and +0
    elsewhere; the exact arithmetic of the analysis knows the +0 rule only.  So (a) every exact sum or difference (and
    the accumulation of `sum`) reaches the scope through `_zero_sum_bound`, and (b) that helper, evaluated from its
    source, declines the exact result for a round-toward-negative scope unless the result already admits -0 or cannot
    be zero."""
    from fractions import Fraction
    cls = '_FormatInferInstance'
    meths = {n: f for n, (_, _, f) in ctx.repo.methods(ANA, cls, inherited=False).items()}
    n = 0
    for name, f in meths.items():
        parents = {c: p for p in ast.walk(f) for c in ast.iter_child_nodes(p)}
        for k in calls_in(f):
            if call_name(k) == 'exact_binop' and len(k.args) >= 3 and norm(k.args[2]) in ('operator.add', 'operator.sub'):
                n += 1
                p = parents.get(k)
                ctx.check(isinstance(p, ast.Call) and call_name(p) == 'self._zero_sum_bound', ANA, k, f'{cls}.{name}',
                          f'the exact {"sum" if norm(k.args[2]).endswith("add") else "difference"} is fitted to the scope by _zero_sum_bound',
                          f'handed to `{call_name(p) if isinstance(p, ast.Call) else norm(p)[:40]}`: under an RTN scope `1 + (-1)` is inferred as {{+0}} and the program returns -0.0')
        if name == '_sum_bound':
            acc = [s for s in ast.walk(f) if isinstance(s, ast.Assign) and isinstance(s.value, ast.BinOp) and isinstance(s.value.op, ast.Add) and isinstance(s.targets[0], ast.Name)]
            for a in acc:
                users = [k for k in calls_in(f) if any(isinstance(x, ast.Name) and x.id == a.targets[0].id for x in k.args) and (call_name(k) or '').startswith('self._')]   # type: ignore
                n += 1
                ctx.check(bool(users) and all(call_name(k) == 'self._zero_sum_bound' for k in users), ANA, a, f'{cls}._sum_bound',
                          'the accumulated format of sum() is fitted to the scope by _zero_sum_bound', f'handed to {[call_name(k) for k in users]}')
    if n < 3:
        raise ShapeError(f'only {n} exact sums found in the analysis')
    fn = meths.get('_zero_sum_bound')
    if fn is None:
        ctx.bad(ANA, None, f'{cls}._zero_sum_bound', 'the scope-aware fit of a sum', 'helper not found')
        return
    NEGZ = Obj('NegZero')
    exacts = {
        '{+0}': (Obj('SetFormat', values=frozenset([Fraction(0)])), True), '{+0, 1}': (Obj('SetFormat', values=frozenset([Fraction(0), Fraction(1)])), True),
        '{+0, -0}': (Obj('SetFormat', values={Fraction(0), NEGZ}), False), '{1, 2}': (Obj('SetFormat', values=frozenset([Fraction(1), Fraction(2)])), False),
        'A(no -0)': (Obj('AbstractFormat', has_neg_zero=False), True), 'A(-0)': (Obj('AbstractFormat', has_neg_zero=True), False),
    }
    bad = None
    rows = 0
    for rm in ('RTN', 'RNE', 'RTZ', None):
        scope = Obj('Context', rm=('enum', 'RM', rm)) if rm else Obj('RealContext')
        for label, (ex, lacks) in exacts.items():
            it = Interp({}, {}, globals_={'NEG_ZERO': NEGZ}, overrides={'self._resolve_active_ctx': lambda e, s=scope: s, 'self._bound_if_fits': lambda e, x: 'EXACT',
                                                                     'getattr': lambda o, a, d=None: o.fields.get(a, d) if isinstance(o, Obj) else d, 'Fraction': Fraction})
            got = it.call_function(fn, ['e', ex], bound_self=True)
            rows += 1
            if rm == 'RTN' and lacks and got is not None and bad is None:
                bad = f'an exact result {label} under a round-toward-negative scope is taken as it is'
    ctx.check(bad is None, ANA, fn, f'{cls}._zero_sum_bound', f'a round-toward-negative scope takes an exact sum only if it admits -0 or cannot be zero ({rows} rows)',
              (bad or '') + ': x - x is inferred without a negative zero and the program returns -0.0')


def g1_size_facts(ctx: Ctx):
    # format inference pins `len(xs)` to {n} and walks `for x in xs` exactly n times on the word of the array-size
    # analysis; where that analysis may constrain a length globally is decided in c13
    c13.g2_size_facts_unconditional(ctx)


def g2_alias_routes(ctx: Ctx):
    # a store through one name widens the format of every name of the same list: which names those are is the alias
    # analysis' word, decided in c13
    c13.x2_alias_routes(ctx)


RULES = [
    Rule('C14.G2', 'the alias regions a store is replayed on link every construct that shares a list (= C13.X2)', g2_alias_routes, 36, 'G'),
    Rule('C14.G1', 'a list length format inference relies on is constrained only where every execution passes (= C13.G2, array sizes)', g1_size_facts, 15, 'G'),
    Rule('C14.T9', 'an exact sum / difference / sum() is taken by a round-toward-negative scope only if it admits -0 or cannot be zero', t9_zero_sums, 4, 'T'),
    Rule('C14.T8', 'the element format of range(start, stop, step) holds every element, whichever way the range runs', t8_range_elements, 1, 'T'),
    Rule('C14.T1', 'every AbstractFormat operator covers the exact results of its members: finite range, infinities / NaN, sign of zero', t1_operator_soundness, 24, 'T'),
    Rule('C14.T2', 'containment agrees with membership; round_is_identity is containment in the target format', t2_containment, 10, 'T'),
    Rule('C14.D1', 'inference phis join both operands; loops iterate until stable with widening only past the limit; exact walk for known trip counts', d1_phi_updates, 21, 'D'),
    Rule('C14.X1', '_join_bounds returns an operand only under equality or proven containment', x1_join_table, 8, 'X'),
    Rule('C14.T7', 'the active context of an operation: concrete scope, else the pinned context for the function\'s own scope only, else unknown', t7_active_context, 3, 'T'),
    Rule('C14.T6', 'the format stated for a captured scalar holds it: -0 as {-0}, infinities and NaN never through the type-derived bound', t6_captured_values, 13, 'T'),
    Rule('C14.T5', 'the bound of a rounding that only partly fits its scope keeps the special values the image can hold', t5_partial_fit_specials, 1, 'T'),
    Rule('C14.T4', 'exact_binop shortcuts for a {0} operand use only identities that hold (0 + x, x + 0, x - 0; never 0 - x = x or 0 * x = 0)', t4_exact_shortcuts, 15, 'T'),
    Rule('C14.T3', 'branch refinement follows from the condition (boolean skeleton of _implied; negation table; direction of the constraint)', t3_refinement_skeleton, 3, 'T'),
]

from ..selftest import Mutant  # noqa: E402

MUTANTS = [
    Mutant('wrapping-scope-clipped-like-a-saturating-one', ANA, "        if exact.prec > scope_af.prec or exact.exp < scope_af.exp or wraps:", "        if exact.prec > scope_af.prec or exact.exp < scope_af.exp:", 'C14.T5',
           'finding F112 before its repair: x in UINT8, with SINT8: y = x + 45 inferred [0, 127]'),
    Mutant('containment-skips-precision-for-unbounded-exponents', FMT, "        if not isinstance(other.prec, float):\n", "        if not isinstance(other.prec, float) and not isinstance(other.exp, float):\n", 'C14.T2',
           'finding F113 before its repair: every bounded format is contained in MPFloatContext(2); RoundElim drops a rounding that changes values'),
    Mutant('logb-bound-read-as-exact', ANA, "        if not round_is_identity(exact_logb(fmt), resolved):\n            return []\n", "", 'C14.T3',
           'finding F114 before its repair'),
    Mutant('logb-bound-tested-against-the-wrong-context', ANA, "        resolved = self._resolve_active_ctx(d.site.expr)\n        if not round_is_identity(exact_logb(fmt), resolved):", "        resolved = REAL\n        if not round_is_identity(exact_logb(fmt), resolved):", 'C14.T3'),
    Mutant('wrap-noticed-past-the-upper-end-only', ANA, "            exact.pos_bound > scope_af.pos_bound\n            or exact.neg_bound < scope_af.neg_bound\n", "            exact.pos_bound > scope_af.pos_bound\n", 'C14.T5',
           'x in SINT8, with UINT8: y = x - 45 comes back from the top'),
    Mutant('wrap-noticed-by-magnitude-only', ANA, "            exact.pos_bound > scope_af.pos_bound\n            or exact.neg_bound < scope_af.neg_bound\n", "            exact.bound > scope_af.bound\n", 'C14.T5',
           'seeded change C14g: y in SINT8, with SINT8: z = -y -- the exact range [-127, 128] has the magnitude of the scope [-128, 127] and leaves it at the top'),
    Mutant('wrap-test-through-the-magnitude-property-as-well', ANA, "            exact.pos_bound > scope_af.pos_bound\n            or exact.neg_bound < scope_af.neg_bound\n",
           "            exact.pos_bound > scope_af.pos_bound\n            or exact.neg_bound < scope_af.neg_bound\n            or exact.bound > scope_af.bound\n", 'C14.T5',
           'a redundant third disjunct read through the class\'s `bound` property: behaviour unchanged, the rule stays silent', expect='silent'),
    Mutant('merge-points-unified-for-plain-lists-only', 'fpy2/analysis/alias.py', "            if not _carries_list(self.types.by_def.get(d)):\n                continue\n            for i in same_object_defs(d):",
           "            if not isinstance(self.types.by_def.get(d), ListType):\n                continue\n            for i in same_object_defs(d):", 'C14.G2',
           'seeded change C14e: t = (xs, 0); if c: t = (ys, 1); a, k = t; a[0] = x -- xs[0] keeps the literal set'),
    Mutant('zero-bound-times-unbounded-is-nan', FMT, "            return b if b == 0 else a if a == 0 else a * b\n", "            return a * b\n", 'C14.T1',
           'finding F77 before its repair: {-2} * integers has NaN bounds and is "contained" in every bounded scope'),
    Mutant('partial-fit-bounds-off-the-grid', ANA, "        if exact.prec > scope_af.prec or exact.exp < scope_af.exp or wraps:", "        if exact.prec > scope_af.prec or wraps:", 'C14.T5',
           'finding F76 before its repair: 0.375 + 0.375 under an integer scope'),
    Mutant('difference-fitted-without-the-zero-rule', ANA, "                fitted = self._zero_sum_bound(\n                    e, exact_binop(lhs, rhs, operator.sub,", "                fitted = self._bound_if_fits(\n                    e, exact_binop(lhs, rhs, operator.sub,", 'C14.T9',
           'finding F71 before its repair: x - x under an RTN scope is inferred without -0'),
    Mutant('zero-rule-for-sets-only', ANA, "            else:\n                lacks = not exact.has_neg_zero\n", "            else:\n                lacks = False\n", 'C14.T9'),
    Mutant('zero-rule-asks-for-rtz', ANA, "        if exact is not None and getattr(resolved, 'rm', None) is RM.RTN:", "        if exact is not None and getattr(resolved, 'rm', None) is RM.RTZ:", 'C14.T9'),
    Mutant('sum-accumulation-fitted-without-the-zero-rule', ANA, "        fitted = self._zero_sum_bound(e, af_acc)", "        fitted = self._bound_if_fits(e, af_acc)", 'C14.T9'),
    Mutant('comprehension-element-unconditional-for-known-lengths', 'fpy2/analysis/array_size.py', "        with self._branch():\n            elt_ty = self._visit_expr(e.elt, ctx)\n\n        # One iterable",
           "        if all(isinstance(ty.size, int) for ty in iter_tys):\n            elt_ty = self._visit_expr(e.elt, ctx)\n        else:\n            with self._branch():\n                elt_ty = self._visit_expr(e.elt, ctx)\n\n        # One iterable", 'C14.G1',
           'seeded change C14d: a known length may be 0, and then the element never runs'),
    Mutant('range-bound-from-the-positive-end', ANA, "        b = RealFloat.from_int(max(abs(start), abs(last)))", "        b = RealFloat.from_int(abs(max(start, last)))", 'C14.T8',
           'seeded change C11d: range(-300, 20) is given |i| <= 19'),
    Mutant('range-bound-from-the-start', ANA, "        b = RealFloat.from_int(max(abs(start), abs(last)))", "        b = RealFloat.from_int(abs(start))", 'C14.T8'),
    Mutant('range-bound-from-stop', ANA, "        b = RealFloat.from_int(max(abs(start), abs(last)))", "        b = RealFloat.from_int(max(abs(start), abs(stop)))", 'C14.T8',
           'the stop is never attained but bounds every element', expect='silent'),
    # T7
    Mutant('unknown-with-block-takes-the-pinned-context', ANA, "        if isinstance(scope.site, FuncDef):\n            return self._outer_ctx\n        return None", "        return self._outer_ctx", 'C14.T7',
           'finding F60 before its repair'),
    Mutant('function-scope-unresolved', ANA, "        if isinstance(scope.site, FuncDef):\n            return self._outer_ctx\n        return None", "        return None", 'C14.T7',
           'loses precision only: a sound (if useless) answer', expect='silent'),
    # T6
    Mutant('captured-python-negative-zero-is-plus-zero', ANA, "            if isinstance(val, float) and val == 0 and math.copysign(1.0, val) < 0:\n                # a `Fraction` has no `-0`; the captured value does\n                return SetFormat.from_value(NEG_ZERO)\n", "", 'C14.T6',
           'finding F59 before its repair'),
    Mutant('captured-infinity-falls-back-to-the-type', ANA, "                # the type-derived bound is a format of the pinned context,\n                # which need not hold an infinity or a NaN\n                return REAL_FORMAT", "                return None", 'C14.T6',
           'finding F59 before its repair: a captured inf under a pinned SINT8 is given an 8-bit integer format'),
    Mutant('captured-float-negative-zero-unstated', ANA, "            if val.is_zero() and val.s:\n                return SetFormat.from_value(NEG_ZERO)\n            return SetFormat.from_value(val.as_rational())", "            return SetFormat.from_value(val.as_rational())", 'C14.T6'),
    # T5
    Mutant('partial-fit-drops-the-specials', ANA,
           "        overlap = AbstractFormat(\n            prec, exp, pos_bound, neg_bound=neg_bound,\n            has_pos_inf=scope_af.has_pos_inf and (\n                exact.has_pos_inf or exact.pos_bound > scope_af.pos_bound\n            ),\n"
           "            has_neg_inf=scope_af.has_neg_inf and (\n                exact.has_neg_inf or exact.neg_bound < scope_af.neg_bound\n            ),\n            has_nan=scope_af.has_nan and exact.has_nan,\n"
           "            has_neg_zero=scope_af.has_neg_zero and (\n                exact.has_neg_zero\n                or (exact.neg_bound < 0 and exact.exp < scope_af.exp)\n            ),\n        )\n",
           "        overlap = AbstractFormat(prec, exp, pos_bound, neg_bound=neg_bound)\n", 'C14.T5', 'finding F58 before its repair'),
    Mutant('overflow-to-infinity-forgotten', ANA, "                exact.has_pos_inf or exact.pos_bound > scope_af.pos_bound\n", "                exact.has_pos_inf\n", 'C14.T5',
           'round(n) of an unbounded integer under FP32: 2**200 rounds to +inf'),
    Mutant('nan-of-the-operand-forgotten', ANA, "            has_nan=scope_af.has_nan and exact.has_nan,\n", "            has_nan=False,\n", 'C14.T5', 'finding F58 before its repair: x + 1 under FP64 without NaN'),
    Mutant('underflow-to-negative-zero-forgotten', ANA, "                or (exact.neg_bound < 0 and exact.exp < scope_af.exp)\n", "", 'C14.T5'),
    Mutant('partial-fit-takes-all-scope-specials', ANA, "            has_nan=scope_af.has_nan and exact.has_nan,\n", "            has_nan=scope_af.has_nan,\n", 'C14.T5', 'wider than needed, still a bound', expect='silent'),
    # T4
    Mutant('zero-minus-x-is-x', ANA, "    if op is operator.add:\n        if lhs_zero:\n            return rhs if isinstance(rhs, SetFormat) else _to_abstract(rhs)\n        if rhs_zero:\n            return lhs if isinstance(lhs, SetFormat) else _to_abstract(lhs)\n    if op is operator.sub and rhs_zero:\n        return lhs if isinstance(lhs, SetFormat) else _to_abstract(lhs)",
           "    if op is operator.add or op is operator.sub:\n        if lhs_zero:\n            return _to_abstract(rhs)\n        if rhs_zero:\n            return _to_abstract(lhs)", 'C14.T4',
           'seeded change C14c: 0 - x for an unsigned 8-bit x is reported as [0, 255]'),
    Mutant('zero-times-x-is-zero', ANA, "        # a later add/sub's `prec` to 0.\n        return None", "        # a later add/sub's `prec` to 0.\n        return lhs if lhs_zero else rhs", 'C14.T4'),
    Mutant('x-minus-zero-shortcut-dropped', ANA, "    if op is operator.sub and rhs_zero:\n        return lhs if isinstance(lhs, SetFormat) else _to_abstract(lhs)\n", "", 'C14.T4',
           'the general path is sound', expect='silent'),
    # T3
    Mutant('failed-conjunction-split', ANA, "            case And() if truth:\n                return [i for a in cond.args for i in self._implied(a, True)]", "            case And():\n                return [i for a in cond.args for i in self._implied(a, truth)]", 'C14.T3',
           'seeded change C14a: the else arm of `x >= 4 and k >= 4` is refined to x < 4'),
    Mutant('holding-disjunction-split', ANA, "            case Or() if not truth:\n                return [i for a in cond.args for i in self._implied(a, False)]", "            case Or():\n                return [i for a in cond.args for i in self._implied(a, truth)]", 'C14.T3'),
    Mutant('negation-not-flipped', ANA, "                return self._implied(cond.arg, not truth)\n            case And() if truth:", "                return self._implied(cond.arg, truth)\n            case And() if truth:", 'C14.T3'),
    Mutant('negated-equality-bounds', ANA, "    CompareOp.LE: CompareOp.GT, CompareOp.GT: CompareOp.LE,\n}", "    CompareOp.LE: CompareOp.GT, CompareOp.GT: CompareOp.LE,\n    CompareOp.NE: CompareOp.LE,\n}", 'C14.T3'),
    # T1
    Mutant('abs-ignores-negative-bound', FMT, "            self.prec, self.exp, self.bound, neg_bound=RealFloat.from_int(0),", "            self.prec, self.exp, self.pos_bound, neg_bound=RealFloat.from_int(0),", 'C14.T1',
           'finding F19 before its repair'),
    Mutant('sum-loses-infinity', FMT, "        has_pos_inf = self.has_pos_inf or other.has_pos_inf\n", "        has_pos_inf = self.has_pos_inf and other.has_pos_inf\n", 'C14.T1'),
    Mutant('inf-minus-inf-not-nan', FMT, "            or (self.has_pos_inf and other.has_neg_inf)\n            or (self.has_neg_inf and other.has_pos_inf)\n", "", 'C14.T1'),
    Mutant('difference-bound-wrong-operand', FMT, "        pos_bound = self.pos_bound - other.neg_bound", "        pos_bound = self.pos_bound - other.pos_bound", 'C14.T1'),
    Mutant('product-lower-bound-tighter-corner', FMT, "        neg_bound = min(corner(self.pos_bound, other.neg_bound), corner(self.neg_bound, other.pos_bound))", "        neg_bound = max(corner(self.pos_bound, other.neg_bound), corner(self.neg_bound, other.pos_bound))", 'C14.T1',
           'the comment in the source records this very defect: [-1,1] * [-2,1] reaches -2'),
    Mutant('zero-times-inf-not-nan', FMT, "        has_nan = self.has_nan or other.has_nan or inf_out", "        has_nan = self.has_nan or other.has_nan", 'C14.T1'),
    Mutant('negation-keeps-infinities', FMT, "            has_pos_inf=self.has_neg_inf, has_neg_inf=self.has_pos_inf, has_nan=self.has_nan,\n            has_neg_zero=self.has_neg_zero,",
           "            has_pos_inf=self.has_pos_inf, has_neg_inf=self.has_neg_inf, has_nan=self.has_nan,\n            has_neg_zero=self.has_neg_zero,", 'C14.T1'),
    Mutant('negation-keeps-bounds', FMT, "            self.prec, self.exp, -self.neg_bound, neg_bound=-self.pos_bound,", "            self.prec, self.exp, self.pos_bound, neg_bound=self.neg_bound,", 'C14.T1'),
    Mutant('union-lower-bound-is-a-max', FMT, "        pos_bound = max(self.pos_bound, other.pos_bound)\n        neg_bound = min(self.neg_bound, other.neg_bound)", "        pos_bound = max(self.pos_bound, other.pos_bound)\n        neg_bound = max(self.neg_bound, other.neg_bound)", 'C14.T1'),
    Mutant('union-drops-neg-zero', FMT, "            has_neg_zero=self.has_neg_zero or other.has_neg_zero,", "            has_neg_zero=self.has_neg_zero and other.has_neg_zero,", 'C14.T1'),
    Mutant('sum-quantum-coarser', FMT, "        exp = min(self.exp, other.exp)", "        exp = max(self.exp, other.exp)", 'C14.T1', count=3, nth=0),
    Mutant('abs-drops-neg-infinity', FMT, "            has_pos_inf=self.has_pos_inf or self.has_neg_inf, has_neg_inf=False, has_nan=self.has_nan,", "            has_pos_inf=self.has_pos_inf, has_neg_inf=False, has_nan=self.has_nan,", 'C14.T1'),
    Mutant('difference-neg-zero-needs-both', FMT, "        has_neg_zero = self.has_neg_zero\n", "        has_neg_zero = self.has_neg_zero and other.has_neg_zero\n", 'C14.T1', '(-0) - (+0) = -0 whatever the subtrahend\'s system'),
    # T2
    Mutant('containment-ignores-neg-zero', FMT, "            or (self.has_neg_zero and not other.has_neg_zero)\n", "", 'C14.T2', 'the history records this: a bound carrying -0.0 reached an integer storage'),
    Mutant('containment-bound-direction', FMT, "        if other.pos_bound < self.pos_bound:", "        if other.pos_bound > self.pos_bound:", 'C14.T2'),
    Mutant('containment-quantum-direction', FMT, "        if other.exp > self.exp:", "        if other.exp < self.exp:", 'C14.T2'),
    Mutant('identity-without-containment', ANA, "    return unrounded <= AbstractFormat.from_format(ctx_fmt)", "    return True", 'C14.T2'),
    # D1
    Mutant('loop-phi-one-sided', ANA, "                self._set_def_bound(phi, self._join(lhs, rhs))\n            if all(", "                self._set_def_bound(phi, rhs)\n            if all(", 'C14.D1'),
    Mutant('loop-stops-after-one-pass', ANA, "            if all(self.by_def[phi] == prev[phi] for phi in phis):\n                break", "            if True:\n                break", 'C14.D1'),
    Mutant('widening-from-the-start', ANA, "            self._widen = saved_widen or iter_count >= self._loop_iter_limit", "            self._widen = True", 'C14.D1', 'sound but the rule pins the documented switch'),
    Mutant('widening-not-restored', ANA, "            iter_count += 1\n        self._widen = saved_widen\n", "            iter_count += 1\n", 'C14.D1'),
    Mutant('dead-loop-early-return-dropped', ANA, "            run_body()\n            return\n        for _ in range(n):", "            run_body()\n        for _ in range(n):", 'C14.D1', expect='silent',
           why='range(n) is empty for n <= 0, so dropping the early return changes nothing'),
    Mutant('else-arm-refined-as-then', ANA, "        with self._refined(stmt.cond, False):\n            self._visit_block(stmt.iff, ctx)", "        with self._refined(stmt.cond, True):\n            self._visit_block(stmt.iff, ctx)", 'C14.D1'),
    Mutant('branch-phi-one-sided', ANA, "            self._set_def_bound(phi, self._join(lhs, rhs))\n\n    def _visit_if(", "            self._set_def_bound(phi, rhs)\n\n    def _visit_if(", 'C14.D1'),
    Mutant('return-format-overwritten', ANA, "            self._return_fmt = self._join(self._return_fmt, fmt)", "            self._return_fmt = fmt", 'C14.D1'),
    Mutant('exact-walk-wrong-count', ANA, "            self._unroll(self.def_use.phis[stmt], iterate, n)", "            self._unroll(self.def_use.phis[stmt], iterate, 1)", 'C14.D1'),
    # X1
    Mutant('join-returns-the-smaller', ANA, "                if af1 <= af2:\n                    return s2", "                if af1 <= af2:\n                    return s1", 'C14.X1'),
    Mutant('set-joins-into-any-format', ANA, "            return fmt if _all_representable_in(vals, fmt) else REAL_FORMAT", "            return fmt", 'C14.X1', count=2, nth=0),
    Mutant('set-join-is-intersection', ANA, "            return SetFormat(a | b)", "            return SetFormat(a & b)", 'C14.X1'),
]
