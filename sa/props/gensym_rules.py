"""
The fresh-name generator (fpy2/utils/gensym.py) and the identifier classes it works on (fpy2/utils/identifier.py).

Every rewrite that introduces a binding (inlining, unrolling, rounding insertion, the iterator eliminations ...) asks
`Gensym` for a name "unique among the names it has generated or reserved".  The rule below decides the structural part
of that guarantee:

  * an identifier class that caches its hash hashes and compares the same fields;
  * a store to one of those fields outside the constructor is followed, before the object is used again, by a reset of
    the cached hash (a membership test after the store would otherwise look in the bucket of the old value and miss an
    equal element: `Gensym([x, x2]).refresh(x)` returned `x2`, F37);
  * `refresh` returns only a candidate whose membership test in the reserved set failed, records it before returning it,
    and advances the counter on every retry; `fresh` goes through `refresh`; `reserve` adds to the set `refresh` tests.
"""
from __future__ import annotations

import ast

from ..core import Ctx
from ..facts import ShapeError, call_name, norm, walk_no_nested

IDENT = 'fpy2/utils/identifier.py'
GENSYM = 'fpy2/utils/gensym.py'


def identifier_spelling_rule(ctx: Ctx):
    """Two names the programmer spells differently are two identifiers.  `NamedId` keeps a name as (base, count), compares
    and hashes those, and prints `base + str(count)`; so the split of a spelling into base and count must be undone by
    that print.  The pattern `_split_id` matches with is read from the source as a regular expression (a table, like
    the literal patterns of C06) and applied to every name made of a short stem and a digit run of up to four digits
    over {0, 1, 9}, leading zeros included: the parts it yields must spell the name again.  (x01 used to split into
    (x, 1), which is x1: a conditionally bound local x01 and a captured x1 were one variable to the syntax check.)"""
    import re
    from itertools import product
    fn = ctx.fn(IDENT, '_split_id')
    pats = [k.args[0].value for k in ast.walk(fn) if isinstance(k, ast.Call) and call_name(k) in ('re.match', 're.fullmatch') and k.args
            and isinstance(k.args[0], ast.Constant) and isinstance(k.args[0].value, str)]
    rets = [norm(r.value) for r in walk_no_nested(fn) if isinstance(r, ast.Return)]
    shape = len(pats) == 1 and sorted(rets) == sorted(['(name, None)', '(base, int(count))']) and 'base, count = m.groups()' in norm(fn, 2000)
    if not shape:
        raise ShapeError(f'_split_id: pattern / returns not read ({pats}, {rets})')
    rx = re.compile(pats[0])
    anchored = any(call_name(k) == 're.fullmatch' for k in ast.walk(fn) if isinstance(k, ast.Call)) or pats[0].endswith('$')
    st = ctx.fn(IDENT, 'NamedId.__str__')
    t = norm(st, 2000)
    printed = "return f'{self.base}{self.count}'" in t and 'if self.count is None: return self.base' in t.replace('\n', ' ')
    ctx.check(printed, IDENT, st, 'NamedId.__str__', 'a name prints as its base followed by its count', 'changed')
    n = 0
    bad = None
    for stem in ('x', 'x_', 'ab', ''):
        for k in range(0, 5):
            for digits in product('019', repeat=k):
                s = stem + ''.join(digits)
                if not s:
                    continue
                m = rx.match(s)
                base, count = (s, None) if not m else (m.groups()[0], int(m.groups()[1]))
                n += 1
                again = base if count is None else f'{base}{count}'
                if again != s and bad is None:
                    bad = f'`{s}` splits into ({base!r}, {count}), which is the name `{again}`'
    ctx.check(bad is None and anchored, IDENT, fn, '_split_id', f'the split of a spelling into base and count is undone by printing it ({n} spellings)',
              (bad or 'pattern not anchored at the end') + ': two different names of the program are one identifier')
    init = ctx.fn(IDENT, 'NamedId.__init__')
    # the arm taken when a count is given explicitly consults the split and can refuse
    guards = []
    for s in walk_no_nested(init):
        if isinstance(s, ast.If) and norm(s.test) in ('count is None', 'count is not None'):
            arm = s.orelse if norm(s.test) == 'count is None' else s.body
            sub = ast.Module(body=arm, type_ignores=[])
            if any(isinstance(k, ast.Call) and call_name(k) == '_split_id' for k in ast.walk(sub)) and any(isinstance(x, ast.Raise) for x in ast.walk(sub)):
                guards.append(s)
    ctx.check(len(guards) >= 1, IDENT, init, 'NamedId.__init__', 'an explicit (base, count) is validated against the split and refused otherwise', 'no validation of an explicit base against _split_id')


def _self_fields(node: ast.AST) -> set[str]:
    return {a.attr for a in ast.walk(node) if isinstance(a, ast.Attribute) and isinstance(a.value, ast.Name) and a.value.id == 'self'}


def _cached_hash_classes(ctx: Ctx) -> dict[str, tuple[str, set[str]]]:
    """class name -> (cache field, fields the hash is computed from), for classes whose `__hash__` caches its result"""
    out = {}
    for cname, c in ctx.repo.classes(IDENT):
        h = next((f for f in c.body if isinstance(f, ast.FunctionDef) and f.name == '__hash__'), None)
        if h is None:
            continue
        stores = [t for s in ast.walk(h) if isinstance(s, ast.Assign) for t in s.targets
                  if isinstance(t, ast.Attribute) and isinstance(t.value, ast.Name) and t.value.id == 'self']
        if len(stores) != 1:
            continue
        cache = stores[0].attr
        fields = set()
        for k in ast.walk(h):
            if isinstance(k, ast.Call) and call_name(k) == 'hash':
                fields |= _self_fields(k)
        out[cname] = (cache, fields - {cache})
    return out


def fresh_names_rule(ctx: Ctx):
    classes = _cached_hash_classes(ctx)
    if not classes:
        raise ShapeError(f'{IDENT}: no identifier class with a cached hash found')
    hashed: dict[str, str] = {}       # field -> cache field
    for cname, (cache, fields) in sorted(classes.items()):
        c = ctx.repo.cls(IDENT, cname)
        eq = next((f for f in c.body if isinstance(f, ast.FunctionDef) and f.name == '__eq__'), None)
        eq_fields = _self_fields(eq) if eq is not None else set()
        ctx.check(eq is not None and fields <= eq_fields and bool(fields), IDENT, c, cname, 'a cached hash is computed only from fields equality compares',
                  f'hash reads {sorted(fields)}, equality reads {sorted(eq_fields)}')
        init = next((f for f in c.body if isinstance(f, ast.FunctionDef) and f.name == '__init__'), None)
        ok = init is not None and any(isinstance(s, ast.Assign) and norm(s) == f'self.{cache} = None' for s in init.body)
        ctx.check(ok, IDENT, init or c, f'{cname}.__init__', 'the cached hash starts out empty', 'constructor does not reset the cache')
        for f in fields:
            hashed[f] = cache

    # every store to a hashed field, anywhere in the package, outside the constructors of the identifier classes
    n_stores = 0
    for rel, m in sorted(ctx.repo.modules.items()):
        if not any(isinstance(a, ast.Attribute) and isinstance(a.ctx, ast.Store) and a.attr in hashed for a in ast.walk(m.tree)):
            continue
        for qual, fn in ctx.repo.functions(rel):
            if rel == IDENT and qual.endswith('.__init__'):
                continue
            for blk in _blocks(fn):
                for i, s in enumerate(blk):
                    if not (isinstance(s, ast.Assign) and len(s.targets) == 1 and isinstance(s.targets[0], ast.Attribute)
                            and s.targets[0].attr in hashed):
                        continue
                    recv = norm(s.targets[0].value)
                    if not _may_be_identifier(ctx, rel, fn, s.targets[0].value):
                        continue
                    n_stores += 1
                    cache = hashed[s.targets[0].attr]
                    # (a reset just ahead of the store serves as well: nothing hashes the object in between)
                    ok = i > 0 and norm(blk[i - 1]) == f'{recv}.{cache} = None'
                    for later in blk[i + 1:]:
                        if norm(later) == f'{recv}.{cache} = None':
                            ok = True
                            break
                        if isinstance(later, ast.Assign) and len(later.targets) == 1 and isinstance(later.targets[0], ast.Attribute) \
                                and norm(later.targets[0].value) == recv and later.targets[0].attr in hashed:
                            continue        # another hashed field of the same object, the reset may follow both
                        break
                    ctx.check(ok, rel, s, qual, 'a store to a hashed field of an identifier is followed by a reset of its cached hash',
                              f'`{norm(s)}` leaves `{recv}.{cache}` holding the hash of the old value: the next set lookup misses an equal element')
    ctx.note(f'{n_stores} stores to hashed identifier fields outside the constructors')

    # the generator
    refresh = ctx.fn(GENSYM, 'Gensym.refresh')
    loops = [s for s in refresh.body if isinstance(s, ast.While)]
    rets = [s for s in refresh.body if isinstance(s, ast.Return)]
    if len(loops) != 1 or len(rets) != 1 or not isinstance(rets[0].value, ast.Name):
        raise ShapeError('Gensym.refresh: retry loop / single return of a name not found')
    w, r = loops[0], rets[0]
    name = rets[0].value.id
    t = w.test
    ok = isinstance(t, ast.Compare) and len(t.ops) == 1 and isinstance(t.ops[0], ast.In) and norm(t.left) == name and norm(t.comparators[0]) == 'self._idents' \
        and not w.orelse and not any(isinstance(x, ast.Break) for x in ast.walk(w))
    ctx.check(ok, GENSYM, w, 'Gensym.refresh', 'the returned name left the retry loop only because it is not among the held names', f'loop test `{norm(t)}`')
    body = [norm(s) for s in w.body]
    ok = any(b in ('self._counter += 1', 'self._counter = self._counter + 1') for b in body) and any(b.startswith(f'{name}.count = self._counter') for b in body)
    ctx.check(ok, GENSYM, w, 'Gensym.refresh', 'each retry takes the next counter value', f'loop body {body}')
    after = [norm(s) for s in refresh.body[refresh.body.index(w) + 1: refresh.body.index(r)]]
    ctx.check(f'self._idents.add({name})' in after, GENSYM, r, 'Gensym.refresh', 'a handed-out name is held from then on', f'between loop and return: {after}')
    first = refresh.body[0] if not isinstance(refresh.body[0], ast.Expr) else refresh.body[1]
    ok = isinstance(first, ast.Assign) and norm(first) == f'{name} = self._copy_id({name})'
    ctx.check(ok, GENSYM, first, 'Gensym.refresh', 'the caller\'s identifier object is copied, not renamed in place', f'got `{norm(first)}`')
    fresh = ctx.fn(GENSYM, 'Gensym.fresh')
    rr = [s for s in walk_no_nested(fresh) if isinstance(s, ast.Return)]
    ok = len(rr) == 1 and call_name(rr[0].value) == 'self.refresh'
    ctx.check(ok, GENSYM, fresh, 'Gensym.fresh', 'a fresh name goes through the same uniqueness loop', f'returns {[norm(x.value) for x in rr]}')
    reserve = ctx.fn(GENSYM, 'Gensym.reserve')
    ok = any(call_name(k) == 'self._idents.add' for k in ast.walk(reserve) if isinstance(k, ast.Call))
    ctx.check(ok, GENSYM, reserve, 'Gensym.reserve', 'reserved names join the set the uniqueness loop tests', 'reserve does not add to _idents')
    init = ctx.fn(GENSYM, 'Gensym.__init__')
    ok = 'self._idents = set(reserved)' in [norm(s) for s in ast.walk(init) if isinstance(s, ast.Assign)]
    ctx.check(ok, GENSYM, init, 'Gensym.__init__', 'names given at construction are held', 'constructor does not hold `reserved`')


def _blocks(fn: ast.AST):
    for n in ast.walk(fn):
        for f in ('body', 'orelse', 'finalbody'):
            b = getattr(n, f, None)
            if isinstance(b, list) and b and isinstance(b[0], ast.stmt):
                yield b


def _may_be_identifier(ctx: Ctx, rel: str, fn: ast.FunctionDef, recv: ast.AST) -> bool:
    """A store `recv.count = ..` / `recv.base = ..` concerns an identifier unless `recv` is `self` inside a class that is
    not an identifier class (other classes have fields of the same name)."""
    idents = {c for c, _ in ctx.repo.classes(IDENT)}
    if isinstance(recv, ast.Name) and recv.id == 'self':
        return rel == IDENT
    if not isinstance(recv, ast.Name):
        return False
    # declared type of a parameter / annotated local
    for a in fn.args.posonlyargs + fn.args.args + fn.args.kwonlyargs:
        if a.arg == recv.id and a.annotation is not None and {n.id for n in ast.walk(a.annotation) if isinstance(n, ast.Name)} & idents:
            return True
    for s in ast.walk(fn):
        if isinstance(s, ast.AnnAssign) and isinstance(s.target, ast.Name) and s.target.id == recv.id \
                and {n.id for n in ast.walk(s.annotation) if isinstance(n, ast.Name)} & idents:
            return True
        # built by an identifier constructor, or by a sibling method that returns one
        if isinstance(s, ast.Assign) and any(isinstance(t, ast.Name) and t.id == recv.id for t in s.targets) and isinstance(s.value, ast.Call):
            cn = call_name(s.value) or ''
            if cn in idents:
                return True
            if cn.startswith('self.'):
                for qual, g in ctx.repo.functions(rel):
                    if qual.endswith('.' + cn[5:]) and any(isinstance(r, ast.Return) and isinstance(r.value, ast.Call) and call_name(r.value) in idents
                                                           for r in ast.walk(g)):
                        return True
    return False
