"""
Shared rule: a function that *rebuilds* a format or context from an existing
one ("the same, with the digit position moved" / "with the bound removed")
must hand every carried-over parameter to the constructor under its own name.

For each constructor call inside the listed functions whose callee resolves to
a class of the repository, every argument that is computed from attributes of
the source object (`fmt.enable_nan`, `fmt.nmin + k`, `shift(fmt.pos_maxval,
k)`) is matched against the constructor parameter it is bound to, by position
or keyword.  If the constructor has a parameter named like the attribute and
the argument is bound to a *different* parameter, two arguments were swapped
or shifted -- the classic argument-selection defect, which type checking
cannot see when both parameters are `bool` or `int`.

Dict literals that become `**kwargs` of such a constructor are read the same
way (`{'rm': ctx.rm, ...}`).
"""

from __future__ import annotations

import ast

from ..core import Ctx
from ..facts import ShapeError, call_name, calls_in, norm, param_names


def _ctor_params(ctx: Ctx, rel: str, name: str) -> list[str] | None:
    res = ctx.repo.resolve(rel, name)
    if res is None:
        return None
    node = ctx.repo.defnode(res)
    if not isinstance(node, ast.ClassDef):
        return None
    init = ctx.repo.methods(res[0], res[1]).get('__init__')
    if init is None:
        return None
    f = init[2]
    return [a.arg for a in f.args.args[1:]] + [a.arg for a in f.args.kwonlyargs]


def _source_attrs(e: ast.AST, source: str) -> set[str]:
    return {n.attr for n in ast.walk(e) if isinstance(n, ast.Attribute) and isinstance(n.value, ast.Name) and n.value.id == source}


def name_agreement(ctx: Ctx, rel: str, qual: str, source: str | None = None) -> int:
    """Checks every repo-class constructor call in `qual`; returns the number of arguments checked."""
    fn = ctx.fn(rel, qual)
    src = source or [p for p in param_names(fn) if p != 'self'][0]
    checked = 0
    for k in calls_in(fn):
        cn = call_name(k)
        if cn is None or '.' in cn:
            continue
        params = _ctor_params(ctx, rel, cn)
        if params is None:
            continue
        positional = [p for p in params]
        bound: list[tuple[str, ast.AST]] = []
        for i, a in enumerate(k.args):
            if isinstance(a, ast.Starred):
                break
            if i < len(positional):
                bound.append((positional[i], a))
        for kw in k.keywords:
            if kw.arg is not None:
                bound.append((kw.arg, kw.value))
        for p, a in bound:
            attrs = _source_attrs(a, src)
            named = attrs & set(params)
            if not named:
                continue
            checked += 1
            ctx.check(p in attrs, rel, a, qual, f'{cn}(... {p}= {norm(a)} ...)',
                      f'the value of `{src}.{sorted(named)[0]}` is passed as `{p}`, while {cn} has a parameter `{sorted(named)[0]}`: two carried-over parameters are swapped or shifted')
    # dict literals handed on as keyword arguments
    for d in ast.walk(fn):
        if isinstance(d, ast.Dict):
            for key, val in zip(d.keys, d.values):
                if isinstance(key, ast.Constant) and isinstance(key.value, str):
                    attrs = _source_attrs(val, src)
                    if not attrs:
                        continue
                    checked += 1
                    ctx.check(key.value in attrs, rel, val, qual, f'{{... {key.value!r}: {norm(val)} ...}}',
                              f'keyword `{key.value}` is given `{norm(val)}`: the rebuilt object would carry another parameter\'s value')
    if checked == 0:
        raise ShapeError(f'{qual}: no carried-over constructor argument found')
    return checked
