"""
Shared rule: an analysis result handed to a rewriter together with a function was computed from that function.

Most rewriters are built as `_Rewriter(func, def_use, ...)`: the second argument is the define-use (or partial-evaluation,
type ...) analysis *of the first*.  The rewriter seeds its fresh-name generator from the analysis' names and resolves
the function's reads through it, so an analysis of another function gives fresh names that collide with this function's
own (and definitions that are not in it).  Nothing in the types says which function an analysis belongs to.

For every call of a repository class whose constructor takes a `FuncDef` parameter and one or more parameters annotated
with an analysis type, the rule looks up where the analysis argument comes from in the enclosing function:

  * bound from `<Analysis>.analyze(E, ...)` (or `.check` / `.infer`): `E` must be the expression passed as the function;
  * the enclosing function's own parameter, defaulted by `if d is None: d = <Analysis>.analyze(E)`: same requirement on
    `E`, and the parameter itself is the caller's contract for the enclosing function's function parameter -- so the
    function argument has to be that parameter and not, say, a loop variable ranging over other functions.
"""
from __future__ import annotations

import ast

from ..core import Ctx
from ..facts import ShapeError, call_name, calls_in, norm, walk_no_nested

_PRODUCERS = ('analyze', 'check', 'infer')


def _is_analysis_ann(a: ast.AST | None) -> bool:
    if a is None:
        return False
    names = {n.id for n in ast.walk(a) if isinstance(n, ast.Name)} | {n.attr for n in ast.walk(a) if isinstance(n, ast.Attribute)}
    return any(x.endswith('Analysis') or x.endswith('EvalInfo') for x in names)


def _is_funcdef_ann(a: ast.AST | None) -> bool:
    # `FuncDef` or `FuncDef | None`, not a container of them
    if isinstance(a, ast.BinOp) and isinstance(a.op, ast.BitOr):
        return _is_funcdef_ann(a.left) or _is_funcdef_ann(a.right)
    return isinstance(a, ast.Name) and a.id == 'FuncDef'


def _ctor(ctx: Ctx, rel: str, name: str):
    res = ctx.repo.resolve(rel, name)
    if res is None:
        return None
    node = ctx.repo.defnode(res)
    if not isinstance(node, ast.ClassDef):
        return None
    init = ctx.repo.methods(res[0], res[1]).get('__init__')
    return init[2] if init else None


def analysis_pairing(prefixes: tuple[str, ...], floor_sites: int):
    def rule(ctx: Ctx):
        sites = 0
        for rel in sorted(ctx.repo.modules):
            if not rel.startswith(prefixes):
                continue
            for q, fn in ctx.repo.functions(rel):
                own_params = {a.arg for a in fn.args.posonlyargs + fn.args.args + fn.args.kwonlyargs}
                for k in [n for n in walk_no_nested(fn) if isinstance(n, ast.Call)]:
                    cn = call_name(k)
                    if cn is None or '.' in cn:
                        continue
                    init = _ctor(ctx, rel, cn)
                    if init is None:
                        continue
                    params = init.args.args[1:]
                    bound: dict[str, ast.AST] = {}
                    for p, a in zip(params, k.args):
                        if not isinstance(a, ast.Starred):
                            bound[p.arg] = a
                    for kw in k.keywords:
                        if kw.arg:
                            bound[kw.arg] = kw.value
                    fpar = [p for p in params + init.args.kwonlyargs if _is_funcdef_ann(p.annotation)]
                    apar = [p for p in params + init.args.kwonlyargs if _is_analysis_ann(p.annotation)]
                    if len(fpar) != 1 or not apar or fpar[0].arg not in bound:
                        continue
                    farg = bound[fpar[0].arg]
                    analysis_params = {a.arg for a in fn.args.posonlyargs + fn.args.args + fn.args.kwonlyargs if _is_analysis_ann(a.annotation)}
                    for p in apar:
                        # an analysis computed in the argument itself
                        for d in ast.walk(bound.get(p.arg) or ast.Constant(None)):
                            if isinstance(d, ast.Call) and isinstance(d.func, ast.Attribute) and d.func.attr in _PRODUCERS and d.args:
                                sites += 1
                                ctx.check(norm(d.args[0]) == norm(farg), rel, k, q, f'{cn}(..): the {p.arg} handed along with a function is the analysis of that function',
                                          f'`{norm(farg)}` is rewritten with `{norm(d)}`')
                    for p, a in [(p, n) for p in apar if bound.get(p.arg) is not None
                                 for n in ast.walk(bound[p.arg]) if isinstance(n, ast.Name) and isinstance(n.ctx, ast.Load)]:
                        defs = [s.value for s in walk_no_nested(fn) if isinstance(s, ast.Assign) and any(isinstance(t, ast.Name) and t.id == a.id for t in s.targets)]
                        produced = [d for d in defs if isinstance(d, ast.Call) and isinstance(d.func, ast.Attribute) and d.func.attr in _PRODUCERS and d.args]
                        if len(produced) != len(defs) or (not defs and a.id not in analysis_params):
                            continue        # comes from somewhere this rule does not read
                        sites += 1
                        of = sorted({norm(d.args[0]) for d in produced})
                        good = all(x == norm(farg) for x in of)
                        if a.id in own_params:
                            # the parameter is the analysis of the enclosing function's own function parameter
                            good = good and isinstance(farg, ast.Name) and farg.id in own_params
                        ctx.check(good, rel, k, q, f'{cn}(..): the {p.arg} handed along with a function is the analysis of that function',
                                  f'`{norm(farg)}` is rewritten with `{a.id}`, which is the analysis of {of or ["the caller-supplied function"]}: fresh names are chosen against another function\'s names')
        ctx.note(f'{sites} (function, analysis) construction sites')
        if sites < floor_sites:
            raise ShapeError(f'only {sites} (function, analysis) construction sites found under {prefixes}, expected at least {floor_sites}')
    return rule
