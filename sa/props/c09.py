"""
C09 — Inlining, specialisation and hoisting preserve results.

Decided: FuncInline refuses (never hoists out of) conditionally or repeatedly
evaluated positions; the callee context rule; argument binding order, callee
renaming and free-variable conflicts; refusals precede index consumption;
LiftContext lifts only statically known contexts and binds the evaluated
context; FreeVarElim inlines only values with a literal form; Monomorphize
only pins the context / annotations.
"""

from __future__ import annotations

import ast

from ..cfg import CFG, describe_path, find_path
from ..core import Ctx, Rule
from ..facts import ShapeError, call_name, calls_in, dotted, kwarg, norm, walk_no_nested
from ..tables import Inst, Opaque, decide
from .gensym_rules import GENSYM, IDENT, fresh_names_rule
from .hoist_rules import Hoister, hoist_mask_rule
from .pairing_rules import analysis_pairing

INLINE = 'fpy2/transform/func_inline.py'
LIFT = 'fpy2/transform/lift_context.py'
FVE = 'fpy2/transform/free_var_elim.py'
MONO = 'fpy2/transform/monomorphize.py'

INLINE_HOISTER = Hoister(INLINE, '_FuncInline', 'the callee body', refusal_flags=('in_while_cond', 'in_conditional'),
                         mask_methods=('conditional',))


# ----------------------------------------------------------------------
# T1 callee context rule

def t1_callee_context(ctx: Ctx):
    q = '_FuncInline._visit_call'
    fn = ctx.fn(INLINE, q)
    chain = [s for s in walk_no_nested(fn) if isinstance(s, ast.If) and norm(s.test) == 'ast.ctx is not None']
    if len(chain) != 1:
        raise ShapeError('callee-context decision not found in _visit_call')
    c = chain[0]

    def ctxstmt(body):
        ks = [k for k in calls_in(ast.Module(body=body, type_ignores=[])) if call_name(k) == 'ContextStmt']
        return ks[0] if len(ks) == 1 else None
    k1 = ctxstmt(c.body)
    # the wrapped value is the declared context -- converted first when it is an FPCore description of one, which a
    # `with` block cannot round under
    wrapped = norm(k1.args[1].args[0]) if k1 is not None and isinstance(k1.args[1], ast.Call) and call_name(k1.args[1]) == 'ForeignVal' and k1.args[1].args else None
    local = {norm(s.targets[0]): s.value for s in c.body if isinstance(s, ast.Assign) and len(s.targets) == 1}
    src = local.get(wrapped) if wrapped else None
    denotes = False
    if isinstance(src, ast.IfExp):
        denotes = norm(src.test) == 'isinstance(ast.ctx, FPCoreContext)' and norm(src.body) == 'ast.ctx.to_context()' and norm(src.orelse) == 'ast.ctx'
    good = k1 is not None and norm(k1.args[0]) == 'UnderscoreId()' and denotes and norm(k1.args[2]) == 'ast.body'
    ctx.check(good, INLINE, c, q, 'callee declares a context -> its body is wrapped in that context (an FPCore description converted to the context it denotes)',
              f'got {norm(k1) if k1 is not None else None} with {wrapped} = {norm(src) if src is not None else "?"}: inlining a callee declared with FPCoreContext(precision=\'binary32\') '
              'yields `with <FPCoreContext>:`, and the inlined program raises TypeError where the original returns')
    inner = c.orelse[0] if c.orelse and isinstance(c.orelse[0], ast.If) else None
    good = inner is not None and norm(inner.test) == 'ctx.is_ctx_expr'
    k2 = ctxstmt(inner.body) if inner is not None else None
    good = good and k2 is not None and norm(k2.args[1]).startswith('ForeignVal(REAL') and norm(k2.args[2]) == 'ast.body'
    ctx.check(good, INLINE, inner or c, q, 'call inside a `with` header -> body wrapped in REAL (headers are evaluated exactly)',
              f'got {norm(k2) if k2 is not None else None}')
    els = inner.orelse if inner is not None else []
    good = len(els) == 1 and norm(els[0]) == 'ctx.stmts.extend(ast.body.stmts)'
    ctx.check(good, INLINE, inner or c, q, 'otherwise -> spliced under the ambient (call-site) context, not the definition\'s', f'got {[norm(s) for s in els]}')
    vc = ctx.fn(INLINE, '_FuncInline._visit_context')
    ks = [k for k in calls_in(vc) if call_name(k) == 'self._visit_expr']
    good = len(ks) == 1 and norm(ks[0].args[0]) == 'stmt.ctx' and norm(ks[0].args[1]) in ('_Ctx(ctx.stmts, True)', '_Ctx(ctx.stmts, is_ctx_expr=True)')
    ctx.check(good, INLINE, vc, '_FuncInline._visit_context', 'the `with` header is visited with is_ctx_expr=True', f'got {[norm(k) for k in ks]}')
    # the arguments of a call inlined from a `with` header are evaluated exactly too: the binding `name = arg` that is
    # emitted ahead of the statement must sit under REAL whenever the call site is a header and the argument computes
    # anything (a plain variable read rounds nothing)
    from ..symenv import execute, show
    ex = execute(fn, {}, {}, loop_passes=1)
    assigns = [e for e in ex.calls('Assign') if len(e.args) >= 3 and 'self._visit_expr(' in show(e.args[2]) and 'e.args' in show(e.args[2])]
    if not assigns:
        raise ShapeError('_visit_call: argument binding not found')
    wraps = [e for e in ex.calls('ContextStmt') if any(g == ('attr', ('sym', 'ctx'), 'is_ctx_expr') or 'ctx.is_ctx_expr' in show(g) for g in e.guards)
             and len(e.args) >= 3 and show(e.args[1]).startswith('ForeignVal(REAL') and 'Assign(' in show(e.args[2])]
    base = set().union(*[set(a.guards) for a in assigns])

    def _exemption(g) -> bool:
        return g[0] == 'not' and g[1][0] == 'call' and g[1][1] == 'isinstance' and show(g[1][2][1]) == 'Var' \
            and 'self._visit_expr(' in show(g[1][2][0])
    exempt_ok = all(all(show(g) == 'ctx.is_ctx_expr' or _exemption(g) for g in _flatten_and([g for g in w.guards if g not in base])) for w in wraps)
    def _emits_wrap(a) -> bool:
        if a[0] == 'ite':
            return _emits_wrap(a[2]) and ('ctx.is_ctx_expr' in show(a[1])) or (_emits_wrap(a[2]) and _emits_wrap(a[3]))
        return a[0] == 'call' and a[1] == 'ContextStmt' and show(a).startswith('ContextStmt(UnderscoreId(), ForeignVal(REAL') and 'Assign(' in show(a[2][2])
    emitted = any(e.args and _emits_wrap(e.args[0]) for e in ex.calls('ctx.stmts.append'))
    ctx.check(bool(wraps) and exempt_ok and emitted, INLINE, fn, q, 'in a `with` header, a computed argument is bound under REAL (only a plain variable read is exempt)',
              'argument bindings are emitted under the ambient context: `with fp.MPFixedContext(g(0 - k))` evaluates `0 - k` exactly, the inlined `t = 0 - k` does not')


def _flatten_and(guards) -> list:
    out = []
    for g in guards:
        if isinstance(g, tuple) and g and g[0] == 'and':
            out += list(g[1])
        else:
            out.append(g)
    return out


# ----------------------------------------------------------------------
# P1 argument binding, renaming, conflicts

def p1_binding_and_renaming(ctx: Ctx):
    q = '_FuncInline._visit_call'
    fn = ctx.fn(INLINE, q)
    body = fn.body
    # position (index in the function body) of the key steps
    def first(pred):
        for i, s in enumerate(body):
            if pred(s):
                return i
        return None
    i_rename = first(lambda s: isinstance(s, ast.Assign) and norm(s.value) == 'RenameTarget.apply(ast, subst)')
    i_bind = first(lambda s: isinstance(s, ast.For) and norm(s.iter) == 'zip(e.args, ast.args)')
    i_ret = first(lambda s: isinstance(s, ast.Expr) and norm(s.value) == '_replace_ret(ast.body, t)')
    i_splice = first(lambda s: isinstance(s, ast.If) and norm(s.test) == 'ast.ctx is not None')
    good = None not in (i_rename, i_bind, i_ret, i_splice) and i_rename < i_bind < i_ret < i_splice  # type: ignore
    ctx.check(good, INLINE, fn, q, 'order: rename callee locals, bind arguments, redirect the return, splice the body',
              f'positions rename={i_rename} bind={i_bind} return={i_ret} splice={i_splice}')
    if i_bind is not None:
        loop = body[i_bind]
        b = [norm(s) for s in loop.body]  # type: ignore
        # the binding statement reaches the output list as it is, or wrapped in a scope of its own
        mk = [k for k in calls_in(loop) if call_name(k) == 'Assign' and [norm(a) for a in k.args] == ['name', 'param.type', 'arg', 'e.loc']]
        carriers: set[str] = set()
        defs = [(s.targets[0] if isinstance(s, ast.Assign) else s.target, s.value) for s in ast.walk(loop)
                if (isinstance(s, ast.Assign) and len(s.targets) == 1) or (isinstance(s, ast.AnnAssign) and s.value is not None)]
        for _ in range(len(defs) + 1):
            for tgt, val in defs:
                if isinstance(tgt, ast.Name) and any(x in mk or (isinstance(x, ast.Name) and x.id in carriers) for x in ast.walk(val)):
                    carriers.add(tgt.id)
        apps = [k for k in calls_in(loop) if call_name(k) == 'ctx.stmts.append' and k.args
                and (any(x in mk for x in ast.walk(k.args[0])) or (isinstance(k.args[0], ast.Name) and k.args[0].id in carriers))]
        nm = next((val for tgt, val in defs if isinstance(tgt, ast.Name) and tgt.id == 'name'), None)
        renamed = nm is not None and (norm(nm) == 'subst.get(param.name, param.name)' or (
            isinstance(nm, ast.IfExp) and norm(nm.test) == 'isinstance(param.name, NamedId)' and norm(nm.body) == 'subst.get(param.name, param.name)' and norm(nm.orelse) == 'UnderscoreId()'))
        good = b[0] == 'arg = self._visit_expr(arg, ctx)' and renamed and len(mk) == 1 and len(apps) == 1
        ctx.check(good, INLINE, loop, q, 'each argument is evaluated in order and bound to the (renamed) parameter before the body', f'loop body: {b}')
        # ... every one of them: an argument whose parameter is `_` is still an expression the call evaluates
        parents_l = {c: p for p in ast.walk(loop) for c in ast.iter_child_nodes(p)}
        skipped = None
        for k in apps:
            node = k
            while node in parents_l and node is not loop:
                node = parents_l[node]
                if isinstance(node, ast.If) and 'param.name' in norm(node.test):
                    skipped = node
        ctx.check(skipped is None, INLINE, skipped or loop, q, 'the binding is emitted for every parameter, `_` included',
                  'under `if isinstance(param.name, NamedId)`: the argument of a parameter named `_` is dropped, and with it whatever its evaluation stores')
    # every non-free definition of the callee is renamed with a fresh name
    rn = [s for s in walk_no_nested(fn) if isinstance(s, ast.For) and norm(s.iter) == 'reachability.defs']
    good = False
    if len(rn) == 1:
        t = norm(rn[0], 4000)
        good = 'isinstance(d, AssignDef) and (not d.is_free)' in t and 'subst[d.name] = self.gensym.refresh(d.name)' in t
    ctx.check(good, INLINE, fn, q, 'every non-free callee definition gets a fresh name (no capture of caller variables)', 'renaming loop changed')
    init = ctx.fn(INLINE, '_FuncInline.__init__')
    ctx.check('self.gensym = Gensym(self.def_use.names())' in norm(init, 4000), INLINE, init, '_FuncInline.__init__', 'fresh names avoid every name of the caller', 'generator seeding changed')
    ctx.check('self.gensym.reserve(*def_use.names())' in norm(fn, 40000), INLINE, fn, q, 'names of a recursively inlined callee are reserved too', 'reservation dropped')
    # free variables: a clash between caller and callee environments raises
    clash = [s for s in ast.walk(fn) if isinstance(s, ast.If) and 'e.fn.env.get(str(name))' in norm(s.test) and 'val' in {x.id for x in ast.walk(s.test) if isinstance(x, ast.Name)}]
    # (or kept apart: the callee's value is carried under a fresh name, which the spliced body is renamed to and under which
    # the value enters the caller's environment -- never two values under one name)
    def handled(i: ast.If) -> bool:
        first = [s_ for s_ in i.body if not (isinstance(s_, ast.Expr) and isinstance(s_.value, ast.Constant))]
        if first and isinstance(first[0], ast.Raise):
            return True
        moves = [s_ for s_ in first if isinstance(s_, ast.Assign) and isinstance(s_.targets[0], ast.Subscript) and norm(s_.targets[0].slice) == 'name'
                 and isinstance(s_.value, ast.Call) and (call_name(s_.value) or '').endswith('gensym.refresh')]
        if not moves:
            return False
        table = norm(moves[0].targets[0].value)
        renamed = any(call_name(k) == 'RenameTarget.apply' and len(k.args) == 2 and norm(k.args[1]) == table for k in calls_in(fn))
        carried = any(isinstance(s_, ast.Assign) and isinstance(s_.targets[0], ast.Subscript) and norm(s_.targets[0].slice) == 'str(new)' and 'str(old)' in norm(s_.value) for s_ in ast.walk(fn))
        return renamed and carried
    ctx.check(len(clash) == 1 and handled(clash[0]), INLINE, clash[0] if clash else fn, q, 'a callee value captured under a name that already holds another value is refused, or carried under a fresh name',
              'the two values are merged under one name: the spliced body of the second callee reads the first callee\'s value')
    # the return value is bound to a fresh temporary and that temporary replaces the call
    rets = [s for s in walk_no_nested(fn) if isinstance(s, ast.Return)]
    ctx.check("t = self.gensym.fresh('t')" in norm(fn, 40000) and norm(rets[-1].value) == 'Var(t, e.loc)', INLINE, fn, q,
              'the call is replaced by the fresh temporary holding the callee result', 'result plumbing changed')
    rr = ctx.fn(INLINE, '_replace_ret')
    t = norm(rr, 4000)
    ctx.check('new_stmt = Assign(new_var, None, last_stmt.expr, last_stmt.loc)' in t and 'block.stmts[-1] = new_stmt' in t and '_replace_ret(last_stmt.body, new_var)' in t,
              INLINE, rr, '_replace_ret', 'trailing return (possibly under `with`) becomes the assignment of the result', 'changed')
    rf = ctx.fn(INLINE, '_refuses')
    t = norm(rf, 4000)
    ctx.check('n_rets = len(Reachability.analyze(e.fn.ast).ret_stmts)' in t and 'if n_rets != 1:' in t, INLINE, rf, '_refuses',
              'a callee without exactly one (trailing) return is refused', 'multi-return refusal changed')


# ----------------------------------------------------------------------
# X1 the renaming applied to a callee reaches every place the language binds or reads a name; P4 captured names

RENAME = 'fpy2/transform/rename_target.py'


def x1_rename_everywhere(ctx: Ctx):
    """The callee's locals are renamed so that its body can sit among the caller's statements.  A binding position the
    renamer does not know keeps the callee's spelling and rebinds the caller's variable of that name.  The positions
    are read off the node classes: every field of a statement or expression class whose declared type is an identifier
    or a binding pattern.  For each, `_RenameTargetInstance` must override that node's visitor and pass the field
    through `_visit_binding` or `self.rename`."""
    from ..lang import lang
    L = lang(ctx.repo)
    cls = ctx.repo.cls(RENAME, '_RenameTargetInstance')
    own = {f.name: f for f in cls.body if isinstance(f, ast.FunctionDef)}
    n = 0
    for base in ('Stmt', 'Expr'):
        for c in L.concrete(base):
            node = L.classes[c]
            fields = [s.target.id for s in node.body if isinstance(s, ast.AnnAssign) and isinstance(s.target, ast.Name)
                      and {x.id for x in ast.walk(s.annotation) if isinstance(x, ast.Name)} & {'Id', 'NamedId', 'TupleBinding'}]
            for fld in fields:
                n += 1
                meth = L.visit_method(c)
                f = own.get(meth or '')
                ok = False
                if f is not None:
                    for k in calls_in(f):
                        cn = call_name(k) or ''
                        if cn in ('self._visit_binding', 'self.rename.get') and k.args:
                            a = k.args[0]
                            direct = any(isinstance(x, ast.Attribute) and x.attr == fld for x in ast.walk(a))
                            # `[self._visit_binding(target, ctx) for target in e.targets]`
                            via_loop = isinstance(a, ast.Name) and any(
                                isinstance(g.target, ast.Name) and g.target.id == a.id and any(isinstance(x, ast.Attribute) and x.attr == fld for x in ast.walk(g.iter))
                                for comp in ast.walk(f) if isinstance(comp, (ast.ListComp, ast.GeneratorExp)) for g in comp.generators)
                            ok = ok or direct or via_loop
                ctx.check(ok, RENAME, f or cls, f'_RenameTargetInstance.{meth}', f'{c}.{fld} is renamed',
                          f'{meth} is {"not overridden" if f is None else "overridden without renaming this field"}: the name bound by a spliced `{c}` keeps the callee\'s spelling and rebinds a caller variable of that name')
    if n < 6:
        raise ShapeError(f'only {n} identifier-typed fields found on statement / expression classes')
    fv = own.get('_visit_function')
    t = norm(fv, 4000) if fv is not None else ''
    ctx.check('self.rename.get(arg.name, arg.name)' in t and 'self.rename.get(arg, arg) for arg in func.free_vars' in t, RENAME, fv or cls, '_RenameTargetInstance._visit_function',
              'parameters and the captured-name set follow the renaming', 'changed')


def p4_captured_names(ctx: Ctx):
    """A name the callee reads from its defining environment keeps its spelling in the spliced body.  It must not become
    a read of something else: (a) no renamed local and no temporary of the inliner may take that spelling -- the names
    the callee captures are reserved in the generator before any name is minted for the call, on every path (recursive
    or one-level); (b) a caller that binds a variable of that spelling itself is refused."""
    q = '_FuncInline._visit_call'
    fn = ctx.fn(INLINE, q)
    cfg = CFG(fn)

    def has(node, pred) -> bool:
        return node.ast is not None and node.kind in ('stmt', 'return', 'test', 'iter') and any(pred(k) for k in ast.walk(node.ast) if isinstance(k, ast.Call))
    reserve = [x for x in cfg.nodes if has(x, lambda k: call_name(k) == 'self.gensym.reserve' and any(isinstance(a, ast.Starred) and norm(a.value) == 'ast.free_vars' for a in k.args))]
    mint = [x for x in cfg.nodes if has(x, lambda k: call_name(k) in ('self.gensym.refresh', 'self.gensym.fresh'))]
    if not mint:
        raise ShapeError('_visit_call: no names minted')
    ok = bool(reserve)
    wit = None
    for m in mint:
        p = find_path(cfg, cfg.entry, m, avoid=lambda x: x in reserve)
        if p is not None:
            ok, wit = False, p
    ctx.check(ok, INLINE, (wit[-1].ast if wit else fn), q, 'the names the callee captures are reserved before a name is minted for the call, on every path',
              'a renamed local or the result temporary can take the spelling of a captured name: b(x) = x + t with a global t inlines to `t = (x2 + t)`',
              path=describe_path(wit, INLINE) if wit else None)
    # (b) refusal when the caller binds the name
    loops = [s for s in walk_no_nested(fn) if isinstance(s, ast.For) and norm(s.iter) == 'ast.free_vars']
    ok = False
    for lp in loops:
        for s in lp.body:
            if isinstance(s, ast.If) and any(isinstance(x, ast.Raise) for x in s.body) and 'name in self.bound' in norm(s.test):
                ok = True
    ctx.check(ok, INLINE, loops[0] if loops else fn, q, 'a captured name of the callee that the caller binds itself -> the call is not inlined',
              'no refusal: with a global K, callee(x) = x + K inlined into `K = 3; return callee(x) * K` reads the caller\'s K')
    # (c) the same name captured by caller and callee is merged only when both hold the same value -- and `==` calls
    # 0.0 and -0.0 (and 0, and False) the same.  The test of the guard is read from its source on value pairs.
    import math as _math

    from ..minipy import Interp, Obj
    guard = None
    for lp in loops:
        for s in ast.walk(lp):
            # (the guard of whatever keeps two values apart: a refusal, or the move of the callee's value to a fresh name)
            if isinstance(s, ast.If) and 'e.fn.env.get(str(name))' in norm(s.test) and (
                    any(isinstance(x, ast.Raise) for x in s.body) or any(isinstance(x, ast.Assign) and (call_name(x.value) or '').endswith('gensym.refresh') for x in s.body)):
                guard = s
    if guard is None:
        raise ShapeError('_visit_call: the conflicting-free-variable refusal was not found')
    funcs = {q2: f for q2, f in ctx.repo.functions(INLINE) if '.' not in q2}

    def zero(neg):
        return Obj('Float', s=neg, eq=lambda me, other: isinstance(other, Obj) and other.kind == 'Float')
    pairs = [(0.0, -0.0, True), (-0.0, 0.0, True), (0.0, 0.0, False), (1.5, 1.5, False), (0, 0.0, True), (False, 0, True), ([0.0, 1.0], [-0.0, 1.0], True), ((1.0, 2.0), (1.0, 2.0), False),
             ([1.0], [1.0, 2.0], True), (zero(False), zero(True), True), (zero(True), zero(True), False), ('a', 'a', False), (1.0, 2.0, True)]
    bad = None
    for a_, b_, conflict in pairs:
        it = Interp(funcs, overrides={'math.copysign': _math.copysign})
        got = bool(it.ev(guard.test, {'val': a_, 'e': Obj('Call', fn=Obj('Function', env=Obj('env', get=lambda k, v=b_: v))), 'name': 'K', 'str': str}))
        if got != conflict and conflict and bad is None:
            bad = f'caller K = {a_!r}, callee K = {b_!r}: taken for the same value'
    ctx.check(bad is None, INLINE, guard, q, f'captured values of one name are merged only when they are the same value, sign and kind included ({len(pairs)} pairs)',
              (bad or '') + ': the callee\'s K replaces the caller\'s in the merged environment (copysign(x, K) flips)')
    init = ctx.fn(INLINE, '_FuncInline.__init__')
    t = norm(init, 6000)
    ok = 'self.bound = {d.name for d in def_use.defs if isinstance(d, AssignDef) and (not d.is_free)}' in t
    ctx.check(ok, INLINE, init, '_FuncInline.__init__', 'the caller\'s own bindings = its non-free definitions (arguments, assignments, loop and with targets)', 'changed')


# ----------------------------------------------------------------------
# G1 refusal precedes index consumption

def g1_refusal_before_index(ctx: Ctx):
    q = '_FuncInline._visit_call'
    fn = ctx.fn(INLINE, q)
    body = fn.body
    i_ref = None
    i_idx = None
    for i, s in enumerate(body):
        if isinstance(s, ast.Assign) and call_name(s.value) == '_refuses' and i_ref is None:
            i_ref = i
        if isinstance(s, ast.Assign) and norm(s.value) == 'self.site_idx' and i_idx is None:
            i_idx = i
    good = i_ref is not None and i_idx is not None and i_ref < i_idx
    if good:
        guard = body[i_ref + 1]  # type: ignore
        good = isinstance(guard, ast.If) and norm(guard.test) == 'reason is not None' and isinstance(guard.body[-1], ast.Return)
    ctx.check(good, INLINE, fn, q, 'a refused call returns before an index is taken', f'refusal at {i_ref}, index at {i_idx}')
    rcall = body[i_ref].value if i_ref is not None else None  # type: ignore
    good = rcall is not None and norm(kwarg(rcall, 'in_while_cond') or '') == 'ctx.in_while_cond' and norm(kwarg(rcall, 'in_conditional') or '') == 'ctx.in_conditional'
    ctx.check(good, INLINE, fn, q, 'the refusal sees the position flags of the visiting context', f'got {norm(rcall) if rcall is not None else None}')


# ----------------------------------------------------------------------
# G2 lift / close / pin

def g2_lift_close_pin(ctx: Ctx):
    repo = ctx.repo
    # LiftContext
    q = '_ContextFinder._visit_expr'
    fn = ctx.fn(LIFT, q)
    t = norm(fn, 4000)
    good = 'e in self.eval_info.by_expr' in t and 'isinstance(v, Context)' in t and 'not isinstance(e, Var)' in t and 'not isinstance(e, ForeignVal)' in t
    ctx.check(good, LIFT, fn, q, 'only expressions statically known to be a Context (and not already a name or literal) are lifted', 'lift condition changed')
    q = '_ContextLifter.__init__'
    fn = ctx.fn(LIFT, q)
    binds = [s for s in ast.walk(fn) if isinstance(s, ast.Assign) and isinstance(s.targets[0], ast.Subscript) and dotted(s.targets[0].value) == 'self.name_to_expr']
    good = len(binds) == 1 and 'eval_info.by_expr[e]' in norm(binds[0].value) and call_name(binds[0].value) == 'ForeignVal'
    ctx.check(good, LIFT, binds[0] if binds else fn, q, 'the lifted binding holds the context the expression evaluated to',
              'the lifted binding re-emits the constructor expression: at the top of the body its arguments are evaluated under the '
              'function\'s ambient context, not exactly as in a `with` header')
    ctx.check('gensym = Gensym(eval_info.def_use.names())' in norm(fn, 4000) and "name = gensym.fresh('ctx')" in norm(fn, 4000), LIFT, fn, q, 'lifted names are fresh', 'changed')
    q = '_ContextLifter._visit_function'
    fn = ctx.fn(LIFT, q)
    t = norm(fn, 4000)
    ctx.check('stmts.append(Assign(name, None, expr, expr.loc))' in t and 'stmts.extend(func.body.stmts)' in t, LIFT, fn, q, 'bindings are prepended to the body', 'changed')
    # FreeVarElim
    q = 'inline_literal'
    fn = ctx.fn(FVE, q)
    r = decide(repo, FVE, fn.body, {'isinstance(val, Context)': True})
    ctx.check(r[0] == 'return' and r[1] is None, FVE, r[2] or fn, q, 'a captured Context stays free', f'got {r[1]!r}')
    r = decide(repo, FVE, fn.body, {'isinstance(val, Context)': False})
    ctx.check(r[0] == 'return' and isinstance(r[1], Opaque) and norm(r[1].node) == 'value_to_literal(val, None)', FVE, r[2] or fn, q,
              'other values are bound only through their exact literal form', f'got {r[1]!r}')
    q = 'FreeVarElim.apply_with_edits'
    fn = ctx.fn(FVE, q)
    t = norm(fn, 40000)
    good = 'lit = inline_literal(env[name])' in t and 'if lit is None: continue' in t.replace('\n', ' ') or ('if lit is None:' in t and 'prelude.append(Assign(fv, None, lit, None))' in t)
    ctx.check(good, FVE, fn, q, 'a captured value without a literal form is left free', 'changed')
    ctx.check('new_body = StmtBlock(prelude + list(func.body.stmts))' in t and 'func.free_vars - bound' in t, FVE, fn, q,
              'the prelude precedes the unchanged body; bound names leave the free set', 'changed')
    # Monomorphize: context pinning table, body untouched
    q = '_MonomorphizeVisitor._visit_function'
    fn = ctx.fn(MONO, q)
    rows = [
        ('no declared ctx, pinned ctx', {'func.ctx': None, 'self.ctx': Inst('Context')}, 'self.ctx'),
        ('declared ctx, nothing pinned', {'func.ctx': Inst('Context'), 'self.ctx': None}, 'func.ctx'),
        ('declared ctx and pinned ctx', {'func.ctx': Inst('Context'), 'self.ctx': Inst('Context')}, 'func.ctx'),
    ]
    for name, env, want in rows:
        seen = {}

        def hook(st, e):
            if isinstance(st, (ast.Assign, ast.AnnAssign)):
                tgt = st.target if isinstance(st, ast.AnnAssign) else st.targets[0]
                if dotted(tgt) == 'fn_ctx':
                    seen['v'] = norm(st.value)
                return True
            return False
        try:
            decide(repo, MONO, fn.body, dict(env), hook)
        except ShapeError:
            pass
        ctx.check(seen.get('v') == want, MONO, fn, q, f'{name} -> {want}', f'got {seen.get("v")}')
    t = norm(fn, 40000)
    ctx.check('body, _ = self._visit_block(func.body, None)' in t and 'FuncMeta(func.free_vars, fn_ctx, func.meta.spec, func.meta.props, func.env)' in t, MONO, fn, q,
              'only the context and the argument annotations change', 'changed')
    c = repo.cls(MONO, '_MonomorphizeVisitor')
    overrides = {s.name for s in c.body if isinstance(s, ast.FunctionDef) and s.name.startswith('_visit_')}
    ctx.check(overrides == {'_visit_argument', '_visit_function'}, MONO, c, '_MonomorphizeVisitor', 'no statement or expression is rewritten', f'overrides {sorted(overrides)}')
    q = 'Monomorphize.apply_with_edits'
    fn = ctx.fn(MONO, q)
    t = norm(fn, 400000)
    ctx.check('isinstance(ctx, Context) and isinstance(ty_info.fn_type.ctx, Context) and (not ctx.is_equiv(ty_info.fn_type.ctx))' in t, MONO, fn, q,
              'pinning a context that contradicts the inferred one is refused', 'conflict check changed')


def s2_evaluation_order(ctx: Ctx):
    """The callee body is spliced ahead of the *statement* holding the call, so it also moves ahead of whatever the
    statement evaluates before the call ("inlined code keeps ... its argument evaluation order").  That is unobservable
    only if nothing evaluated earlier reads a list or calls anything, or neither side stores into one.  Decided: (a) the
    statement's own evaluation order is taken before the statement is visited and handed to the refusal test of every
    call; (b) the order-taking visitor lists an expression after its operands and stays out of nested blocks; (c) the
    test itself, evaluated from its source over orders of stand-in expressions."""
    from ..minipy import Interp, Obj
    blk = ctx.fn(INLINE, '_FuncInline._visit_block')
    loops = [s for s in walk_no_nested(blk) if isinstance(s, ast.For)]
    ok = False
    if len(loops) == 1:
        body = loops[0].body
        i_visit = next((i for i, s in enumerate(body) if any(call_name(k) == 'self._visit_statement' for k in calls_in(s))), None)
        takes = [i for i, s in enumerate(body) if isinstance(s, ast.Assign) and norm(s.targets[0]) == 'self._order']
        mk = [i for i, s in enumerate(body) if isinstance(s, ast.Expr) and isinstance(s.value, ast.Call) and (call_name(s.value) or '').endswith('._visit_statement') and norm(s.value.args[0]) == norm(loops[0].target).split(', ')[-1].rstrip(')')]
        ok = i_visit is not None and bool(takes) and takes[0] < i_visit and bool(mk) and mk[0] < takes[0]
    ctx.check(ok, INLINE, blk, '_FuncInline._visit_block', 'the evaluation order of a statement is taken from the statement itself, before it is visited', 'the order handed to the refusal test is stale or missing')
    vc = ctx.fn(INLINE, '_FuncInline._visit_call')
    ks = [k for k in calls_in(vc) if call_name(k) == '_refuses']
    kw = kwarg(ks[0], 'reorders') if len(ks) == 1 else None
    ok = isinstance(kw, ast.Call) and call_name(kw) == '_reorders' and [norm(a) for a in kw.args] == ['e', 'self._order', 'self.def_use']
    ctx.check(ok, INLINE, vc, '_FuncInline._visit_call', 'every call site asks the evaluation-order test with its own statement\'s order', f'got {norm(kw) if kw is not None else None}')
    rf = ctx.fn(INLINE, '_refuses')
    last = rf.body[-1]
    ctx.check(isinstance(last, ast.Return) and norm(last.value) == 'reorders', INLINE, rf, '_refuses', 'a call that nothing else refuses is refused for the reordering', f'ends in `{norm(last)}`')
    eo = ctx.repo.methods(INLINE, '_EvalOrder', inherited=False)
    ve = eo.get('_visit_expr')
    ok = ve is not None and [norm(s) for s in ve[2].body if not (isinstance(s, ast.Expr) and isinstance(s.value, ast.Constant))] == ['super()._visit_expr(e, ctx)', 'self.order.append(e)']
    vb = eo.get('_visit_block')
    ok = ok and vb is not None and all(isinstance(s, ast.Pass) or (isinstance(s, ast.Expr) and isinstance(s.value, ast.Constant)) for s in vb[2].body)
    ctx.check(ok, INLINE, ve[2] if ve else None, '_EvalOrder', 'an expression is listed after its operands; nested blocks are not entered', 'the order taken is not the order of evaluation')
    # (c) the test
    fn = ctx.fn(INLINE, '_reorders')
    node = ctx.repo.module(INLINE).toplevel().get('_READS_A_LIST')
    kinds = {n.id for n in ast.walk(node.value) if isinstance(n, ast.Name)} if node is not None else set()
    L = __import__('sa.lang', fromlist=['lang']).lang(ctx.repo)
    need = {'ListRef', 'ListSlice', 'ListComp', 'Call', 'Sum'}
    ctx.check(need <= kinds, INLINE, node, '_READS_A_LIST', f'element reads, slices, comprehensions, calls and list reductions count as reading a list ({sorted(need)})', f'missing {sorted(need - kinds)}')

    def run(order, e, callee_pure, pure_calls=()):
        own = [x for x in order if any(x is y for y in e.fields.get('inner', []))] + [e]
        it = Interp({}, {}, is_a=lambda k, c: k == c or (c == '_READS_A_LIST' and k in kinds),
                    overrides={'_EvalOrder': lambda: Obj('_EvalOrder', order=own, _visit_expr=lambda x, c: None), 'Purity.analyze': lambda f: callee_pure,
                               'Purity.analyze_expr': lambda x, du: any(x is y for y in pure_calls), 'id': id, 'next': lambda seq, d=None: (list(seq) or [d])[0]})
        return it.call_function(fn, [e, order, 'def_use'])

    def mk(kind, **f):
        o = Obj(kind, **f)
        o.fields.setdefault('format', lambda: kind)
        return o
    var, ref, arg = mk('Var'), mk('ListRef'), mk('ListRef')
    other = mk('Call', fn=Obj('Function', name='h', ast='h'))
    call = mk('Call', fn=Obj('Function', name='g', ast='g'), inner=[arg])
    rows = [
        ('x + g(xs)', [var, arg, call], True, False, (), None),
        ('xs[0] + g(xs), g stores', [ref, arg, call], False, False, (), 'refuse'),
        ('xs[0] + g(xs), g pure', [ref, arg, call], True, True, (), None),
        ('h(xs) + g(xs), h stores, g pure', [other, arg, call], True, True, (), 'refuse'),
        ('h(xs) + g(xs), both pure', [other, arg, call], True, True, (other,), None),
        ('g(xs[0]) alone: its own argument', [arg, call], False, False, (), None),
        ('g(xs) + xs[0]: read after the call', [arg, call, ref], False, False, (), None),
    ]
    # the call's own arguments move ahead with the body: an impure call among them passes the earlier read too
    inner_call = mk('Call', fn=Obj('Function', name='k', ast='k'))
    call2 = mk('Call', fn=Obj('Function', name='g', ast='g'), inner=[inner_call])
    eq = mk('Compare')
    rows2 = [
        ('xs[0] + g(k(xs)), g pure, k stores', [ref, inner_call, call2], call2, True, (), 'refuse'),
        ('xs[0] + g(k(xs)), both pure', [ref, inner_call, call2], call2, True, (inner_call,), None),
        ('(xs == ys, g(xs)), g stores: the comparison reads the lists', [eq, arg, call], call, False, (), 'refuse'),
    ]
    for label, order, target, pure, pure_calls, want in rows2:
        got = run(order, target, pure, pure_calls)
        ctx.check((got is None) == (want is None), INLINE, fn, '_reorders', f'{label}: {"refused" if want else "inlined"}',
                  f'got {got!r}: `xs[0] + f(g(xs))` binds `y = g(xs)` ahead of the read of xs[0]')
    # an element store evaluates the stored value first and its indices afterwards
    eo_ia = eo.get('_visit_indexed_assign')
    seq = [norm(k.args[0]) for k in sorted(calls_in(eo_ia[2]), key=lambda k: (k.lineno, k.col_offset)) if call_name(k) == 'self._visit_expr'] if eo_ia else []
    ctx.check(seq[:1] == ['stmt.expr'] and len(seq) == 2, INLINE, eo_ia[2] if eo_ia else None, '_EvalOrder._visit_indexed_assign', 'xs[i] = e: e is listed before i',
              f'visits {seq or "in the inherited order (indices first)"}: `xs[idx(xs)] = bump(xs) + xs[1]` inlines idx ahead of the right-hand side')
    for label, order, _, pure, pure_calls, want in rows:
        try:
            got = run(order, call, pure, pure_calls)
        except ShapeError as ex:
            raise ShapeError(f'_reorders: {ex}')
        ctx.check((got is None) == (want is None), INLINE, fn, '_reorders', f'{label}: {"refused" if want else "inlined"}',
                  f'got {got!r}: `r = xs[0] + bump(xs)` inlines to a program that reads xs[0] after bump stored into it (22 instead of 12)')


def _d1_partial_eval(ctx: Ctx):
    # what LiftContext hoists out of a loop is what PartialEval reports static there; the loop handling of that analysis is decided in c13
    from .c13 import d2_partial_eval
    d2_partial_eval(ctx)


EXPLANATION = (
    'Static rules over FuncInline, LiftContext, FreeVarElim and Monomorphize (ast only). Decided: (S1) FuncInline never '
    'splices a callee body out of an arm of a conditional expression, a later operand of and/or, a comprehension element '
    'or a while condition: each such position is visited with a context carrying a refusal flag that _refuses reads; '
    '(T1) callee context rule: declared -> wrapped in it; inside a with-header -> wrapped in REAL; otherwise spliced under '
    'the ambient context; (P1) callee locals renamed with fresh names, arguments evaluated in order and bound before the '
    'body, result through a fresh temporary, conflicting free variables and multi-return callees refused; (G1) a refusal '
    'returns before an index is consumed and sees the position flags; (G2) LiftContext lifts only statically known '
    'contexts and binds the evaluated context (not the re-emitted constructor), FreeVarElim binds only exact literal '
    'forms, Monomorphize only pins context/annotations with the declared context winning. NOT decided: RenameTarget\'s '
    'traversal, the call-graph cycle check, Specialize.'
)
ASSUMPTIONS = ['PartialEval facts are sound (C13)', 'Reachability counts return statements correctly (C15)']

RULES = [
    Rule('C09.S1', 'FuncInline refuses calls in conditionally or repeatedly evaluated positions', hoist_mask_rule([INLINE_HOISTER], 'C09.S1'), 11, 'S,X'),
    Rule('C09.S2', 'FuncInline refuses a call where splicing its body ahead of the statement would pass an earlier operand that reads a list or calls, unless neither side stores', s2_evaluation_order, 12, 'S,T'),
    Rule('C09.T1', 'callee context rule: declared / with-header (REAL) / ambient', t1_callee_context, 4, 'T'),
    Rule('C09.P1', 'arguments bound in order before the body; callee locals renamed; conflicts and multi-return refused', p1_binding_and_renaming, 9, 'P,F'),
    Rule('C09.P2', 'the fresh-name generator never hands out a name it holds (identifier hash / equality / retry loop)', fresh_names_rule, 9, 'P'),
    Rule('C09.P3', 'an analysis handed to a rewriter along with a function is the analysis of that function (inlining: one per function of the chain)', analysis_pairing((INLINE, LIFT, FVE, MONO, 'fpy2/transform/specialize.py'), 2), 2, 'P'),
    Rule('C09.X1', 'the renaming of callee locals reaches every field of the language that binds a name (with-as targets included)', x1_rename_everywhere, 7, 'X'),
    Rule('C09.P4', 'names the callee captures are reserved before any name is minted, and a caller that binds one of them is refused', p4_captured_names, 3, 'P'),
    Rule('C09.G1', 'a refused call site consumes no index', g1_refusal_before_index, 2, 'G'),
    Rule('C09.G2', 'LiftContext / FreeVarElim / Monomorphize change only what they state', g2_lift_close_pin, 14, 'G'),
    Rule('C09.G3', 'a captured value is closed over as a literal that denotes exactly that value (= C07.T1, value_to_literal)', lambda ctx: __import__('sa.props.c07', fromlist=['t1_literal_forms']).t1_literal_forms(ctx), 11, 'G'),
    Rule('C09.D1', 'a constructor is hoisted out of a loop only if its arguments are constant there: constants at merges and loop heads (= C13.D2, partial evaluation)', _d1_partial_eval, 12, 'D'),
]

from ..selftest import Mutant  # noqa: E402

MUTANTS = [
    Mutant('arguments-not-counted-as-moved', INLINE, "    if Purity.analyze(e.fn.ast) and all(Purity.analyze_expr(x, def_use) for x in earlier + moved if isinstance(x, Call)):", "    if Purity.analyze(e.fn.ast) and all(Purity.analyze_expr(x, def_use) for x in earlier if isinstance(x, Call)):", 'C09.S2',
           'finding F104 before its repair: xs[0] + f(g(xs)) with g storing into xs'),
    Mutant('list-comparison-reads-nothing', INLINE, "Enumerate, Zip, Compare)", "Enumerate, Zip)", 'C09.S2'),
    Mutant('store-indices-first', INLINE, "        self._visit_expr(stmt.expr, ctx)\n        for index in stmt.indices:\n            self._visit_expr(index, ctx)", "        for index in stmt.indices:\n            self._visit_expr(index, ctx)\n        self._visit_expr(stmt.expr, ctx)", 'C09.S2'),
    Mutant('underscore-parameter-drops-its-argument', INLINE, "            ctx.stmts.append(bind)\n\n        # bind the return value", "            if isinstance(param.name, NamedId):\n                ctx.stmts.append(bind)\n\n        # bind the return value", 'C09.P1'),
    Mutant('captured-float-closed-over-as-its-repr', 'fpy2/transform/const_fold.py', "        case float() if val == 0 and math.copysign(1.0, val) < 0:\n            # a Python `-0.0` is a negative zero too\n            return Decnum('-0.0', loc)\n        case int() | float():\n            return _rational_literal(Fraction(val), loc)",
           "        case float():\n            return Decnum(repr(val), loc)\n        case int():\n            return _rational_literal(Fraction(val), loc)", 'C09.G3',
           'seeded change C09e: SCALE = 0.1 is closed over as the exact 1/10, and 3 * SCALE changes'),
    Mutant('fpcore-description-wrapped-as-it-is', INLINE, "            callee_ctx = ast.ctx.to_context() if isinstance(ast.ctx, FPCoreContext) else ast.ctx\n", "            callee_ctx = ast.ctx\n", 'C09.T1',
           'finding F92 before its repair: the inlined program raises TypeError'),
    Mutant('inliner-ignores-the-evaluation-order', INLINE, "            reorders=_reorders(e, self._order, self.def_use),\n", "", 'C09.S2',
           'finding F89 before its repair: r = xs[0] + bump(xs) inlines to 22 instead of 12'),
    Mutant('order-test-trusts-an-impure-callee', INLINE, "    if Purity.analyze(e.fn.ast) and all(", "    if all(", 'C09.S2'),
    Mutant('order-test-ignores-element-reads', INLINE, "_READS_A_LIST = (ListRef, ListSlice, ListComp, Call,", "_READS_A_LIST = (ListSlice, ListComp, Call,", 'C09.S2'),
    Mutant('order-taken-after-the-visit', INLINE, "            order = _EvalOrder()\n            order._visit_statement(stmt, None)\n            self._order = order.order\n            stmt, _ = self._visit_statement(stmt, block_ctx)",
           "            stmt, _ = self._visit_statement(stmt, block_ctx)\n            order = _EvalOrder()\n            order._visit_statement(stmt, None)\n            self._order = order.order", 'C09.S2'),
    Mutant('captured-values-compared-with-ne', INLINE, "                if not _same_captured(val, e.fn.env.get(str(name))):", "                if val != e.fn.env.get(str(name)):", 'C09.P4',
           'finding F75 before its repair: caller K = 0.0, callee K = -0.0'),
    Mutant('captured-floats-by-value-only', INLINE, "        return a == b and math.copysign(1.0, a) == math.copysign(1.0, b)", "        return a == b", 'C09.P4'),
    Mutant('captured-kinds-not-compared', INLINE, "    if type(a) is not type(b):\n        return False\n", "", 'C09.P4'),
    Mutant('stale-values-kept-after-an-inner-loop', 'fpy2/analysis/partial_eval.py', "        self.by_expr.pop(e, None)\n        super()._visit_expr(e, ctx)",
           "        if getattr(self, '_revisiting', True):\n            self.by_expr.pop(e, None)\n        super()._visit_expr(e, ctx)", 'C09.D1',
           'seeded change C09d (with the flag cleared when an inner loop converges): a loop-varying constructor is hoisted'),
    Mutant('ifexpr-arms-unmasked', INLINE, "        ift = self._visit_expr(e.ift, arm)\n        iff = self._visit_expr(e.iff, arm)", "        ift = self._visit_expr(e.ift, ctx)\n        iff = self._visit_expr(e.iff, ctx)", 'C09.S1',
           'the defect repaired by the fix: commit'),
    Mutant('boolop-tail-unmasked', INLINE, "            args += [self._visit_expr(arg, tail) for arg in e.args[1:]]", "            args += [self._visit_expr(arg, ctx) for arg in e.args[1:]]", 'C09.S1'),
    Mutant('comp-element-unmasked', INLINE, "        elt = self._visit_expr(e.elt, inner)", "        elt = self._visit_expr(e.elt, ctx)", 'C09.S1'),
    Mutant('while-cond-flag-dropped', INLINE, "_Ctx(ctx.stmts, False, in_while_cond=True)", "_Ctx(ctx.stmts, False)", 'C09.S1'),
    Mutant('conditional-flag-not-read', INLINE, "    if in_conditional is not None:\n        return (", "    if False:\n        return (", 'C09.S1'),
    Mutant('callee-ctx-ignored', INLINE, "        if ast.ctx is not None:\n            # overriding context (an FPCore description of one is what it\n            # denotes: a `with` block takes a context, not a description)\n            callee_ctx = ast.ctx.to_context() if isinstance(ast.ctx, FPCoreContext) else ast.ctx\n            stmt = ContextStmt(UnderscoreId(), ForeignVal(callee_ctx, None), ast.body, ast.loc)\n            ctx.stmts.append(stmt)\n        elif ctx.is_ctx_expr:",
           "        if ctx.is_ctx_expr:", 'C09.T1'),
    Mutant('header-call-under-ambient', INLINE, "stmt = ContextStmt(UnderscoreId(), ForeignVal(REAL, None), ast.body, ast.loc)", "stmt = ContextStmt(UnderscoreId(), ForeignVal(ast.ctx, None), ast.body, ast.loc)", 'C09.T1'),
    Mutant('header-args-under-ambient', INLINE, "            if ctx.is_ctx_expr and not isinstance(arg, Var):", "            if False:", 'C09.T1',
           'the defect repaired by the fix: commit (F36)'),
    Mutant('header-args-wrapped-in-callee-ctx', INLINE, "                bind = ContextStmt(UnderscoreId(), ForeignVal(REAL, None), StmtBlock([bind]), e.loc)",
           "                bind = ContextStmt(UnderscoreId(), ForeignVal(ast.ctx, None), StmtBlock([bind]), e.loc)", 'C09.T1'),
    Mutant('header-args-literals-exempt', INLINE, "            if ctx.is_ctx_expr and not isinstance(arg, Var):", "            if ctx.is_ctx_expr and not isinstance(arg, (Var, BinaryOp)):", 'C09.T1'),
    Mutant('header-arg-bind-not-emitted', INLINE, "            ctx.stmts.append(bind)\n\n        # bind the return value", "            pass\n\n        # bind the return value", 'C09.P1'),
    Mutant('header-args-always-wrapped', INLINE, "            if ctx.is_ctx_expr and not isinstance(arg, Var):", "            if ctx.is_ctx_expr:", 'C09.T1',
           'wrapping a plain variable read as well rounds nothing more: behaviour-preserving', expect='silent'),
    Mutant('chain-tail-unmasked', INLINE, "            self._visit_expr(arg, ctx if i < 2 else tail)\n            for i, arg in enumerate(e.args)", "            self._visit_expr(arg, ctx)\n            for i, arg in enumerate(e.args)", 'C09.S1',
           'finding F42 before its repair: `c = a < b < bump(xs)` runs bump(xs) unconditionally after inlining'),
    Mutant('with-as-target-not-renamed', RENAME, "        target = self._visit_binding(stmt.target, ctx)\n        body, _ = self._visit_block(stmt.body, ctx)\n        s = ContextStmt(target, context, body, stmt.loc)",
           "        body, _ = self._visit_block(stmt.body, ctx)\n        s = ContextStmt(stmt.target, context, body, stmt.loc)", 'C09.X1', 'finding F43 before its repair'),
    Mutant('loop-target-not-renamed', RENAME, "        target = self._visit_binding(stmt.target, ctx)\n        body, _ = self._visit_block(stmt.body, ctx)\n        s = ForStmt(target, iterable, body, stmt.loc)",
           "        body, _ = self._visit_block(stmt.body, ctx)\n        s = ForStmt(stmt.target, iterable, body, stmt.loc)", 'C09.X1'),
    Mutant('captured-names-reserved-only-when-recursive', INLINE, "        self.gensym.reserve(*ast.free_vars)\n", "        if self.recursive:\n            self.gensym.reserve(*ast.free_vars)\n", 'C09.P4',
           'finding F44 before its repair: one-level inlining names the result temporary `t` although the callee captures a `t`'),
    Mutant('captured-names-reserved-after-renaming', INLINE, "        self.gensym.reserve(*ast.free_vars)\n\n        # one trailing return", "        # one trailing return", 'C09.P4'),
    Mutant('caller-local-captures-callee-global', INLINE, "            if name in self.bound or name in self.gensym.generated:\n                # spliced into the caller, the read would see that variable\n                raise RuntimeError(f'cannot inline function `{e.fn.name}`: its free variable `{name}` is a local variable of the caller')\n", "", 'C09.P4',
           'finding F45 before its repair: K = 10 global, callee(x) = x + K, caller: K = 3; callee(x) * K is 33, inlined 12'),
    Mutant('chain-inlined-with-root-analysis', INLINE, "                fdef_du = DefineUse.analyze(fdef)\n                vtor = _FuncInline(\n                    fdef, fdef_du, None,",
           "                fdef_du = DefineUse.analyze(func)\n                vtor = _FuncInline(\n                    fdef, fdef_du, None,", 'C09.P3',
           'seeded change C09c: the middle function of a chain is inlined with fresh names chosen against the root\'s names'),
    Mutant('chain-inlined-with-caller-analysis', INLINE, "                vtor = _FuncInline(\n                    fdef, fdef_du, None,", "                vtor = _FuncInline(\n                    fdef, def_use or fdef_du, None,", 'C09.P3',
           'the caller-supplied analysis belongs to the root function'),
    Mutant('gensym-stale-hash', GENSYM, "            ident._hash = None  # cached for the previous count\n", "", 'C09.P2',
           'the defect repaired by the fix: commit (F37)'),
    Mutant('gensym-reset-before-store', GENSYM, "            ident.count = self._counter\n            ident._hash = None  # cached for the previous count\n",
           "            ident._hash = None\n            ident.count = self._counter\n", 'C09.P2', 'same behaviour: nothing hashes the object between the two statements', expect='silent'),
    Mutant('gensym-tests-generated-only', GENSYM, "        while ident in self._idents:", "        while ident in self._generated:", 'C09.P2'),
    Mutant('gensym-name-not-held', GENSYM, "        self._idents.add(ident)\n        self._generated.add(ident)", "        self._generated.add(ident)", 'C09.P2'),
    Mutant('gensym-fresh-skips-loop', GENSYM, "        return self.refresh(NamedId(prefix))", "        return NamedId(prefix)", 'C09.P2'),
    Mutant('gensym-reserve-elsewhere', GENSYM, "            self._idents.add(ident)\n\n    def refresh", "            self._generated.add(ident)\n\n    def refresh", 'C09.P2'),
    Mutant('gensym-renames-in-place', GENSYM, "        ident = self._copy_id(ident)\n        while", "        while", 'C09.P2'),
    Mutant('gensym-counter-stuck', GENSYM, "            self._counter += 1\n", "", 'C09.P2'),
    Mutant('ident-eq-ignores-count', IDENT, "            and self.base == other.base\n            and self.count == other.count", "            and self.base == other.base", 'C09.P2'),
    Mutant('ident-hash-base-only', IDENT, "self._hash = hash((self.base, self.count))", "self._hash = hash(self.base)", 'C09.P2',
           'a coarser hash is still consistent with equality', expect='silent'),
    Mutant('args-bound-after-body', INLINE, "        # bind the return value to a fresh variable and splice into the current block\n        t = self.gensym.fresh('t')\n        _replace_ret(ast.body, t)",
           "        t = self.gensym.fresh('t')", 'C09.P1'),
    Mutant('callee-locals-not-renamed', INLINE, "            if isinstance(d, AssignDef) and not d.is_free:\n                subst[d.name] = self.gensym.refresh(d.name)", "            if False:\n                subst[d.name] = self.gensym.refresh(d.name)", 'C09.P1'),
    Mutant('free-var-clash-ignored', INLINE, "                if not _same_captured(val, e.fn.env.get(str(name))):\n                    # a callee inlined before this one captured another value\n                    # under this name: this one's is carried under a name of its own\n                    moved[name] = self.gensym.refresh(name)", "                pass", 'C09.P1'),
    Mutant('moved-capture-not-renamed-in-the-body', INLINE, "            ast = RenameTarget.apply(FuncDef(ast.name, ast.args, ast.body, meta, loc=ast.loc), moved)\n", "            ast = FuncDef(ast.name, ast.args, ast.body, meta, loc=ast.loc)\n", 'C09.P1',
           'the value is carried under a fresh name that the spliced body never reads'),
    Mutant('index-before-refusal', INLINE, "        # a refusal is not a site, so it takes no index\n        reason = _refuses(\n            e, in_while_cond=ctx.in_while_cond, in_conditional=ctx.in_conditional,\n",
           "        self.site_idx += 0\n        idx0 = self.site_idx\n        reason = _refuses(\n            e, in_while_cond=False, in_conditional=None,\n", 'C09.G1'),
    Mutant('lift-reemits-constructor', LIFT, "self.name_to_expr[name] = ForeignVal(eval_info.by_expr[e], e.loc)", "self.name_to_expr[name] = e", 'C09.G2',
           'the defect repaired by the fix: commit'),
    Mutant('lift-any-expression', LIFT, "                isinstance(v, Context)\n                and not isinstance(e, Var)", "                not isinstance(e, Var)", 'C09.G2'),
    Mutant('close-over-context', FVE, "    if isinstance(val, Context):\n        return None\n", "", 'C09.G2'),
    Mutant('pinned-ctx-overrides-declared', MONO, "                fn_ctx = func.ctx\n            case FPCoreContext(), _:", "                fn_ctx = self.ctx\n            case FPCoreContext(), _:", 'C09.G2'),
]
