"""
C18 — Evaluation is pure, isolated from the caller and reentrant.

Decided by effect analysis over the whole package: which functions write
process-wide state (module globals, module-level containers), which methods
of long-lived objects write `self`, which functions mutate objects they were
handed; the Python boundary rebuilds containers in both directions; captured
containers are re-materialised per call; the compiled-function cache is keyed
by the FuncDef object; the active context is a local of compiled code; MPFR
settings are scoped.
"""

from __future__ import annotations

import ast

from ..core import Ctx, Rule
from ..dataflow import guards_of, parent_map
from ..facts import ShapeError, call_name, calls_in, dotted, kwarg, norm, param_names, walk_no_nested
from ..tables import Inst, Opaque, decide, select_case
from .boundary_rules import container_arms
from .engine_rules import GMPUTILS, g2_mpfr_context

BYTE = 'fpy2/interpret/byte.py'
VALUE = 'fpy2/interpret/value.py'
INTERP = 'fpy2/interpret/interpreter.py'
FUNCTION = 'fpy2/function.py'
GMPUTILS = 'fpy2/number/gmputils.py'

MUTATORS = {'append', 'extend', 'insert', 'pop', 'remove', 'clear', 'sort', 'reverse', 'update', 'add', 'discard', 'setdefault', 'popitem'}

# configuration entry points: they exist to set process-wide state, and nothing inside the package calls them
# except at import time (module level)
SETTERS = {
    ('fpy2/ast/fpyast.py', 'set_default_formatter'): 'pretty-printer selection',
    ('fpy2/function.py', 'set_default_function_call'): 'default call hook, installed by interpret/interpreter.py at import',
    ('fpy2/interpret/interpreter.py', 'set_default_interpreter'): 'process-wide default interpreter',
    ('fpy2/number/globals.py', 'set_current_float_converter'): 'float() conversion hook',
    ('fpy2/number/globals.py', 'set_current_str_converter'): 'str() conversion hook',
}
# source-text caches of the import machinery (not on any evaluation path)
CONTAINER_WRITERS = {
    ('fpy2/utils/loader.py', 'CachingSourceFileLoader.get_data'): 'source cache keyed by path',
    ('fpy2/utils/loader.py', 'get_module_source'): 'source-line cache keyed by module',
}


def _module_containers(mod) -> set[str]:
    out = set()
    for st in mod.tree.body:
        if isinstance(st, (ast.Assign, ast.AnnAssign)):
            v = st.value
            t = st.targets[0] if isinstance(st, ast.Assign) else st.target
            if isinstance(t, ast.Name) and v is not None:
                if isinstance(v, (ast.List, ast.Dict, ast.Set, ast.ListComp, ast.DictComp, ast.SetComp)):
                    out.add(t.id)
                elif isinstance(v, ast.Call) and (call_name(v) or '').split('.')[-1] in ('list', 'dict', 'set', 'defaultdict', 'OrderedDict', 'EngineList', 'deque', 'WeakKeyDictionary'):
                    out.add(t.id)
    return out


def e1_process_state(ctx: Ctx):
    repo = ctx.repo
    n_sites = 0
    setters_called: dict[str, list] = {}
    for rel in sorted(repo.modules):
        mod = repo.modules[rel]
        containers = _module_containers(mod)
        for q, fn in repo.functions(rel):
            globs = set()
            for n in walk_no_nested(fn):
                if isinstance(n, ast.Global):
                    globs |= set(n.names)
            parents = None
            for n in walk_no_nested(fn):
                tgts = []
                if isinstance(n, ast.Assign):
                    tgts = n.targets
                elif isinstance(n, (ast.AugAssign, ast.AnnAssign)):
                    tgts = [n.target]
                for t in tgts:
                    for x in ast.walk(t):
                        if isinstance(x, ast.Name) and x.id in globs and isinstance(x.ctx, ast.Store):
                            n_sites += 1
                            ctx.functions_analysed.add((rel, q))
                            if (rel, q) in SETTERS:
                                ctx.ok(rel, n, q, f'global {x.id} (configuration setter: {SETTERS[(rel, q)]})')
                                continue
                            parents = parents or parent_map(fn)
                            gs = [norm(g) for g, arm in guards_of(fn, n, parents)]
                            lazy = f'{x.id} is None' in gs
                            ctx.check(lazy, rel, n, q, f'global {x.id} written',
                                      'a function writes a module global other than as a write-once lazy initialisation (`if X is None: X = ...`) '
                                      'or a listed configuration setter: process-wide state that outlives the call')
                    if isinstance(t, ast.Subscript) and isinstance(t.value, ast.Name) and t.value.id in containers:
                        n_sites += 1
                        ctx.check((rel, q) in CONTAINER_WRITERS, rel, n, q, f'module-level container {t.value.id}[...] written',
                                  'a function stores into a module-level container: shared mutable state')
                if isinstance(n, ast.Call) and isinstance(n.func, ast.Attribute) and n.func.attr in MUTATORS \
                        and isinstance(n.func.value, ast.Name) and n.func.value.id in containers \
                        and n.func.value.id not in {a for a in param_names(fn)}:
                    # not shadowed by a local of the same name
                    local = any(isinstance(s, ast.Assign) and any(isinstance(tt, ast.Name) and tt.id == n.func.value.id for tt in s.targets) for s in walk_no_nested(fn))
                    if not local:
                        n_sites += 1
                        ctx.check((rel, q) in CONTAINER_WRITERS, rel, n, q, f'module-level container {n.func.value.id}.{n.func.attr}(...)',
                                  'a function mutates a module-level container: shared mutable state')
            # calls of configuration setters from inside functions
            for k in calls_in(fn):
                cn = (call_name(k) or '').split('.')[-1]
                if cn in {s for _, s in SETTERS} | {'register_engine'}:
                    setters_called.setdefault(cn, []).append((rel, q, k))
    if n_sites < 15:
        raise ShapeError(f'only {n_sites} process-state write sites found (19 confirmed by hand)')
    for (rel, s), why in SETTERS.items():
        calls = setters_called.get(s, [])
        ctx.check(not calls, rel, None, s, f'{s} is called only at import time',
                  f'called from {[(r, q) for r, q, _ in calls]}: evaluation would change process-wide configuration')
    calls = setters_called.get('register_engine', [])
    ctx.check(not calls, 'fpy2/number/engine/engine.py', None, 'register_engine', 'the engine registry is filled only at import time', f'called from {[(r, q) for r, q, _ in calls]}')
    # the registry object itself: mutated only by register
    c = repo.cls('fpy2/number/engine/engine.py', 'EngineList')
    for m in c.body:
        if isinstance(m, ast.FunctionDef) and m.name not in ('__init__', 'register'):
            stores = [x for x in ast.walk(m) if isinstance(x, ast.Attribute) and isinstance(x.ctx, ast.Store) and dotted(x.value) == 'self']
            muts = [k for k in calls_in(m) if isinstance(k.func, ast.Attribute) and k.func.attr in MUTATORS and (dotted(k.func.value) or '').startswith('self.')]
            ctx.check(not stores and not muts, 'fpy2/number/engine/engine.py', m, f'EngineList.{m.name}', 'iteration does not change the registry', 'registry mutated while dispatching')


LONG_LIVED_ROOTS = [('fpy2/interpret/interpreter.py', 'Interpreter'), ('fpy2/number/engine/engine.py', 'Engine'),
                    ('fpy2/number/context/context.py', 'Context'), ('fpy2/number/context/format.py', 'Format')]
LONG_LIVED_EXTRA = [('fpy2/function.py', 'Function'), ('fpy2/primitive.py', 'Primitive'), ('fpy2/number/number/floats.py', 'Float'),
                    ('fpy2/number/number/reals.py', 'RealFloat')]
SELF_WRITE_ALLOWED = {
    ('BytecodeInterpreter.eval', 'self.func_cache[func.ast]'): 'compiled-code cache, keyed by the FuncDef object (identity), write-once per key',
}


def e1b_object_state(ctx: Ctx):
    repo = ctx.repo
    classes = []
    for brel, bname in LONG_LIVED_ROOTS:
        classes += [(rel, q, c) for rel, q, c in repo.subclasses(brel, bname, strict=False)]
    classes += [(rel, q, repo.cls(rel, q)) for rel, q in LONG_LIVED_EXTRA]
    n = 0
    for rel, q, c in classes:
        for m in c.body:
            if not isinstance(m, ast.FunctionDef) or m.name == '__init__':
                continue
            n += 1
            ctx.functions_analysed.add((rel, f'{q}.{m.name}'))
            sites = []
            for node in walk_no_nested(m):
                tgts = []
                if isinstance(node, ast.Assign):
                    tgts = node.targets
                elif isinstance(node, (ast.AugAssign, ast.AnnAssign)):
                    tgts = [node.target]
                for t in tgts:
                    for x in ast.walk(t):
                        if isinstance(x, (ast.Attribute, ast.Subscript)) and isinstance(x.ctx, ast.Store):
                            root = x
                            while isinstance(root, (ast.Attribute, ast.Subscript)):
                                root = root.value
                            if isinstance(root, ast.Name) and root.id == 'self':
                                sites.append((node, norm(x)))
                if isinstance(node, ast.Call) and isinstance(node.func, ast.Attribute) and node.func.attr in MUTATORS:
                    root = node.func.value
                    is_method_of_self = isinstance(root, ast.Name) and root.id == 'self'   # self.add(...) is a method call, not a container mutation
                    while isinstance(root, (ast.Attribute, ast.Subscript)):
                        root = root.value
                    if isinstance(root, ast.Name) and root.id == 'self' and not is_method_of_self:
                        sites.append((node, norm(node)[:60]))
            if not sites:
                continue
            for node, text in sites:
                allowed = SELF_WRITE_ALLOWED.get((f'{q}.{m.name}', text))
                ctx.check(allowed is not None, rel, node, f'{q}.{m.name}', f'writes {text}',
                          'a method of a long-lived object (interpreter, engine, context, format, function, number) writes its own state outside '
                          '__init__: the result of a later evaluation can depend on an earlier one, and concurrent evaluations race on it')
    if n < 400:
        raise ShapeError(f'only {n} methods of long-lived classes examined')
    # the one allowed write: keyed by the FuncDef object, looked up with the same key
    ev = repo.func(BYTE, 'BytecodeInterpreter.eval')
    t = norm(ev, 100000)
    ctx.check('if func.ast in self.func_cache: fn = self.func_cache[func.ast]' in t and 'self.func_cache[func.ast] = fn' in t, BYTE, ev, 'BytecodeInterpreter.eval',
              'cache lookup and store use the FuncDef object itself as key', 'cache key changed (a name or a printed form would conflate distinct functions)')
    fd = repo.cls('fpy2/ast/fpyast.py', 'FuncDef')
    custom = [s.name for s in fd.body if isinstance(s, ast.FunctionDef) and s.name in ('__hash__', '__eq__')]
    ast_cls = repo.cls('fpy2/ast/fpyast.py', 'Ast')
    custom += [s.name for s in ast_cls.body if isinstance(s, ast.FunctionDef) and s.name in ('__hash__', '__eq__')]
    ctx.check(not custom, 'fpy2/ast/fpyast.py', fd, 'FuncDef', 'FuncDef hashes and compares by identity', f'custom {custom}: structurally equal but distinct functions (different environments) would share compiled code')


EVAL_MODULE_PREFIXES = ('fpy2/number/', 'fpy2/interpret/')
EVAL_MODULES = ('fpy2/ops.py', 'fpy2/function.py', 'fpy2/primitive.py')
PARAM_MUTATION_ALLOWED = {
    ('fpy2/interpret/byte.py', '_eval_list_set'): 'the language\'s own `xs[i] = e`: the store is the operation',
    ('fpy2/number/context/efloat.py', 'EFloatContext.round_at'): '`x` is rebound to the freshly rounded result before `x._ctx = self`',
}


def e2_parameter_mutation(ctx: Ctx):
    repo = ctx.repo
    n = 0
    for rel in sorted(repo.modules):
        if not (rel.startswith(EVAL_MODULE_PREFIXES) or rel in EVAL_MODULES):
            continue
        for q, fn in repo.functions(rel):
            n += 1
            params = set(param_names(fn)) - {'self', 'cls'}
            if not params:
                continue
            # direct aliases of parameters: a = p, a = p[i], a = p.attr
            alias = set(params)
            changed = True
            while changed:
                changed = False
                for s in walk_no_nested(fn):
                    if isinstance(s, ast.Assign) and len(s.targets) == 1 and isinstance(s.targets[0], ast.Name):
                        v = s.value
                        root = v
                        while isinstance(root, (ast.Attribute, ast.Subscript)):
                            root = root.value
                        if isinstance(root, ast.Name) and root.id in alias and isinstance(v, (ast.Name, ast.Attribute, ast.Subscript)) \
                                and s.targets[0].id not in alias:
                            alias.add(s.targets[0].id)
                            changed = True
            # a parameter name rebound to a fresh value stops denoting the caller's object (flow-insensitive: noted, not assumed)
            sites = []
            for node in walk_no_nested(fn):
                tgts = []
                if isinstance(node, ast.Assign):
                    tgts = node.targets
                elif isinstance(node, (ast.AugAssign, ast.AnnAssign)):
                    tgts = [node.target]
                for t in tgts:
                    for x in ast.walk(t):
                        if isinstance(x, (ast.Attribute, ast.Subscript)) and isinstance(x.ctx, ast.Store):
                            root = x
                            while isinstance(root, (ast.Attribute, ast.Subscript)):
                                root = root.value
                            if isinstance(root, ast.Name) and root.id in alias:
                                sites.append((node, norm(x)))
                if isinstance(node, ast.Call) and isinstance(node.func, ast.Attribute) and (node.func.attr in MUTATORS or node.func.attr.startswith('_set_')):
                    root = node.func.value
                    while isinstance(root, (ast.Attribute, ast.Subscript)):
                        root = root.value
                    if isinstance(root, ast.Name) and root.id in alias:
                        sites.append((node, norm(node)[:70]))
            for node, text in sites:
                ctx.check((rel, q) in PARAM_MUTATION_ALLOWED, rel, node, q, f'mutates an object it was handed: {text}',
                          'evaluation code writes into an argument (or an alias of one): the caller\'s value changes under it')
            if not sites:
                ctx.ok(rel, fn, q, 'no store into parameters', nontrivial=False)
    if n < 700:
        raise ShapeError(f'only {n} functions of the evaluation modules examined')
    # flag setters are applied to freshly constructed results only (ops._normalize, contexts): their receiver is a local
    # bound from a constructor / rounding call in the same function
    for rel in sorted(repo.modules):
        if not (rel.startswith('fpy2/number/') or rel == 'fpy2/ops.py'):
            continue
        for q, fn in repo.functions(rel):
            for k in calls_in(fn):
                if isinstance(k.func, ast.Attribute) and k.func.attr.startswith('_set_') and k.func.attr != '_set_flags':
                    root = k.func.value
                    while isinstance(root, (ast.Attribute, ast.Subscript)):
                        root = root.value
                    if not isinstance(root, ast.Name) or root.id == 'self':
                        continue
                    defs = [s.value for s in walk_no_nested(fn) if isinstance(s, ast.Assign) and any(isinstance(t, ast.Name) and t.id == root.id for t in s.targets)]
                    fresh = bool(defs) and all(isinstance(d, ast.Call) for d in defs)
                    ctx.check(fresh, rel, k, q, f'{norm(k)[:60]} on a value created in this function', f'`{root.id}` is not bound from a call in this function: a flag of a shared number would be changed')


def p1_boundary(ctx: Ctx):
    repo = ctx.repo
    tv = ctx.fn(VALUE, 'to_value')
    m = [s for s in tv.body if isinstance(s, ast.Match)]
    if len(m) != 1:
        raise ShapeError('to_value is not a single match')
    container_arms(ctx)
    fv = ctx.fn(VALUE, 'from_value')
    r = decide(repo, VALUE, fv.body, {'isinstance(x, list | tuple)': True})
    ctx.check(r[0] == 'return' and isinstance(r[1], Opaque) and norm(r[1].node) == '_cvt_boundary(x)', VALUE, r[2] or fv, 'from_value', 'a returned container is always rebuilt', f'got {r[1]!r}: the caller can receive a list the interpreter keeps')
    cb = ctx.fn(VALUE, '_cvt_boundary')
    mm = [s for s in cb.body if isinstance(s, ast.Match)][0]
    c = select_case(repo, VALUE, mm, Inst('list'))
    ctx.check(c is not None and norm(c.body[0]) == 'return [from_value(v) for v in x]', VALUE, c.pattern if c else cb, '_cvt_boundary', 'lists rebuilt recursively on the way out', 'changed')
    c = select_case(repo, VALUE, mm, Inst('tuple'))
    ctx.check(c is not None and norm(c.body[0]) == 'return tuple((from_value(v) for v in x))', VALUE, c.pattern if c else cb, '_cvt_boundary', 'tuples rebuilt recursively on the way out', 'changed')
    ev = ctx.fn(BYTE, 'BytecodeInterpreter.eval')
    t = norm(ev, 100000)
    ctx.check('if convert: args = tuple((to_value(arg) for arg in args))' in t and 'return from_value(res) if convert else res' in t, BYTE, ev, 'BytecodeInterpreter.eval',
              'a call from Python converts every argument in and the result out', 'boundary conversion changed')
    dfc = ctx.fn(INTERP, '_default_function_call')
    ctx.check('return rt.eval(fn, args, ctx)' in norm(dfc, 4000), INTERP, dfc, '_default_function_call', 'Function.__call__ evaluates with the boundary conversion on (convert defaults to True)', 'changed')
    sig = ctx.fn(BYTE, 'BytecodeInterpreter.eval')
    kwd = {a.arg: d for a, d in zip(sig.args.kwonlyargs, sig.args.kw_defaults)}
    ctx.check(isinstance(kwd.get('convert'), ast.Constant) and kwd['convert'].value is True, BYTE, sig, 'BytecodeInterpreter.eval', 'convert defaults to True', 'default changed')


REWRITE_PREFIXES = ('fpy2/transform/', 'fpy2/strategies/')


def _root_name(x: ast.AST) -> str | None:
    while isinstance(x, (ast.Attribute, ast.Subscript)):
        x = x.value
    return x.id if isinstance(x, ast.Name) else None


def e4_rewriters_store_into_their_own_syntax(ctx: Ctx):
    """A transform hands back a new function and leaves the one it was given as it was: the program a user holds is
    evaluated the same way before and after somebody transformed it.  Most rewriters only build nodes.  The few functions
    that store into syntax *in place* (a statement list of a block, a field of a node -- found here, not listed) may do so
    only to syntax the pass built itself: at each of their call sites, on every path, the object handed over was last
    bound from a rebuilding call (a visitor's `_visit_*`, a node constructor, a transform's `apply`), and such an `apply`
    never hands back its own argument."""
    from ..cfg import CFG, describe_path, find_path
    from ..lang import lang
    repo = ctx.repo
    L = lang(repo)

    def node_typed(fn: ast.FunctionDef) -> set[str]:
        out = set()
        for a in fn.args.args + fn.args.kwonlyargs:
            if a.annotation is not None and a.arg not in ('self', 'cls'):
                names = {n.id for n in ast.walk(a.annotation) if isinstance(n, ast.Name)} - {'None'}
                if names and names <= set(L.classes) and not isinstance(a.annotation, ast.Subscript):
                    out.add(a.arg)
        return out

    def assigns_to(cfg, name: str):
        return [n for n in cfg.nodes_of('stmt') if isinstance(n.ast, (ast.Assign, ast.AnnAssign)) and
                any(isinstance(t, ast.Name) and t.id == name for t in (n.ast.targets if isinstance(n.ast, ast.Assign) else [n.ast.target]))]

    checked_apply: dict[tuple[str, str], bool] = {}

    def apply_is_fresh(rel: str, cname: str, meth: str) -> bool:
        """No return of `K.<meth>` hands back a node-typed parameter as it came in."""
        key = (rel, f'{cname}.{meth}')
        if key in checked_apply:
            return checked_apply[key]
        ms = repo.methods(rel, cname)
        if meth not in ms:
            checked_apply[key] = False
            return False
        drel, _, fn = ms[meth]
        cfg = CFG(fn)
        params = node_typed(fn)
        bad = None
        for r in cfg.returns():
            v = r.ast.value     # type: ignore
            for x in ([v] if not isinstance(v, ast.Tuple) else v.elts):
                if isinstance(x, ast.Name) and x.id in params:
                    p = find_path(cfg, cfg.entry, r, avoid=lambda n, nm=x.id: n in assigns_to(cfg, nm))
                    if p is not None and bad is None:
                        bad = (r, x.id, p)
        ctx.check(bad is None, drel, bad[0].ast if bad else fn, f'{cname}.{meth}', f'{cname}.{meth} hands back syntax it built, never the function it was given',
                  f'`return {bad[1] if bad else ""}` hands the caller\'s own function back: a rewriter that then edits "its copy" in place edits the original '
                  '(one-level inlining of a callee with nothing to rename turns the callee\'s `return e` into `t = e`, and every later call of the callee fails)',
                  path=describe_path(bad[2], drel) if bad else None)
        checked_apply[key] = bad is None
        return bad is None

    def fresh_value(rel: str, v: ast.AST) -> bool:
        if not isinstance(v, ast.Call):
            return False
        n = call_name(v) or ''
        if n in L.classes or n.startswith(('self._visit_', 'super()._visit_')):
            return True
        head, _, meth = n.rpartition('.')
        if head and meth.startswith('apply') and '.' not in head:
            res = repo.resolve(rel, head)
            if res is not None and isinstance(repo.defnode(res), ast.ClassDef):
                return apply_is_fresh(res[0], head, meth)
        return False

    n_helpers = 0
    for rel in sorted(repo.modules):
        if not rel.startswith(REWRITE_PREFIXES):
            continue
        fns = dict(repo.functions(rel))
        for q, fn in fns.items():
            typed = node_typed(fn)
            if not typed:
                continue
            cfg = CFG(fn)
            stored: set[str] = set()
            for node in cfg.nodes_of('stmt'):
                a = node.ast
                roots = []
                for t in (a.targets if isinstance(a, ast.Assign) else [a.target] if isinstance(a, (ast.AugAssign, ast.AnnAssign)) else []):
                    roots += [_root_name(x) for x in ast.walk(t) if isinstance(x, (ast.Attribute, ast.Subscript)) and isinstance(x.ctx, ast.Store)]
                for k in calls_in(a):
                    if isinstance(k.func, ast.Attribute) and k.func.attr in MUTATORS and isinstance(k.func.value, (ast.Attribute, ast.Subscript)):
                        roots.append(_root_name(k.func.value))
                for r in roots:
                    # the parameter still denotes the caller's node here unless it was rebound on every path
                    if r in typed and find_path(cfg, cfg.entry, node, avoid=lambda n, nm=r: n in assigns_to(cfg, nm)) is not None:
                        stored.add(r)
            if not stored:
                continue
            n_helpers += 1
            pos = {a.arg: i for i, a in enumerate(x for x in fn.args.args if x.arg not in ('self', 'cls'))}
            short = q.split('.')[-1]
            # call sites in the module (plain name, or self.<name> for a method)
            for q2, f2 in fns.items():
                cfg2 = None
                for k in calls_in(f2):
                    if call_name(k) not in (short, f'self.{short}'):
                        continue
                    for p_ in stored:
                        arg = k.args[pos[p_]] if pos[p_] < len(k.args) else next((kw.value for kw in k.keywords if kw.arg == p_), None)
                        root = _root_name(arg) if arg is not None else None
                        if f2 is fn:
                            alias = {p_}
                            for _ in range(4):
                                for s in ast.walk(fn):
                                    if isinstance(s, ast.Assign) and len(s.targets) == 1 and isinstance(s.targets[0], ast.Name) \
                                            and isinstance(s.value, (ast.Name, ast.Attribute, ast.Subscript)) and _root_name(s.value) in alias:
                                        alias.add(s.targets[0].id)
                            if root in alias:
                                continue            # the helper recursing into the node it was handed
                        if root is None:
                            ctx.bad(rel, k, q2, f'{norm(k)[:60]}', f'`{short}` edits its `{p_}` in place and is handed a value that is not a local of the caller')
                            continue
                        cfg2 = cfg2 or CFG(f2)
                        site = next((n for n in cfg2.nodes if n.ast is not None and n.kind in ('stmt', 'return', 'test') and any(x is k for x in ast.walk(n.ast))), None)
                        if site is None:
                            raise ShapeError(f'{q2}: call site of {short} not in the flow graph')
                        defs = assigns_to(cfg2, root)
                        stale = [d for d in defs if not fresh_value(rel, d.ast.value)]      # type: ignore
                        fresh = [d for d in defs if d not in stale]
                        p = find_path(cfg2, cfg2.entry, site, avoid=lambda n: n in fresh)
                        for d in stale:
                            p = p or find_path(cfg2, d, site, avoid=lambda n: n in fresh)
                        ctx.check(p is None and bool(fresh), rel, k, q2, f'`{short}({norm(arg)[:30]}, ..)` edits in place syntax that `{q2.split(".")[-1]}` rebuilt first',
                                  f'`{root}` can reach the call still denoting syntax the pass did not build (a callee\'s own body, the function being transformed): '
                                  'the edit shows through to every holder of that function', path=describe_path(p, rel) if p else None)
    if n_helpers < 1:
        raise ShapeError('no in-place editing helper found among the rewriters (expected at least FuncInline._replace_ret)')
    # the same for what a pass accumulates into: a set / dict / list it grows during the walk is its own copy, not the
    # one hanging off the function (or analysis) it was given -- `self.free_vars = func.free_vars` followed by
    # `self.free_vars |= callee.free_vars` writes the callee's captured names into the caller's own metadata
    n_acc = 0
    for rel in sorted(repo.modules):
        if not rel.startswith(REWRITE_PREFIXES):
            continue
        for cname, cdef in repo.classes(rel):
            init = next((s for s in cdef.body if isinstance(s, ast.FunctionDef) and s.name == '__init__'), None)
            if init is None:
                continue
            params = set(param_names(init)) - {'self'}
            shared: dict[str, ast.Assign] = {}
            for s in walk_no_nested(init):
                if isinstance(s, ast.Assign) and len(s.targets) == 1 and isinstance(s.targets[0], ast.Attribute) and dotted(s.targets[0].value) == 'self' \
                        and isinstance(s.value, (ast.Name, ast.Attribute)) and _root_name(s.value) in params:
                    shared[s.targets[0].attr] = s
            if not shared:
                continue
            for m in [s for s in cdef.body if isinstance(s, ast.FunctionDef)]:
                for node in ast.walk(m):
                    hit = None
                    if isinstance(node, ast.AugAssign) and dotted(node.target) in {f'self.{a}' for a in shared}:
                        hit = dotted(node.target).split('.')[1]
                    elif isinstance(node, (ast.Assign, ast.AugAssign)):
                        for t in (node.targets if isinstance(node, ast.Assign) else [node.target]):
                            if isinstance(t, ast.Subscript) and dotted(t.value) in {f'self.{a}' for a in shared}:
                                hit = dotted(t.value).split('.')[1]
                    elif isinstance(node, ast.Call) and isinstance(node.func, ast.Attribute) and node.func.attr in MUTATORS and dotted(node.func.value) in {f'self.{a}' for a in shared}:
                        hit = dotted(node.func.value).split('.')[1]
                    if hit is not None:
                        n_acc += 1
                        src = shared[hit]
                        ctx.bad(rel, node, f'{cname}.{m.name}', f'`{norm(node)[:60]}` grows `self.{hit}`',
                                f'`self.{hit}` is `{norm(src.value)}` itself (set in __init__ without a copy): the walk writes into the object it was handed -- after '
                                'inlining, the original function lists its callees\' captured names as its own and fails with KeyError the next time it is called')
    ctx.note(f'{n_acc} in-place updates of attributes that alias a constructor argument')


def g1_captured_state(ctx: Ctx):
    """Captured containers live in the cached namespace: re-materialised per evaluation, or stores into them rejected."""
    repo = ctx.repo
    comp = ctx.fn(BYTE, 'BytecodeCompiler.compile')
    t = norm(comp, 100000)
    caches_ns = 'namespace[name] = to_value(self.env[name])' in t and 'return namespace[self.func.name]' in t
    ctx.check(caches_ns, BYTE, comp, 'BytecodeCompiler.compile', 'premise: captured values are placed in the namespace of the compiled (cached) function', 'compile changed: re-derive the premise')
    ev = ctx.fn(BYTE, 'BytecodeInterpreter.eval')
    loops = [s for s in walk_no_nested(ev) if isinstance(s, ast.For) and norm(s.iter) == 'func.ast.free_vars']
    refreshed = False
    # the container kinds a captured value can be once converted: the `case` arms of to_value that rebuild
    tv = repo.func('fpy2/interpret/value.py', 'to_value')
    kinds: set[str] = set()
    for m in [s for s in walk_no_nested(tv) if isinstance(s, ast.Match)]:
        for c in m.cases:
            body = ' '.join(norm(s) for s in c.body)
            if 'to_value(x) for x in arg' in body:
                kinds |= {dotted(p.cls) or '' for p in ast.walk(c.pattern) if isinstance(p, ast.MatchClass)}
    if not kinds:
        raise ShapeError('to_value: no container arm found')
    # the captured containers are converted afresh for this call: a mapping built from `func.ast.free_vars`
    comps = [s for s in walk_no_nested(ev) if isinstance(s, ast.Assign) and isinstance(s.value, ast.DictComp)
             and any(norm(g.iter) == 'func.ast.free_vars' for g in s.value.generators)]
    parents = parent_map(ev)
    fresh_name = None
    for st in comps:
        dc = st.value
        refreshed = isinstance(dc.value, ast.Call) and call_name(dc.value) == 'to_value' and 'func.env[' in norm(dc.value)
        gs = [norm(g) for g, arm in guards_of(ev, st, parents)]
        # must not be conditional on `convert` or on a cache miss
        refreshed = refreshed and not any('convert' in g or 'func_cache' in g for g in gs)
        # which kinds of captured value the filter lets through, read from its source: every kind of *data* a captured
        # value can be once converted (the arms of to_value) -- the containers, or a store into one persists across calls;
        # the scalars and contexts, or a name rebound since the first evaluation is read stale by a function that was
        # evaluated before and fresh by one that was not
        from ..minipy import Interp, Obj
        data_kinds = set(kinds)
        for m in [s for s in walk_no_nested(tv) if isinstance(s, ast.Match)]:
            for c in m.cases:
                if c.guard is None and any(isinstance(s, ast.Return) for s in c.body):
                    data_kinds |= {dotted(p.cls) or '' for p in ast.walk(c.pattern) if isinstance(p, ast.MatchClass)}
        data_kinds -= {'RealFloat', 'int', 'float'}          # converted to Float.  (A wrapped foreign object counts: a helper function rebound since is a stale value like any other)
        native = {'list': [], 'tuple': (), 'bool': True}
        for g in [f for gen in dc.generators for f in gen.ifs]:
            missed = []
            for kind in sorted(data_kinds):
                held = native.get(kind, Obj(kind))
                it = Interp({}, {}, is_a=lambda k, c: k == c)
                try:
                    ok_kind = bool(it.ev(g, {'fn': Obj('function', __globals__={'v': held}), 'var': 'v', 'str': str}))
                except ShapeError:
                    ok_kind = False
                if not ok_kind:
                    missed.append(kind)
            covered = not missed
            ctx.check(covered, BYTE, g, 'BytecodeInterpreter.eval', f'the per-call refresh covers every kind of data a captured value can be ({sorted(data_kinds)})',
                      f'filter `{norm(g)}` leaves {missed} as the first evaluation found them: a store into a captured container persists across calls, and after `K = 3.0` '
                      'a function evaluated before the rebinding still multiplies by 2.0 while its never-evaluated twin multiplies by 3.0')
            refreshed = refreshed and covered
        if refreshed and isinstance(st.targets[0], ast.Name):
            fresh_name = st.targets[0].id
    # ... and the call runs in a namespace of its own holding them: the shared (cached) namespace is never written, and
    # the function object that is called is a new one over `{**fn.__globals__, **<fresh>}`
    shared_writes = [s for s in ast.walk(ev) if isinstance(s, (ast.Assign, ast.AugAssign)) and any('__globals__' in norm(t) for t in (s.targets if isinstance(s, ast.Assign) else [s.target]))]
    ctx.check(not shared_writes, BYTE, shared_writes[0] if shared_writes else ev, 'BytecodeInterpreter.eval', 'an evaluation never writes the namespace of the cached compiled function',
              'the captured lists of one evaluation are placed where every other evaluation of the function reads them: nested through a primitive, or on two threads, '
              'f(x): TBL[0] = x; y = hook(x); return TBL[0] + y returns 105 for x = 5 when hook evaluates f(100) in between')
    own_ns = False
    if fresh_name is not None:
        for k in calls_in(ev):
            if call_name(k) in ('types.FunctionType', 'FunctionType') and len(k.args) >= 2 and norm(k.args[0]) == 'fn.__code__' and isinstance(k.args[1], ast.Dict):
                spreads = [norm(v) for kk, v in zip(k.args[1].keys, k.args[1].values) if kk is None]
                # built whenever there is something captured (and under no other condition), and it is what gets called
                gs = [norm(g) for g, arm in guards_of(ev, k, parents) if arm in ('then', 'else')]
                holder = next((s for s in ast.walk(ev) if isinstance(s, ast.Assign) and s.value is k and isinstance(s.targets[0], ast.Name)), None)
                rebound = holder is not None and any(isinstance(s, ast.Assign) and norm(s) == f'fn = {holder.targets[0].id}' for s in ast.walk(ev))
                own_ns = spreads == ['fn.__globals__', fresh_name] and gs in ([], [fresh_name]) and rebound
    kw = any(isinstance(s, ast.Assign) and norm(s) == 'call.__kwdefaults__ = fn.__kwdefaults__' for s in ast.walk(ev))
    ctx.check(refreshed and own_ns and kw, BYTE, ev, 'BytecodeInterpreter.eval', 'a call that captures containers runs as a new function object over its own copy of the namespace, with the fresh containers on top',
              'not found: evaluations of one function share its captured lists')
    # alternative: the front end rejects stores into captured variables
    sc = repo.func('fpy2/analysis/syntax_check.py', 'SyntaxCheckInstance._visit_indexed_assign')
    rejects = any(isinstance(s, ast.If) and 'free_vars' in norm(s.test) and any(isinstance(b, ast.Raise) for b in s.body) for s in walk_no_nested(sc))
    ctx.check(refreshed or rejects, BYTE, ev, 'BytecodeInterpreter.eval', 'captured containers are re-materialised on every evaluation (or stores into them are rejected)',
              'a store into a captured list persists in the cached namespace: f(1.0) returns 2, 3, 4 on successive calls')
    # the active context is a parameter of the compiled function (never module state): shared with C04.F1
    vf = ctx.fn(BYTE, 'BytecodeCompiler._visit_function')
    ctx.check('ctx_arg = pyast.arg(arg=CTX_NAME' in norm(vf, 100000), BYTE, vf, 'BytecodeCompiler._visit_function', 'the active context is a parameter (a local) of compiled code', 'changed')
    mk = ctx.fn(BYTE, 'make_namespace')
    ctx.check('namespace = {' in norm(mk, 100000) and 'return namespace' in norm(mk, 100000), BYTE, mk, 'make_namespace', 'each compiled function gets a namespace of its own', 'namespace shared between functions')
    # MPFR settings: one scoped context manager, nothing else touches the gmpy2 context
    fn = ctx.fn(GMPUTILS, '_mpfr_call_with_prec')
    withs = [s for s in walk_no_nested(fn) if isinstance(s, ast.With)]
    ctx.check(len(withs) == 1 and call_name(withs[0].items[0].context_expr) == 'gmp.context', GMPUTILS, fn, '_mpfr_call_with_prec', 'MPFR precision/rounding set with a scoped `with gmp.context(...)`', 'changed')
    bad = []
    for rel in sorted(repo.modules):
        for k in calls_in(repo.modules[rel].tree):
            cn = call_name(k) or ''
            if cn in ('gmp.set_context', 'gmpy2.set_context', 'gmp.get_context', 'gmpy2.get_context') or cn.endswith('.precision') and 'get_context' in cn:
                bad.append((rel, k.lineno, cn))
        for n in ast.walk(repo.modules[rel].tree):
            if isinstance(n, ast.Attribute) and isinstance(n.ctx, ast.Store) and isinstance(n.value, ast.Call) and (call_name(n.value) or '').endswith('get_context'):
                bad.append((rel, n.lineno, 'get_context().attr = ...'))
    ctx.check(not bad, GMPUTILS, None, 'fpy2', 'no module changes the ambient gmpy2 context', f'ambient MPFR settings touched at {bad}')


EXPLANATION = (
    'Effect analysis over the whole package (ast only, flow-insensitive, exhaustive over the 164 modules). Decided: (E1) every write to '
    'a module global or module-level container is a write-once lazy initialisation, a listed configuration setter that nothing in the '
    'package calls outside import time, or a listed source-text cache; the engine registry is filled at import only; (E1b) no method '
    'of a long-lived object (interpreters, engines, contexts, formats, Function, Primitive, Float, RealFloat) writes self outside '
    '__init__, except the compiled-code cache keyed by the FuncDef object, which hashes by identity; (E2) no function of the '
    'evaluation modules stores into (an alias of) a parameter except the language\'s own list store; flag setters are applied only '
    'to values created in the same function; (P1) to_value rebuilds lists/tuples, from_value always rebuilds containers, eval '
    'converts in and out when called from Python; (G1) captured containers are re-materialised on every evaluation, the active '
    'context is a parameter of compiled code, namespaces are per function, MPFR settings are scoped and the ambient gmpy2 context is '
    'never touched. NOT decided: thread-safety of gmpy2/CPython themselves, Python-level mutation of captured objects between calls.'
)
ASSUMPTIONS = ['gmpy2 contexts entered with `with` are thread-local', 'CPython dict/list operations on distinct objects do not interfere']

RULES = [
    Rule('C18.E1', 'process-wide state: only lazy initialisation, import-time configuration and source caches are written', e1_process_state, 25, 'E'),
    Rule('C18.E1b', 'long-lived objects do not write their own state after construction (cache keyed by FuncDef identity excepted)', e1b_object_state, 3, 'E'),
    Rule('C18.E2', 'evaluation code never stores into an object it was handed', e2_parameter_mutation, 700, 'E'),
    Rule('C18.E3', 'MPFR values are built and MPFR operations run only under a context the library sets (no ambient gmpy2 precision, rounding or exponent range)', g2_mpfr_context, 20, 'E'),
    Rule('C18.E4', 'a rewriter edits in place only syntax it rebuilt; the rebuilding call never hands back its argument', e4_rewriters_store_into_their_own_syntax, 2, 'E'),
    Rule('C18.P1', 'the Python boundary rebuilds containers in both directions', p1_boundary, 8, 'P'),
    Rule('C18.G1', 'captured containers re-materialised per call; context is a local; MPFR settings scoped', g1_captured_state, 6, 'G,E'),
]

from ..selftest import Mutant  # noqa: E402

MUTANTS = [
    Mutant('inliner-grows-the-free-variable-set-it-was-given', 'fpy2/transform/func_inline.py', "        self.free_vars = set(func.free_vars)", "        self.free_vars = func.free_vars", 'C18.E4',
           'seeded change C18e: after inlining, the original function lists its callee\'s captured names and raises KeyError'),
    Mutant('inliner-merges-into-the-environment-it-was-given', 'fpy2/transform/func_inline.py', "        self.env = func.env.copy()", "        self.env = func.env", 'C18.E4',
           'rebinding `self.env = self.env.merge(..)` builds a new environment: nothing of the given one is written', expect='silent'),
    Mutant('rename-with-nothing-to-rename-returns-its-input', 'fpy2/transform/rename_target.py', "        ast = _RenameTargetInstance(func, rename).apply()\n        if not isinstance(ast, FuncDef):",
           "        if not rename:\n            return func\n        ast = _RenameTargetInstance(func, rename).apply()\n        if not isinstance(ast, FuncDef):", 'C18.E4',
           'seeded change C18d: inlining a callee with no locals rewrites the callee\'s own `return`'),
    Mutant('inliner-renames-only-when-there-is-something-to-rename', 'fpy2/transform/func_inline.py', "        ast = RenameTarget.apply(ast, subst)\n", "        if subst:\n            ast = RenameTarget.apply(ast, subst)\n", 'C18.E4'),
    Mutant('lifted-bindings-stored-into-the-given-function', 'fpy2/transform/lift_context.py', "        func = super()._visit_function(func, ctx)\n        # prepend variable bindings", "        super()._visit_function(func, ctx)\n        # prepend variable bindings", 'C18.E4'),
    Mutant('captured-tuples-not-refreshed', BYTE, "            for var in func.ast.free_vars\n        }\n", "            for var in func.ast.free_vars\n            if isinstance(fn.__globals__.get(str(var)), list)\n        }\n", 'C18.G1',
           'seeded change C18a: a store into a list held by a captured tuple survives the call'),
    Mutant('captured-helpers-as-first-found', BYTE, "            for var in func.ast.free_vars\n        }\n", "            for var in func.ast.free_vars\n            if not isinstance(fn.__globals__.get(str(var)), Foreign)\n        }\n", 'C18.G1',
           'finding F120 before its repair: after helper = plus_hundred a function evaluated before still calls plus_one'),
    Mutant('captured-scalars-as-first-found', BYTE, "            for var in func.ast.free_vars\n        }\n", "            for var in func.ast.free_vars\n            if isinstance(fn.__globals__.get(str(var)), list | tuple)\n        }\n", 'C18.G1',
           'finding F88 before its repair: after K = 3.0 a function evaluated before multiplies by 2.0, its never-evaluated twin by 3.0'),
    Mutant('active-context-in-global', BYTE, "        ctx = self._func_ctx(func.ast, ctx)\n        if convert:", "        global _ACTIVE_CTX\n        _ACTIVE_CTX = ctx = self._func_ctx(func.ast, ctx)\n        if convert:", 'C18.E1'),
    Mutant('engine-registered-lazily', 'fpy2/ops.py', "def _normalize(x: Float | Fraction, ctx: Context, args: tuple[Float | Fraction, ...] = ()):\n", "def _normalize(x: Float | Fraction, ctx: Context, args: tuple[Float | Fraction, ...] = ()):\n    from .number.engine import register_engine, RealEngine\n    register_engine(RealEngine.instance())\n", 'C18.E1'),
    Mutant('memo-table', 'fpy2/number/context/context.py', "    def _round_prepare(self, x) -> RealFloat | Float:", "    _memo: dict = {}\n\n    def _round_prepare(self, x) -> RealFloat | Float:\n        self._last = x", 'C18.E1b'),
    Mutant('interpreter-remembers-context', BYTE, "        ctx = self._func_ctx(func.ast, ctx)\n        if convert:", "        ctx = self._func_ctx(func.ast, ctx)\n        self.ctx = ctx\n        if convert:", 'C18.E1b'),
    Mutant('cache-by-name', BYTE, "        if func.ast in self.func_cache:\n            fn = self.func_cache[func.ast]\n        else:\n            compiler = BytecodeCompiler(func.ast, func.env)\n            fn = compiler.compile()\n            self.func_cache[func.ast] = fn",
           "        if func.name in self.func_cache:\n            fn = self.func_cache[func.name]\n        else:\n            compiler = BytecodeCompiler(func.ast, func.env)\n            fn = compiler.compile()\n            self.func_cache[func.name] = fn", 'C18.E1b'),
    Mutant('round-flags-operand', 'fpy2/number/context/mp_float.py', "        xr = x.round(self.pmax, n, self.rm, self.num_randbits, rng=self.rng, exact=exact)", "        xr = x.round(self.pmax, n, self.rm, self.num_randbits, rng=self.rng, exact=exact)\n        x._flags._set_inexact(xr.inexact)", 'C18.E2'),
    Mutant('sum-accumulates-in-place', BYTE, "        accum = val[0]\n        for x in val[1:]:", "        accum = val[0]\n        val[0] = accum\n        for x in val[1:]:", 'C18.E2'),
    Mutant('args-not-copied', VALUE, "        case list():\n            return [to_value(x) for x in arg]", "        case list():\n            return arg", 'C18.P1'),
    Mutant('tuple-of-values-handed-through', VALUE, "        case tuple():\n            return tuple(to_value(x) for x in arg)",
           "        case tuple() if all(isinstance(v, Float | list) for v in arg):\n            return arg\n        case tuple():\n            return tuple(to_value(x) for x in arg)", 'C18.P1',
           'seeded change C18c: a guarded fast path for tuples'),
    Mutant('list-shallow-copy', VALUE, "            return [to_value(x) for x in arg]", "            return list(arg)", 'C18.P1'),
    Mutant('tuple-rebuilt-as-list-comprehension', VALUE, "            return tuple(to_value(x) for x in arg)", "            return tuple([to_value(v) for v in arg])", 'C18.P1',
           'same table, another spelling', expect='silent'),
    Mutant('result-shared', VALUE, "    if isinstance(x, list | tuple):\n        # always a fresh container: the value may be one the interpreter keeps\n        # (a captured list in a cached namespace), and the caller is free to\n        # mutate what it is handed\n        return _cvt_boundary(x)\n", "", 'C18.P1',
           'the defect repaired by the fix: commit'),
    Mutant('captured-list-kept', BYTE, "        if captured:\n            call = types.FunctionType(", "        if False:\n            call = types.FunctionType(", 'C18.G1',
           'finding F15 before its repair (in the shape of the current code): the cached namespace keeps what the last call stored'),
    Mutant('captured-list-refreshed-in-the-shared-namespace', BYTE, "        if captured:\n            call = types.FunctionType(\n                fn.__code__, {**fn.__globals__, **captured},\n                fn.__name__, fn.__defaults__, fn.__closure__,\n            )\n            call.__kwdefaults__ = fn.__kwdefaults__\n            fn = call\n",
           "        for name, value in captured.items():\n            fn.__globals__[name] = value\n", 'C18.G1',
           'finding F64 before its repair: every evaluation of the function under way sees the same lists'),
    Mutant('captured-list-refreshed-only-at-boundary', BYTE, "            for var in func.ast.free_vars\n        }\n",
           "            for var in func.ast.free_vars\n        } if convert else {}\n", 'C18.G1'),
    Mutant('own-namespace-without-the-fresh-lists', BYTE, "                fn.__code__, {**fn.__globals__, **captured},", "                fn.__code__, {**fn.__globals__},", 'C18.G1'),
    Mutant('mpfr-precision-set-globally', GMPUTILS, "    with gmp.context(\n        precision=prec,", "    gmp.get_context().precision = prec\n    with gmp.context(\n        precision=prec,", 'C18.G1'),
]
