"""
Memo tables on the rounding path.

A result computed from (a, b, c) and remembered under a key built from (a, b) is returned, later, for a different c.
The rule finds every table a function both consults and fills -- a module-level or class-level dict, or a dict attribute
of `self` -- and compares two sets: the inputs the stored value was computed from and the inputs the key was built from.
An input of the value that the key does not determine is reported.

Inputs are the function's parameters and the separate results of an unpacked call (`p, n = self.round_params()` gives
two inputs, `p` and `n`: a key holding `p` says nothing about `n`; a key holding `self` determines both).  Other local
names are replaced by what they were computed from.  `self` counts as keyed when the table is an attribute of `self`.

The tree has no such table on the rounding path today, so the rule carries a small example of its own that it must
report on every run (an expected-zero rule that cannot fire proves nothing).
"""
from __future__ import annotations

import ast
from typing import Iterable

from ..core import Ctx
from ..facts import ShapeError, norm

_EXAMPLE = '''
_T: dict = {}
def under_keyed(self, x):
    p, n = self.params()
    key = (x, p)
    hit = _T.get(key)
    if hit is None:
        hit = compute(x, prec=p, n=n)
        _T[key] = hit
    return hit
def keyed(self, x):
    p, n = self.params()
    key = (x, p, n)
    if key not in _T:
        _T[key] = compute(x, prec=p, n=n)
    return _T[key]
'''


def _module_tables(tree: ast.Module) -> set[str]:
    out = set()
    for s in tree.body:
        tgt, val = None, None
        if isinstance(s, ast.Assign) and len(s.targets) == 1 and isinstance(s.targets[0], ast.Name):
            tgt, val = s.targets[0].id, s.value
        elif isinstance(s, ast.AnnAssign) and isinstance(s.target, ast.Name) and s.value is not None:
            tgt, val = s.target.id, s.value
        if tgt and (isinstance(val, ast.Dict) and not val.keys or (isinstance(val, ast.Call) and norm(val.func) in ('dict', 'OrderedDict', 'collections.OrderedDict', 'WeakValueDictionary', 'weakref.WeakValueDictionary') and not val.args)):
            out.add(tgt)
    return out


def _table_name(e: ast.AST, tables: set[str]) -> str | None:
    if isinstance(e, ast.Name) and e.id in tables:
        return e.id
    if isinstance(e, ast.Attribute) and isinstance(e.value, ast.Name) and e.value.id in ('self', 'cls') and ('cache' in e.attr.lower() or 'memo' in e.attr.lower()):
        return f'{e.value.id}.{e.attr}'
    return None


class _Inputs:
    """Flow-insensitive reduction of an expression to the inputs it was computed from."""

    def __init__(self, fn: ast.FunctionDef):
        a = fn.args
        self.params = {x.arg for x in a.posonlyargs + a.args + a.kwonlyargs} | ({a.vararg.arg} if a.vararg else set()) | ({a.kwarg.arg} if a.kwarg else set())
        self.defs: dict[str, list[ast.AST]] = {}
        self.unpacked: dict[str, ast.AST] = {}     # name -> the call it is one component of
        for s in ast.walk(fn):
            if isinstance(s, ast.Assign):
                for t in s.targets:
                    self._bind(t, s.value)
            elif isinstance(s, ast.AnnAssign) and s.value is not None:
                self._bind(s.target, s.value)
            elif isinstance(s, ast.AugAssign):
                self._bind(s.target, s.value)
            elif isinstance(s, (ast.For, ast.comprehension)):
                self._bind(s.target, s.iter)
            elif isinstance(s, ast.NamedExpr):
                self._bind(s.target, s.value)
            elif isinstance(s, ast.withitem) and s.optional_vars is not None:
                self._bind(s.optional_vars, s.context_expr)

    def _bind(self, t: ast.AST, v: ast.AST):
        if isinstance(t, ast.Name):
            self.defs.setdefault(t.id, []).append(v)
        elif isinstance(t, (ast.Tuple, ast.List)):
            for x in t.elts:
                if isinstance(x, ast.Name):
                    self.unpacked[x.id] = v
                else:
                    self._bind(x, v)

    def of(self, e: ast.AST, seen: frozenset = frozenset()) -> set[str]:
        out: set[str] = set()
        for n in ast.walk(e):
            if not (isinstance(n, ast.Name) and isinstance(n.ctx, ast.Load)):
                continue
            out |= self.name(n.id, seen)
        return out

    def name(self, x: str, seen: frozenset = frozenset()) -> set[str]:
        if x in seen:
            return set()
        if x in self.unpacked:
            return {x}
        if x in self.defs:
            out: set[str] = set()
            for v in self.defs[x]:
                out |= self.of(v, seen | {x})
            if x in self.params:
                out.add(x)
            return out
        if x in self.params:
            return {x}
        return set()        # globals, builtins: the same on every call

    def determined(self, x: str, key: set[str]) -> bool:
        """Whether the input `x` is fixed once the inputs in `key` are."""
        if x in key:
            return True
        if x in self.unpacked:
            src = self.of(self.unpacked[x], frozenset({x}))
            return bool(src) and all(self.determined(y, key) for y in src)
        return False


def under_keyed(fn: ast.FunctionDef, tables: set[str]) -> Iterable[tuple[ast.AST, str, list[str], str]]:
    """(store node, table, missing inputs, text) for each under-keyed store of `fn`; also yields complete ones with []."""
    inp = _Inputs(fn)
    read = set()
    for n in ast.walk(fn):
        if isinstance(n, ast.Subscript) and isinstance(n.ctx, ast.Load):
            t = _table_name(n.value, tables)
            if t:
                read.add(t)
        if isinstance(n, ast.Call) and isinstance(n.func, ast.Attribute) and n.func.attr in ('get', 'setdefault', 'pop'):
            t = _table_name(n.func.value, tables)
            if t:
                read.add(t)
        if isinstance(n, ast.Compare) and any(isinstance(o, (ast.In, ast.NotIn)) for o in n.ops):
            for c in n.comparators:
                t = _table_name(c, tables)
                if t:
                    read.add(t)
    stores: list[tuple[ast.AST, str, ast.AST, ast.AST]] = []
    for n in ast.walk(fn):
        if isinstance(n, ast.Assign):
            for tg in n.targets:
                if isinstance(tg, ast.Subscript):
                    t = _table_name(tg.value, tables)
                    if t:
                        stores.append((n, t, tg.slice, n.value))
        if isinstance(n, ast.Call) and isinstance(n.func, ast.Attribute) and n.func.attr == 'setdefault' and len(n.args) == 2:
            t = _table_name(n.func.value, tables)
            if t:
                stores.append((n, t, n.args[0], n.args[1]))
    for node, t, key, val in stores:
        if t not in read:
            continue                      # a registry that is only filled here, not a memo
        k = inp.of(key)
        if t.startswith('self.'):
            k.add('self')
        v = inp.of(val)
        missing = sorted(x for x in v if not inp.determined(x, k))
        yield node, t, missing, f'{t}[{norm(key)}] = {norm(val)}'


def memo_keys_rule(prefixes: tuple[str, ...], what: str):
    """Rule over every function of the modules whose path starts with one of `prefixes`."""

    def rule(ctx: Ctx):
        # the rule's own example first
        ex = ast.parse(_EXAMPLE)
        tabs = _module_tables(ex)
        got = {f.name: [m for _, _, m, _ in under_keyed(f, tabs)] for f in ex.body if isinstance(f, ast.FunctionDef)}
        if got != {'under_keyed': [['n']], 'keyed': [[]]}:
            raise ShapeError(f'memo rule does not read its own example: {got}')
        ctx.ok('sa/props/memo_rules.py', None, '_EXAMPLE', 'the rule reports the under-keyed table of its own example and accepts the fully keyed one')
        n_fn = n_tab = 0
        seen: set[int] = set()
        for rel, m in sorted(ctx.repo.modules.items()):
            if not rel.startswith(prefixes):
                continue
            tabs = _module_tables(m.tree)
            for q, fn in ctx.repo.functions(rel):
                n_fn += 1
                for node, t, missing, text in under_keyed(fn, tabs):
                    if id(node) in seen:
                        continue            # already read as part of the enclosing function
                    seen.add(id(node))
                    n_tab += 1
                    ctx.check(not missing, rel, node, q, f'a remembered result is keyed by every input it was computed from ({what})',
                              f'`{text}`: the value also depends on {", ".join(missing)}, which the key does not determine -- a later call with another {missing[0] if missing else ""} gets the remembered result of this one')
        ctx.note(f'{n_fn} functions read, {n_tab} memo stores found')
        if n_fn < 20:
            raise ShapeError(f'only {n_fn} functions under {prefixes}')
    return rule
