"""
C12 — Translation to and from FPCore preserves meaning.

Decided: the scope of an emitted `!` annotation (the continuation of a `with`
block must not end up inside it unannotated), operator / constant tables of
the writer and the reader are mutually inverse and name the same operations,
rounding-mode / overflow / precision tables, the reader scopes a `!` over
exactly its body and inherits enclosing properties, unsupported constructs are
refused.
"""

from __future__ import annotations

import ast
import itertools

from ..core import Ctx, Rule
from ..dataflow import derived_names
from ..facts import ShapeError, call_name, calls_in, dotted, kwarg, norm, walk_no_nested
from ..lang import lang

BACK = 'fpy2/backend/fpc.py'
FRONT = 'fpy2/frontend/fpc.py'
FCTX = 'fpy2/fpc_context.py'
NUMCTX = 'fpy2/number/context/__init__.py'

# node class -> FPCore operator name, where it is not the lowercased class name
OPNAME_ALIAS = {'Abs': 'fabs', 'RoundInt': 'round', 'NearbyInt': 'nearbyint', 'Add': '+', 'Sub': '-', 'Mul': '*', 'Div': '/',
                'IsFinite': 'isfinite', 'IsInf': 'isinf', 'IsNan': 'isnan', 'IsNormal': 'isnormal'}
CONST_NAMES = {'ConstNan': 'NAN', 'ConstInf': 'INFINITY', 'ConstPi': 'PI', 'ConstE': 'E', 'ConstLog2E': 'LOG2E', 'ConstLog10E': 'LOG10E',
               'ConstLn2': 'LN2', 'ConstPi_2': 'PI_2', 'ConstPi_4': 'PI_4', 'Const1_Pi': 'M_1_PI', 'Const2_Pi': 'M_2_PI',
               'Const2_SqrtPi': 'M_2_SQRTPI', 'ConstSqrt2': 'SQRT2', 'ConstSqrt1_2': 'SQRT1_2'}
ROUND_MODES = {'nearestEven': 'RNE', 'nearestAway': 'RNA', 'toPositive': 'RTP', 'toNegative': 'RTN', 'toZero': 'RTZ', 'awayZero': 'RAZ'}
OVERFLOW_MODES = {'wrap': 'WRAP', 'clamp': 'SATURATE', 'infinity': 'OVERFLOW'}
PRECISIONS = {'binary128': (15, 128), 'binary80': (15, 79), 'binary64': (11, 64), 'binary32': (8, 32), 'binary16': (5, 16)}


def cached_table(repo, rel, fname) -> ast.Dict:
    fn = repo.func(rel, fname)
    dicts = [n for n in ast.walk(fn) if isinstance(n, ast.Dict)]
    if len(dicts) != 1:
        raise ShapeError(f'{fname}: expected one dict literal, found {len(dicts)}')
    return dicts[0]


def opname(cls: str) -> str:
    return OPNAME_ALIAS.get(cls, cls.lower())


# ----------------------------------------------------------------------
# F1 annotation scope (writer)

def f1_annotation_scope(ctx: Ctx):
    q = '_FPCoreCompileInstance._visit_context'
    fn = ctx.fn(BACK, q)
    params = [a.arg for a in fn.args.args]
    k = params[2]
    # summary premise: _visit_block(b, k) and _visit_statement(s, k) return an expression containing k
    vb = ctx.fn(BACK, '_FPCoreCompileInstance._visit_block')
    kb = vb.args.args[2].arg
    contains = any(isinstance(s, ast.Assign) and dotted(s.targets[0]) == 'e' and dotted(s.value) == kb for s in ast.walk(vb))
    ctx.check(contains, BACK, vb, '_FPCoreCompileInstance._visit_block', 'summary: the continuation handed to a block ends up inside the block\'s expression',
              'block compilation changed: re-derive the summary')
    ctxcalls = [c for c in calls_in(fn) if call_name(c) == 'fpc.Ctx']
    if not ctxcalls:
        raise ShapeError('_visit_context no longer builds fpc.Ctx')
    for c in ctxcalls:
        if len(c.args) < 2:
            continue
        wrapped = c.args[1]
        # names the wrapped expression is computed from
        derived = derived_names(fn, lambda n: False, seeds=[k])
        flows = any(isinstance(n, ast.Name) and n.id in derived for n in ast.walk(wrapped))
        if not flows:
            ctx.ok(BACK, c, q, 'the annotation wraps the block body only')
            continue
        # acceptable: the continuation is itself re-annotated (wrapped in an fpc.Ctx restoring the enclosing properties)
        # before it is handed to the body
        reann = False
        from ..cfg import CFG, find_path
        cfg = CFG(fn)
        for call in calls_in(fn):
            if call_name(call) == 'self._visit_block' and len(call.args) >= 2:
                a = call.args[1]
                if isinstance(a, ast.Constant) and a.value is None:
                    reann = True
                elif isinstance(a, ast.Call) and call_name(a) == 'fpc.Ctx':
                    reann = True
                elif isinstance(a, ast.Name):
                    # every path on which a non-None continuation reaches the block visit passes `a = fpc.Ctx(<props>, ...)`
                    C = [n for n in cfg.nodes if n.ast is not None and n.kind in ('stmt', 'return') and any(x is call for x in ast.walk(n.ast))]
                    W = [n for n in cfg.nodes_of('stmt') if isinstance(n.ast, ast.Assign) and dotted(n.ast.targets[0]) == a.id
                         and isinstance(n.ast.value, ast.Call) and call_name(n.ast.value) == 'fpc.Ctx']
                    T = [n for n in cfg.nodes_of('test') if norm(n.ast) == f'{a.id} is not None']
                    if C and W:
                        p = find_path(cfg, cfg.entry, C[0], avoid=lambda n: n in W, edge_ok=lambda n, lab: not (n in T and lab is False))
                        reann = p is None
        ctx.check(reann, BACK, c, q, 'fpc.Ctx(props, <body of the with-block>)',
                  f'the body is compiled with the continuation `{k}` (everything after the with-block) nested inside it, and the whole is wrapped in the '
                  f'`!` annotation: statements after an inner `with` are evaluated under the inner precision and rounding mode')
    # the continuation is re-annotated with the properties of the INNERMOST enclosing context: the top of a stack that
    # is pushed for exactly the extent of the body
    wraps = [s for s in ast.walk(fn) if isinstance(s, ast.Assign) and dotted(s.targets[0]) == k and isinstance(s.value, ast.Call) and call_name(s.value) == 'fpc.Ctx']
    for w in wraps:
        subs = [n for n in ast.walk(w.value.args[0]) if isinstance(n, ast.Subscript) and dotted(n.value) == 'self._enclosing_props']
        top = len(subs) == 1 and isinstance(subs[0].slice, ast.UnaryOp) and isinstance(subs[0].slice.op, ast.USub) \
            and isinstance(subs[0].slice.operand, ast.Constant) and subs[0].slice.operand.value == 1
        ctx.check(top, BACK, w, q, 'the statements after a with-block are annotated with the innermost enclosing context (top of the stack)',
                  f'annotated with `{norm(w.value.args[0])}`: inside a nested `with`, what follows the inner block would run under the function\'s own context instead of the outer block\'s')
    if wraps:
        tries = [s for s in walk_no_nested(fn) if isinstance(s, ast.Try)]
        good = False
        for t in tries:
            body_visits = any(call_name(c) == 'self._visit_block' and norm(c.args[0]) == 'stmt.body' for s in t.body for c in calls_in(s))
            pops = any(norm(s) == 'self._enclosing_props.pop()' for s in t.finalbody)
            idx = fn.body.index(t) if t in fn.body else -1
            pushed = idx > 0 and norm(fn.body[idx - 1]) == 'self._enclosing_props.append(props)'
            good = good or (body_visits and pops and pushed)
        ctx.check(good, BACK, fn, q, 'the block\'s own properties are pushed for exactly the extent of its body (popped in a `finally`)',
                  'push / pop of the enclosing-properties stack is unbalanced: a later continuation would be annotated with a stale context')
        init = ctx.fn(BACK, '_FPCoreCompileInstance.__init__')
        ok = any(isinstance(s, (ast.Assign, ast.AnnAssign)) and 'self._enclosing_props' in norm(s) and '[self._function_props(func)]' in norm(s) for s in ast.walk(init))
        ctx.check(ok, BACK, init, '_FPCoreCompileInstance.__init__', 'the stack starts with the function\'s own context', 'changed')


# ----------------------------------------------------------------------
# T1 operator tables

def t1_operator_tables(ctx: Ctx):
    repo = ctx.repo
    L = lang(repo)
    back = {}
    for fname, cat in (('_get_unary_table', 'UnaryOp'), ('_get_binary_table', 'BinaryOp'), ('_get_ternary_table', 'TernaryOp'), ('_get_nary_table', 'NaryOp')):
        d = cached_table(repo, BACK, fname)
        for kk, v in zip(d.keys, d.values):
            node, fcls = dotted(kk), dotted(v)
            if node is None or fcls is None or not fcls.startswith('fpc.'):
                raise ShapeError(f'{fname}: row {norm(kk)}: {norm(v)}')
            back[node] = (fcls[4:], cat, kk)
            want = opname(node)
            got = fcls[4:].lower()
            got = {'add': '+', 'sub': '-', 'mul': '*', 'div': '/'}.get(got, got)
            ctx.check(got == want and L.arity_category(node) == cat, BACK, kk, fname, f'{node} -> {fcls}',
                      f'FPCore operator `{got}` for node {node} (expected `{want}`, a {L.arity_category(node)})')
    front = {}
    for fname, cat in (('_get_unary_table', 'UnaryOp'), ('_get_binary_table', 'BinaryOp'), ('_get_ternary_table', 'TernaryOp')):
        d = cached_table(repo, FRONT, fname)
        for kk, v in zip(d.keys, d.values):
            if not (isinstance(kk, ast.Constant) and isinstance(v, ast.Name)):
                raise ShapeError(f'{fname}: row {norm(kk)}: {norm(v)}')
            front[kk.value] = (v.id, cat, kk)
            special = {'range': 'Range1'}
            want = special.get(kk.value)
            if want is None:
                ctx.check(opname(v.id) == kk.value and L.arity_category(v.id) == cat, FRONT, kk, fname, f"'{kk.value}' -> {v.id}",
                          f'operator `{kk.value}` read as {v.id} (whose FPCore name is `{opname(v.id)}`)')
            else:
                ctx.check(v.id == want, FRONT, kk, fname, f"'{kk.value}' -> {v.id}", f'expected {want}')
    # mutual inverse on the common domain
    for node, (fcls, cat, at) in back.items():
        name = opname(node)
        if name in front:
            ctx.check(front[name][0] == node, BACK, at, 'writer o reader', f'{node} -> {name} -> {front[name][0]}', 'writing then reading an operator yields a different operation')
    # constants
    d = cached_table(repo, BACK, '_get_nullary_table')
    bconst = {}
    for kk, v in zip(d.keys, d.values):
        node = dotted(kk)
        val = v.args[0].value if isinstance(v, ast.Call) and call_name(v) == 'fpc.Constant' and v.args and isinstance(v.args[0], ast.Constant) else None
        bconst[node] = val
        ctx.check(CONST_NAMES.get(node or '') == val, BACK, kk, '_get_nullary_table', f'{node} -> {val}', f'expected {CONST_NAMES.get(node or "")}')
    d = cached_table(repo, FRONT, '_get_constants')
    for kk, v in zip(d.keys, d.values):
        name = kk.value if isinstance(kk, ast.Constant) else None
        node = call_name(v)
        if name in ('TRUE', 'FALSE'):
            good = node == 'BoolVal' and isinstance(v.args[0], ast.Constant) and v.args[0].value is (name == 'TRUE')  # type: ignore
            ctx.check(good, FRONT, kk, '_get_constants', f'{name} -> {norm(v)}', 'boolean constant inverted')
            continue
        ctx.check(CONST_NAMES.get(node or '') == name, FRONT, kk, '_get_constants', f'{name} -> {node}', f'constant {name} read as {node}')


# ----------------------------------------------------------------------
# T2 context property tables

def t2_context_tables(ctx: Ctx):
    repo = ctx.repo
    from ..tables import module_dict
    d = module_dict(repo, FCTX, '_round_mode')
    got = {kk.value: (dotted(v) or '').split('.')[-1] for kk, v in zip(d.keys, d.values) if isinstance(kk, ast.Constant)}
    for name, rm in ROUND_MODES.items():
        ctx.check(got.get(name) == rm, FCTX, d, '_round_mode', f'{name} -> {got.get(name)}', f'expected {rm}')
    ctx.check(set(got) == set(ROUND_MODES), FCTX, d, '_round_mode', 'exactly the FPCore rounding modes', f'extra {sorted(set(got) - set(ROUND_MODES))}')
    d = module_dict(repo, FCTX, '_overflow_mode')
    got = {kk.value: (dotted(v) or '').split('.')[-1] for kk, v in zip(d.keys, d.values) if isinstance(kk, ast.Constant)}
    for name, ov in OVERFLOW_MODES.items():
        ctx.check(got.get(name) == ov, FCTX, d, '_overflow_mode', f'{name} -> {got.get(name)}', f'expected {ov}')
    for fname, table in (('_round_mode_from_fpc', '_round_mode'), ('_overflow_mode_from_fpc', '_overflow_mode')):
        fn = ctx.fn(FCTX, fname)
        t = norm(fn, 4000)
        ctx.check('{v: k for k, v in ' + table + '.items()}' in t, FCTX, fn, fname, f'inverse of {table} by construction', 'inversion changed')
    # precision shorthands: writer and reader agree on (es, nbits)
    fc = ctx.fn(FCTX, 'FPCoreContext.from_context')
    wrote = {}
    for m in [n for n in ast.walk(fc) if isinstance(n, ast.Match) and norm(n.subject) == '(ctx.es, ctx.nbits)']:
        for c in m.cases:
            if isinstance(c.pattern, ast.MatchSequence) and all(isinstance(p, ast.MatchValue) for p in c.pattern.patterns):
                key = tuple(p.value.value for p in c.pattern.patterns)  # type: ignore
                ret = c.body[0].value if isinstance(c.body[0], ast.Return) else None
                prec = kwarg(ret, 'precision') if isinstance(ret, ast.Call) else None
                if isinstance(prec, ast.Constant):
                    wrote[prec.value] = key
                    ctx.check(norm(kwarg(ret, 'round') or '') == 'rm', FCTX, c.pattern, 'FPCoreContext.from_context', f'{key} -> {prec.value} with its rounding mode', 'rounding mode not written')
    for name, pair in PRECISIONS.items():
        ctx.check(wrote.get(name) == pair, FCTX, fc, 'FPCoreContext.from_context', f'{pair} -> {name}', f'writer maps {wrote.get(name)} to {name}')
    tc = ctx.fn(FCTX, 'FPCoreContext.to_context')
    consts = {'FP128': (15, 128), 'FP64': (11, 64), 'FP32': (8, 32), 'FP16': (5, 16)}
    # the named constants really are those formats
    for cname, pair in consts.items():
        node = repo.module(NUMCTX).toplevel().get(cname)
        v = getattr(node, 'value', None)
        good = isinstance(v, ast.Call) and call_name(v) == 'IEEEContext' and [norm(a) for a in v.args[:2]] == [str(pair[0]), str(pair[1])]
        ctx.check(good, NUMCTX, node, cname, f'{cname} = IEEEContext{pair}', f'got {norm(v) if v is not None else None}')
    read = {}
    for m in [n for n in ast.walk(tc) if isinstance(n, ast.Match) and norm(n.subject) == 'prec']:
        for c in m.cases:
            if isinstance(c.pattern, ast.MatchValue) and isinstance(c.pattern.value, ast.Constant):
                ret = c.body[0].value if isinstance(c.body[0], ast.Return) else None
                read[c.pattern.value.value] = norm(ret) if ret is not None else None
    want_read = {'binary128': 'FP128.with_params(rm=_round_mode_to_fpy(rnd))', 'binary80': 'IEEEContext(15, 79, _round_mode_to_fpy(rnd))',
                 'binary64': 'FP64.with_params(rm=_round_mode_to_fpy(rnd))', 'binary32': 'FP32.with_params(rm=_round_mode_to_fpy(rnd))',
                 'binary16': 'FP16.with_params(rm=_round_mode_to_fpy(rnd))', 'integer': 'INTEGER.with_params(rm=_round_mode_to_fpy(rnd))', 'real': 'REAL'}
    for name, w in want_read.items():
        ctx.check(read.get(name) == w, FCTX, tc, 'FPCoreContext.to_context', f'{name} -> {read.get(name)}', f'expected {w}')
    # defaults follow the FPCore standard
    t = norm(tc, 100000)
    ctx.check("prec = self.props.get('precision', 'binary64')" in t and "rnd = self.props.get('round', 'nearestEven')" in t, FCTX, tc, 'FPCoreContext.to_context',
              'defaults: binary64, nearestEven', 'defaults changed')
    # (fixed scale nbits): same field order written, read, and handed to the constructor
    w = [n for n in ast.walk(fc) if isinstance(n, ast.List) and n.elts and isinstance(n.elts[0], ast.Constant) and n.elts[0].value == 'fixed']
    wrote_order = [norm(e).split('.')[-1] for e in w[0].elts[1:]] if w else None
    r_order = None
    ctor_args = None
    for m in [n for n in ast.walk(tc) if isinstance(n, ast.Match)]:
        for c in m.cases:
            if isinstance(c.pattern, ast.MatchSequence) and c.pattern.patterns and isinstance(c.pattern.patterns[0], ast.MatchValue) \
                    and getattr(c.pattern.patterns[0].value, 'value', None) == 'fixed':
                r_order = [p.name for p in c.pattern.patterns[1:] if isinstance(p, ast.MatchAs)]
                ret = c.body[0].value if isinstance(c.body[0], ast.Return) else None
                if isinstance(ret, ast.Call) and call_name(ret) == 'FixedContext':
                    ctor_args = [norm(a) for a in ret.args[:3]]
    init = repo.methods('fpy2/number/context/fixed.py', 'FixedContext')['__init__'][2]
    sig = [a.arg for a in init.args.args][1:4]
    good = wrote_order == ['scale', 'nbits'] and r_order is not None and ctor_args is not None \
        and ctor_args == ['True'] + [f'int({sig[1 + i]})' for i in range(2)] and sig == ['signed', 'scale', 'nbits'] \
        and r_order == ['scale', 'nbits']
    ctx.check(good, FCTX, fc, 'FPCoreContext', '(fixed scale nbits): written, read and constructed in the same field order',
              f'written {wrote_order}, read {r_order}, constructor called with {ctor_args} for signature {sig}')
    # contexts FPCore cannot name are refused
    mfx = [c for m in [n for n in ast.walk(fc) if isinstance(n, ast.Match) and norm(n.subject) == 'ctx'] for c in m.cases
           if isinstance(c.pattern, ast.MatchClass) and dotted(c.pattern.cls) == 'MPFixedContext']
    good = False
    if mfx:
        ifs = [s for s in mfx[0].body if isinstance(s, ast.If) and norm(s.test) == 'ctx.nmin == -1']
        good = len(ifs) == 1 and any(isinstance(s, ast.Raise) for s in ifs[0].orelse) and not any(isinstance(s, ast.Return) for s in ifs[0].orelse)
    ctx.check(good, FCTX, fc, 'FPCoreContext.from_context', 'an unbounded fixed-point format other than `integer` is refused', 'a property FPCore does not define is written instead')
    default = [c for m in [n for n in ast.walk(fc) if isinstance(n, ast.Match) and norm(n.subject) == 'ctx'] for c in m.cases
               if isinstance(c.pattern, ast.MatchAs) and c.pattern.pattern is None and c.guard is None]
    ctx.check(len(default) == 1 and isinstance(default[0].body[0], ast.Raise), FCTX, fc, 'FPCoreContext.from_context', 'any other context is refused', 'default arm changed')
    # a parameter of the context that FPCore has no spelling for is not dropped: with random bits, or (for a float
    # format, whose :precision always overflows to the infinity) another overflow mode, no core is produced
    from ..cfg import CFG, describe_path, find_path
    cfg = CFG(fc)
    stoch = [t for t in cfg.nodes_of('test') if norm(t.ast) == 'ctx.is_stochastic()']
    ov = [t for t in cfg.nodes_of('test') if norm(t.ast) in ('ctx.overflow is not OV.OVERFLOW', 'ctx.overflow is not OverflowMode.OVERFLOW')]
    ieee_arm = [c for m in [n for n in ast.walk(fc) if isinstance(n, ast.Match) and norm(n.subject) == 'ctx'] for c in m.cases
                if isinstance(c.pattern, ast.MatchClass) and dotted(c.pattern.cls) == 'IEEEContext']
    inside = {id(x) for c in ieee_arm for x in ast.walk(c)}
    ieee_rets = [r for r in cfg.returns() if id(r.ast) in inside]
    if not ieee_rets:
        raise ShapeError('from_context: the IEEE returns were not found')
    bad = None
    for r in cfg.returns():
        p = find_path(cfg, cfg.entry, r, edge_ok=lambda n, lab: not (n in stoch and lab is False))
        if (p is not None or not stoch) and bad is None:
            bad = (r, p)
    ctx.check(bad is None, FCTX, bad[0].ast if bad else fc, 'FPCoreContext.from_context', 'a context with random bits is never given an FPCore spelling',
              'a stochastic context is written as its deterministic base: the core rounds the same way on every run', path=describe_path(bad[1], FCTX) if bad and bad[1] else None)
    bad = None
    for r in ieee_rets:
        p = find_path(cfg, cfg.entry, r, edge_ok=lambda n, lab: not (n in ov and lab is False))
        if (p is not None or not ov) and bad is None:
            bad = (r, p)
    ctx.check(bad is None, FCTX, bad[0].ast if bad else fc, 'FPCoreContext.from_context', 'a float format is written only with the overflow-to-infinity mode FPCore gives it',
              'FP16 with overflow=SATURATE is written as plain binary16: 300 * 300 is 65504 interpreted and +inf in the core', path=describe_path(bad[1], FCTX) if bad and bad[1] else None)


# ----------------------------------------------------------------------
# R1 reader: annotation scope and inheritance

def r1_reader_scope(ctx: Ctx):
    q = '_FPCore2FPy._visit_ctx'
    fn = ctx.fn(FRONT, q)
    body = fn.body
    order = {}
    for i, s in enumerate(body):
        t = norm(s, 4000)
        if t.startswith('props = self._visit_props(e.props, ctx)'):
            order['props'] = i
        if 'self._visit(e.body, val_ctx)' in t:
            order['body'] = i
        if t == 'val_ctx.props = props':
            order['inherit'] = i
    ctx.check('props' in order and 'body' in order and 'inherit' in order and order['props'] < order['inherit'] < order['body'], FRONT, fn, q,
              'the body of an annotation is read under the merged properties', f'statement order {order}: nested annotations would not see the enclosing properties')
    t = norm(fn, 100000)
    ctx.check('block = StmtBlock(val_ctx.stmts + [Assign(t, None, val, None)])' in t and 'ContextStmt(UnderscoreId(), ctx_val, block, None)' in t
              and 'ctx.stmts.append(stmt)' in t and 'return Var(t, None)' in t, FRONT, fn, q,
              'the with-block holds exactly the statements of the annotated expression; its value leaves through a fresh temporary', 'changed')
    ctx.check('val_ctx = ctx.without_stmts()' in t, FRONT, fn, q, 'statements of the body are collected separately from the enclosing ones', 'changed')
    vp = ctx.fn(FRONT, '_FPCore2FPy._visit_props')
    ctx.check('new_props = dict(ctx.props)' in norm(vp, 4000), FRONT, vp, '_FPCore2FPy._visit_props', 'an annotation overrides only the properties it names', 'changed')
    ws = ctx.fn(FRONT, '_Ctx.without_stmts')
    ctx.check('ctx.props = dict(self.props)' in norm(ws, 4000), FRONT, ws, '_Ctx.without_stmts', 'a context without statements keeps the enclosing properties',
              'the branches of an `if` / the body of an annotation lose the enclosing properties')
    # every derived reader context carries the properties
    cls = ctx.repo.cls(FRONT, '_FPCore2FPy')
    n = 0
    for k in calls_in(cls):
        if call_name(k) == '_Ctx' and (k.args or k.keywords):
            kws = {kw.arg for kw in k.keywords}
            if kws == {'env'}:
                continue   # pre/spec expressions: evaluated as data
            n += 1
            ctx.check('props' in kws, FRONT, k, '_FPCore2FPy', norm(k)[:70], 'a sub-expression is read under a context that dropped the enclosing properties')
    if n < 10:
        raise ShapeError(f'only {n} derived reader contexts found')
    vf = ctx.fn(FRONT, '_FPCore2FPy._visit_function')
    t = norm(vf, 100000)
    ctx.check('ctx.props = dict(props)' in t, FRONT, vf, '_FPCore2FPy._visit_function', 'function-level properties stay in force for the body (copied before `precision` is removed from the metadata)',
              'the body shares the dictionary from which `precision` is deleted')
    # the function's own context: built whenever a top-level property selects one -- :round alone rounds binary64 (the
    # default precision) its way; only a core with none of them is read as a function without a context
    from ..minipy import Interp
    builds = [s for s in walk_no_nested(vf) if isinstance(s, ast.If) and any(isinstance(x, ast.Assign) and 'FPCoreContext(**props)' in norm(x) for x in ast.walk(s))
              and any(isinstance(x, (ast.Assign, ast.AnnAssign)) and norm(getattr(x, 'target', None) or x.targets[0]) == 'ctx_val' and norm(x.value) == 'None' for x in s.orelse)]
    if len(builds) != 1:
        raise ShapeError('_visit_function: the construction of the function context was not found')
    for props_, want in (({'precision': 'binary32'}, True), ({'round': 'toPositive'}, True), ({'precision': 'binary32', 'round': 'toZero'}, True), ({'name': 'f'}, False), ({}, False)):
        got = bool(Interp({}).ev(builds[0].test, {'props': dict(props_)}))
        ctx.check(got == want, FRONT, builds[0], '_FPCore2FPy._visit_function', f'top-level properties {sorted(props_) or "(none)"}: the function {"gets" if want else "has no"} context of its own',
                  f'the test answers {got}: (FPCore (x y) :round toPositive (/ x y)) is read back rounding to nearest')
    # literals are rounded under the active context (FPCore constants are rounded)
    for m in ('_visit_decnum', '_visit_hexnum', '_visit_integer', '_visit_rational', '_visit_digits'):
        f = ctx.fn(FRONT, f'_FPCore2FPy.{m}')
        rets = [s for s in walk_no_nested(f) if isinstance(s, ast.Return)]
        ctx.check(len(rets) == 1 and call_name(rets[0].value) == '_round', FRONT, f, f'_FPCore2FPy.{m}', 'an FPCore literal is rounded under the active context', 'changed')


# ----------------------------------------------------------------------
# X1 refusals (writer)

def w9_rounded_literals(ctx: Ctx):
    """"Explicitly rounded constants" are in the FPCore-expressible subset, with either sign: `fp.round(-0.1)` is a
    negation under the rounding in the syntax tree, and one number rounded once in meaning.  `_visit_round` is evaluated,
    from its source, on each kind of literal under a rounding, bare and negated: a non-zero literal comes out as one FPCore
    literal of the same value (a zero, negated, keeps the general path -- a literal carries no sign of zero)."""
    from fractions import Fraction

    from ..minipy import Interp, Obj
    meths = {n: f for n, (_, _, f) in ctx.repo.methods(BACK, '_FPCoreCompileInstance', inherited=False).items()}
    fn = meths.get('_visit_round')
    if fn is None:
        raise ShapeError('_FPCoreCompileInstance._visit_round not found')

    def lit(kind, value, **f):
        return Obj(kind, as_rational=lambda: value, **f)
    mk = {'fpc.Decnum': lambda v: ('lit', Fraction(v)), 'fpc.Hexnum': lambda v: ('lit', v), 'fpc.Integer': lambda v: ('lit', Fraction(v)), 'fpc.Rational': lambda p, q: ('lit', Fraction(p, q)),
          'fpc.Digits': lambda m, e, b: ('lit', Fraction(m) * Fraction(b) ** e), 'fpc.Cast': lambda a: ('cast', a)}
    cases = [('0.1', lit('Decnum', Fraction(1, 10), val='0.1'), Fraction(1, 10)), ('3', lit('Integer', Fraction(3), val=3), Fraction(3)), ('rational(1, 3)', lit('Rational', Fraction(1, 3), p=1, q=3), Fraction(1, 3))]
    for text, node, q in cases:
        for neg in (False, True):
            arg = Obj('Neg', arg=node) if neg else node
            it = Interp({}, meths, self_obj=Obj('_FPCoreCompileInstance'), is_a=lambda k, c: k == c, overrides={**mk, 'self._visit_expr': lambda e, c: ('general', e)})
            try:
                got: object = it.call_function(fn, [Obj('Round', arg=arg), None], bound_self=True)
            except ShapeError:
                raise
            want = ('lit', -q if neg else q)
            ctx.check(got == want, BACK, fn, '_FPCoreCompileInstance._visit_round', f'round({"-" if neg else ""}{text}) is written as the literal {"-" if neg else ""}{text}',
                      f'written as {got!r}: the operand goes down the general path, where a bare literal is refused -- "cannot compile unrounded constant"')
    zero = Obj('Neg', arg=lit('Decnum', Fraction(0), val='0.0'))
    it = Interp({}, meths, self_obj=Obj('_FPCoreCompileInstance'), is_a=lambda k, c: k == c, overrides={**mk, 'self._visit_expr': lambda e, c: ('general', e)})
    got = it.call_function(fn, [Obj('Round', arg=zero), None], bound_self=True)
    ctx.check(isinstance(got, tuple) and got[0] == 'cast', BACK, fn, '_FPCoreCompileInstance._visit_round', 'round(-0.0) is not folded into an unsigned literal', f'written as {got!r}: the sign of the zero is lost')


def x1_refusals(ctx: Ctx):
    vc = ctx.fn(BACK, '_FPCoreCompileInstance._visit_context')
    t = norm(vc, 100000)
    ctx.check("if isinstance(stmt.target, NamedId): raise FPCoreCompileError(" in t.replace('\n', ' ') or ('isinstance(stmt.target, NamedId)' in t and 'raise FPCoreCompileError' in t), BACK, vc,
              '_FPCoreCompileInstance._visit_context', 'a bound context (`with C as c`) is refused', 'changed')
    ctx.check("raise FPCoreCompileError('Context expressions must be pre-computed', stmt.ctx)" in t, BACK, vc, '_FPCoreCompileInstance._visit_context',
              'a context that is not a pre-computed value is refused', 'changed')
    vb = ctx.fn(BACK, '_FPCoreCompileInstance._visit_block')
    t = norm(vb, 100000)
    ctx.check('if isinstance(stmt, ReturnStmt): raise FPCoreCompileError(' in t.replace('\n', ' ') or ('isinstance(stmt, ReturnStmt)' in t and 'raise FPCoreCompileError' in t), BACK, vb,
              '_FPCoreCompileInstance._visit_block', 'a non-trailing return is refused', 'changed')
    ve = ctx.fn(BACK, '_FPCoreCompileInstance._visit_effect')
    ctx.check(any(isinstance(s, ast.Raise) for s in ve.body), BACK, ve, '_FPCoreCompileInstance._visit_effect', 'an effect statement is refused', 'changed')
    repo = ctx.repo
    vis = repo.cls('fpy2/ast/visitor.py', 'Visitor')
    abstract = [s.name for s in vis.body if isinstance(s, ast.FunctionDef) and repo.is_abstract(s)]
    own = repo.methods(BACK, '_FPCoreCompileInstance', inherited=False)
    for a in abstract:
        ctx.check(a in own, BACK, None, '_FPCoreCompileInstance', f'implements {a}', 'visitor method missing')


EXPLANATION = (
    'Static rules over the FPCore writer, reader and the context-property tables (ast only). Decided: (F1) the writer must not '
    'wrap the continuation of a with-block in that block\'s `!` annotation unless it is re-annotated (today violated: listed '
    'finding F12); (T1) writer tables node -> fpc class and reader tables name -> node name the same operation, agree on arity, '
    'and are mutually inverse on the common domain; constants too; (T2) rounding-mode / overflow tables equal the FPCore names and '
    'are inverted by construction; precision shorthands map to the same (es, nbits) in both directions and the named constants '
    'are those formats; (fixed scale nbits) is written, read and constructed in one field order; defaults binary64/nearestEven; '
    'contexts FPCore cannot name are refused; (R1) the reader translates the body of an annotation under the merged properties, '
    'keeps enclosing properties in every derived reader context, scopes the with-block over exactly the annotated expression, '
    'rounds literals; (X1) bound contexts, non-precomputed contexts, non-trailing returns and effects are refused. NOT decided: '
    'the bundling passes (ForBundling, WhileBundling, IfBundling), tensor/array lowering, titanfp itself.'
)
ASSUMPTIONS = ['titanfp implements FPCore 2.0', 'fpc.<Class> names the FPCore operator of the same (lowercased) name']

# ----------------------------------------------------------------------
# R2 reader: parallel binding forms read every bound value under the entry scope

def r2_parallel_bindings(ctx: Ctx):
    """`(let ([x a] [y b]) ..)`, `(while ..)`, `(for ..)`, `(tensor* ..)`: in the plain form every bound value is read in
    the scope the form was entered with; only the starred form lets a value see the earlier bindings of the same form.
    For each loop over `<e>.*_bindings` that visits a bound value, the scope handed to that visit must not depend on a
    name the loop itself extends -- except inside the starred alternative of a test on the form's star-ness."""
    cdef = ctx.repo.cls(FRONT, '_FPCore2FPy')
    checked = 0
    for fn in [s for s in cdef.body if isinstance(s, ast.FunctionDef)]:
        ann = fn.args.args[1].annotation if len(fn.args.args) > 1 else None
        cls = (dotted(ann) or '') if ann is not None else ''
        if not cls.startswith('fpc.'):
            continue
        star_only = cls.endswith('Star')
        star_tests = {norm(s.targets[0]) for s in walk_no_nested(fn) if isinstance(s, ast.Assign) and isinstance(s.value, ast.Call)
                      and call_name(s.value) == 'isinstance' and norm(s.value.args[1]).endswith('Star')}

        def is_star_test(t: ast.AST) -> bool:
            return norm(t) in star_tests or (isinstance(t, ast.Call) and call_name(t) == 'isinstance' and norm(t.args[1]).endswith('Star'))
        for lp in [s for s in walk_no_nested(fn) if isinstance(s, ast.For) and norm(s.iter).endswith('_bindings') and norm(s.iter).startswith('e.')]:
            loopvars = {x.id for x in ast.walk(lp.target) if isinstance(x, ast.Name)}
            # names the loop extends from one binding to the next
            carried: set[str] = set()
            for s in ast.walk(lp):
                if isinstance(s, ast.Assign):
                    for t in s.targets:
                        if isinstance(t, ast.Subscript) and isinstance(t.value, ast.Name):
                            carried.add(t.value.id)
                        if isinstance(t, ast.Name) and any(isinstance(x, ast.Name) and x.id == t.id for x in ast.walk(s.value)):
                            carried.add(t.id)       # env = {**env, var: t}
            locals_: dict[str, ast.AST] = {s.targets[0].id: s.value for s in lp.body if isinstance(s, ast.Assign) and len(s.targets) == 1 and isinstance(s.targets[0], ast.Name)}
            for k in [c for c in calls_in(lp) if call_name(c) == 'self._visit' and len(c.args) == 2]:
                subj = k.args[0]
                if not (isinstance(subj, ast.Name) and subj.id in loopvars):
                    continue
                scope = k.args[1]
                if isinstance(scope, ast.Name) and scope.id in locals_:
                    scope = locals_[scope.id]

                def leaks(e: ast.AST, under_star: bool) -> list[str]:
                    if isinstance(e, ast.IfExp) and is_star_test(e.test):
                        return leaks(e.body, True) + leaks(e.orelse, under_star)
                    out: list[str] = []
                    if isinstance(e, ast.Name) and e.id in carried and not under_star:
                        out.append(e.id)
                    for ch in ast.iter_child_nodes(e):
                        out += leaks(ch, under_star)
                    return out
                bad = [] if star_only else leaks(scope, False)
                checked += 1
                ctx.check(not bad, FRONT, k, f'_FPCore2FPy.{fn.name}', f'{cls[4:]}: bound value `{norm(subj)}` of `{norm(lp.iter)}` is read under {norm(scope)[:70]}',
                          f'the scope depends on `{bad[0] if bad else "?"}`, which the loop extends with the earlier bindings: a plain (parallel) form would be read as its starred '
                          '(sequential) variant, e.g. `(let ([x y] [y x]) (- x y))` gives 0 instead of x - y swapped')
    if checked < 6:
        raise ShapeError(f'only {checked} bound-value visits found in the FPCore reader')


def _inlined(fn: ast.FunctionDef, e: ast.AST) -> ast.AST:
    """`e` with every local that is assigned exactly once in `fn` replaced by its value (recursively)."""
    defs: dict[str, list[ast.AST]] = {}
    for s in walk_no_nested(fn):
        if isinstance(s, ast.Assign) and len(s.targets) == 1 and isinstance(s.targets[0], ast.Name):
            defs.setdefault(s.targets[0].id, []).append(s.value)
    once = {k: v[0] for k, v in defs.items() if len(v) == 1}

    class Sub(ast.NodeTransformer):
        def __init__(self):
            self.depth = 0

        def visit_Name(self, n: ast.Name):
            if isinstance(n.ctx, ast.Load) and n.id in once and self.depth < 8:
                self.depth += 1
                try:
                    return self.visit(ast.parse(ast.unparse(once[n.id]), mode='eval').body)
                finally:
                    self.depth -= 1
            return n
    return Sub().visit(ast.parse(ast.unparse(e), mode='eval').body)


def w1_list_reductions(ctx: Ctx):
    """`sum(xs)`, `min(xs)`, `max(xs)` are left folds from element 0 in index order in the interpreter (`acc = xs[0]; for x
    in xs[1:]: acc = acc (+) x`); rounded addition does not associate, so the emitted FPCore loop has to fold in the same
    order: seeded with `(ref t 0)`, n - 1 trips, trip i combining the accumulator (first operand) with `(ref t (+ i 1))`."""
    q = '_FPCoreCompileInstance._visit_list_reduce'
    fn = ctx.fn(BACK, q)
    rets = [s for s in walk_no_nested(fn) if isinstance(s, ast.Return)]
    if len(rets) != 1:
        raise ShapeError('_visit_list_reduce: single return expected')
    r = _inlined(fn, rets[0].value)
    shape = isinstance(r, ast.Call) and call_name(r) == 'fpc.Let' and len(r.args) == 2 and isinstance(r.args[1], ast.Call) and call_name(r.args[1]) == 'fpc.For' \
        and len(r.args[1].args) == 3 and all(isinstance(a, ast.List) and len(a.elts) == 1 and isinstance(a.elts[0], ast.Tuple) for a in r.args[1].args[:2])
    if not shape:
        ctx.bad(BACK, rets[0], q, 'the reduction is one `for` with one dimension and one accumulator inside a `let` of the list', f'got {norm(r, 300)}')
        return
    loop = r.args[1]
    (ivar, bound), (acc, init, update), body = loop.args[0].elts[0].elts, loop.args[1].elts[0].elts, loop.args[2]
    t = norm(r.args[0].elts[0].elts[0]) if isinstance(r.args[0], ast.List) and r.args[0].elts and isinstance(r.args[0].elts[0], ast.Tuple) else '?'
    tv, iv, av = f'fpc.Var({t})', f'fpc.Var({norm(ivar)})', f'fpc.Var({norm(acc)})'
    exact = lambda s: f"fpc.Ctx({{'precision': 'integer'}}, {s})"  # noqa: E731
    ctx.check(norm(init, 300) == f'fpc.Ref({tv}, fpc.Integer(0))', BACK, rets[0], q, 'the fold is seeded with element 0', f'seed {norm(init, 300)}')
    ctx.check(norm(bound, 300) == exact(f'fpc.Sub(_size0_expr({t}), fpc.Integer(1))'), BACK, rets[0], q, 'n - 1 trips, counted exactly', f'bound {norm(bound, 300)}')
    nxt = [exact(f'fpc.Add({iv}, fpc.Integer(1))'), exact(f'fpc.Add(fpc.Integer(1), {iv})')]
    good = isinstance(update, ast.Call) and call_name(update) == 'combine' and len(update.args) == 2 and norm(update.args[0]) == av \
        and any(norm(update.args[1], 300) == f'fpc.Ref({tv}, {x})' for x in nxt)
    ctx.check(good, BACK, rets[0], q, 'trip i combines the accumulator (left operand) with element i + 1, index computed exactly',
              f'update {norm(update, 300)}: another order of a rounded fold gives another sum ([1e16, 1, -1e16, 1] is 1 from the left)')
    ctx.check(norm(body) == av, BACK, rets[0], q, 'the loop yields the accumulator', f'body {norm(body)}')
    for m, comb in (('_visit_sum', 'fpc.Add'), ('_visit_amin', 'self._fpc_minimum'), ('_visit_amax', 'self._fpc_maximum')):
        f = ctx.fn(BACK, f'_FPCoreCompileInstance.{m}')
        rr = [s for s in walk_no_nested(f) if isinstance(s, ast.Return)]
        good = len(rr) == 1 and norm(rr[0].value) == f'self._visit_list_reduce(arg, {comb}, ctx)'
        ctx.check(good, BACK, f, f'_FPCoreCompileInstance.{m}', f'{m[7:]} folds with {comb}', f'got {[norm(x.value) for x in rr]}')
    for m, comb in (('_visit_min', 'self._fpc_minimum'), ('_visit_max', 'self._fpc_maximum')):
        f = ctx.fn(BACK, f'_FPCoreCompileInstance.{m}')
        t = norm(f, 4000)
        good = f'{m[7:]}_expr = vals[0]' in t and f'for val in vals[1:]: {m[7:]}_expr = {comb}({m[7:]}_expr, val)' in t
        ctx.check(good, BACK, f, f'_FPCoreCompileInstance.{m}', f'variadic {m[7:]} folds its arguments from the left', 'changed')


def w2_comparisons_and_positions(ctx: Ctx):
    """(a) A chain `a op b op c` is the conjunction of its links.  FPCore's comparison operators are n-ary; for <, <=, >,
    >= and == the n-ary form is that conjunction, for != it is "pairwise distinct".  The writer's `_visit_compare` is
    evaluated, from its source, on every chain of up to three links over {<, ==, !=}; the links it emits must be exactly
    the adjacent pairs, and an n-ary call may carry more than two operands only for an operator whose n-ary meaning is
    the chain.  The reader must not read an n-ary != as a chain.  (b) `(ref t i j)` indexes the outer dimension first:
    the index list of a destructured field is the position of the tuple followed by the field's own index."""
    from itertools import product

    from ..minipy import Interp, Obj
    cls = ctx.repo.cls(BACK, '_FPCoreCompileInstance')
    methods = {f.name: f for f in cls.body if isinstance(f, ast.FunctionDef)}
    fn = methods['_visit_compare']
    n = 0
    bad = None
    for k in (1, 2, 3):
        for ops in product(('LT', 'EQ', 'NE'), repeat=k):
            e = Obj('Compare', ops=[('enum', 'CompareOp', o) for o in ops], args=[f'x{i}' for i in range(k + 1)])
            it = Interp({}, methods=methods, overrides={
                'self._visit_expr': lambda x, c: x, 'self._check_comparable': lambda e: None,
                'self._compile_compareop': lambda op: (lambda *a, op=op: ('cmp', op[2], tuple(a))), 'fpc.And': lambda *a: ('and', tuple(a))}, self_obj=Obj('X'))
            got = it.call_function(fn, [e, None], bound_self=True)
            calls = list(got[1]) if got[0] == 'and' else [got]
            links = set()
            for _, op, args in calls:
                if len(args) > 2 and op == 'NE' and bad is None:
                    bad = f'chain {" ".join(ops)}: emits an n-ary != over {len(args)} operands, which FPCore reads as pairwise distinct'
                links |= {(op, a, b) for a, b in zip(args, args[1:])}
            want = {(op, f'x{i}', f'x{i + 1}') for i, op in enumerate(ops)}
            n += 1
            if links != want and bad is None:
                bad = f'chain {" ".join(ops)}: emitted links {sorted(links)}, the chain says {sorted(want)}'
    ctx.check(bad is None, BACK, fn, '_FPCoreCompileInstance._visit_compare', f'a comparison chain is emitted as exactly its links; only chain-meaning operators go n-ary ({n} chains)', bad or '')
    rd = ctx.fn(FRONT, '_FPCore2FPy._visit_nary')
    arm = None
    for m in [x for x in ast.walk(rd) if isinstance(x, ast.Match)]:
        for cs in m.cases:
            if isinstance(cs.pattern, ast.MatchClass) and dotted(cs.pattern.cls) == 'fpc.NEQ':
                arm = cs
    if arm is None:
        raise ShapeError('reader: fpc.NEQ arm not found')
    chains = [k for k in ast.walk(arm) if isinstance(k, ast.Call) and call_name(k) == 'Compare' and k.args and not (isinstance(k.args[0], ast.List) and len(k.args[0].elts) == 1)]
    two_only = [s for s in arm.body if isinstance(s, ast.If) and 'len(' in norm(s.test) and '== 2' in norm(s.test)]
    ok = not chains or all(any(k is x for s in two_only for x in ast.walk(s)) for k in chains)
    ctx.check(ok, FRONT, arm.pattern, '_FPCore2FPy._visit_nary', 'an n-ary != is not read as a chain (a chain would accept a == c)', 'reads `(!= a b c)` as `a != b != c`')
    tb = ctx.fn(BACK, '_FPCoreCompileInstance._compile_tuple_binding')
    lists = [s.value for s in ast.walk(tb) if isinstance(s, ast.Assign) and norm(s.targets[0]) == 'idxs']
    ok = len(lists) >= 1 and all(isinstance(v, ast.List) and len(v.elts) == 2 and isinstance(v.elts[0], ast.Starred) and norm(v.elts[0].value) == 'pos'
                                 and norm(v.elts[1]) == 'fpc.Integer(i)' for v in lists)
    ctx.check(ok, BACK, tb, '_FPCoreCompileInstance._compile_tuple_binding', 'the index list of a field is the position of its tuple followed by the field index (outermost first)',
              f'index lists {[norm(v) for v in lists]}: `for a, b in zip(xs, ys)` reads (ref t 0 i) where element i, field 0 is (ref t i 0)')
    t = norm(tb, 4000)
    ctx.check('fpc.Ref(fpc.Var(tuple_id), *idxs)' in t and 'self._compile_tuple_binding(tuple_id, elt, idxs)' in t, BACK, tb, '_FPCoreCompileInstance._compile_tuple_binding',
              'a nested pattern extends the position of its parent', 'changed')


def w5_bundled_state(ctx: Ctx):
    """FPCore has no assignment, so before emission the variables a loop or a branch changes are packed into one tuple,
    carried through, and unpacked afterwards (the bundling passes).  A tuple has no field names: what says that field i
    packed in an arm is the variable unpacked at position i is only that both sides list the variables *in the same
    order*.  In every method of the three bundling passes, each order a tuple is packed in is one a binding unpacks in,
    and conversely (an order given by a name is read through the name's single assignment)."""
    n = 0
    for rel, cls in (('fpy2/transform/if_bundling.py', '_IfBundlingInstance'), ('fpy2/transform/for_bundling.py', '_ForBundlingInstance'), ('fpy2/transform/while_bundling.py', '_WhileBundlingInstance')):
        if not ctx.repo.has_cls(rel, cls):
            raise ShapeError(f'{cls} not found in {rel}')
        for name, (_, _, fn) in ctx.repo.methods(rel, cls, inherited=False).items():
            once: dict[str, ast.AST] = {}
            counts: dict[str, int] = {}
            for s in ast.walk(fn):
                if isinstance(s, ast.Assign) and len(s.targets) == 1 and isinstance(s.targets[0], ast.Name):
                    counts[s.targets[0].id] = counts.get(s.targets[0].id, 0) + 1
                    once[s.targets[0].id] = s.value

            def order_of(arg: ast.AST) -> str:
                e = arg.generators[0].iter if isinstance(arg, ast.ListComp) and len(arg.generators) == 1 else arg
                if isinstance(e, ast.Name) and counts.get(e.id) == 1:
                    e = once[e.id]
                return norm(e)
            packs = {order_of(k.args[0]): k for k in calls_in(fn) if call_name(k) == 'TupleExpr' and k.args}
            unpacks = {order_of(k.args[0]): k for k in calls_in(fn) if call_name(k) == 'TupleBinding' and k.args}
            if not packs or not unpacks:
                continue
            n += 1
            for o, k in unpacks.items():
                ctx.check(o in packs, rel, k, f'{cls}.{name}', f'unpacked in the order `{o}`, which is an order the tuple is packed in',
                          f'packed in {sorted(packs)}: the fields come out under other names -- `x` mutated and `c` introduced by an if/else are swapped after it, x / c becomes c / x')
            for o, k in packs.items():
                ctx.check(o in unpacks, rel, k, f'{cls}.{name}', f'packed in the order `{o}`, which is an order a binding unpacks in', f'unpacked in {sorted(unpacks)}')
    if n < 3:
        raise ShapeError(f'only {n} bundling methods with packed state found')
    # the body of a bundled `for` is rewritten to the carried variables' new names; a loop target the body also assigns is
    # one of them, so the header has to name it the same way -- for a plain name as for a tuple pattern
    rel, cls = 'fpy2/transform/for_bundling.py', '_ForBundlingInstance'
    fn = ctx.repo.methods(rel, cls, inherited=False)['_visit_for'][2]
    arms = {}
    # (the match in the arm that bundles: the one next to the renaming of the body)
    bundling = [i_ for i_ in ast.walk(fn) if isinstance(i_, ast.If) and any(call_name(k) == 'RenameTarget.apply_block' for s_ in i_.body for k in calls_in(s_))]
    scope = bundling[0].body if bundling else []
    for m_ in [x for s_ in scope for x in ast.walk(s_) if isinstance(x, ast.Match) and norm(x.subject) == 'stmt.target']:
        for c_ in m_.cases:
            for s_ in c_.body:
                if isinstance(s_, (ast.Assign, ast.AnnAssign)) and norm(s_.targets[0] if isinstance(s_, ast.Assign) else s_.target) == 'target' and s_.value is not None:
                    arms[norm(c_.pattern)] = s_.value
    if not arms:
        raise ShapeError('_visit_for: the rewriting of the loop target was not found')
    for pat in ('NamedId()', 'TupleBinding()'):
        v = arms.get(pat)
        ok = v is not None and any(isinstance(x, ast.Name) and x.id == 'rename' for x in ast.walk(v))
        ctx.check(ok, rel, v if v is not None else fn, f'{cls}._visit_for', f'a loop target of kind {pat[:-2]} is rewritten with the renaming the body gets',
                  (f'`target = {norm(v)}`' if v is not None else f'no arm for {pat}; arms {sorted(arms)}') +
                  ': `for x in xs: acc = acc + x; x = x * 2; acc = acc + x` keeps `x` in the header while the body reads `x5` -- the writer fails with "unbound variable"')


def w8_sizes_are_integers(ctx: Ctx):
    """A tensor length is an integer whatever block it is asked in, but an FPCore reader rounds every unannotated
    expression under the enclosing annotation: `(size t 0)` under an 8-digit format turns 257 into 256 and the compiled
    loop drops an element.  Every `fpc.Size(...)` the writer builds is the body of an annotation `:precision integer`."""
    tree = ctx.repo.module(BACK).tree
    parents = {c_: p_ for p_ in ast.walk(tree) for c_ in ast.iter_child_nodes(p_)}
    owner: dict[ast.AST, str] = {}
    for q, fn in ctx.repo.functions(BACK):
        for x in ast.walk(fn):
            owner[x] = q

    def integer_props(e: ast.AST, scope: ast.AST | None) -> bool:
        if isinstance(e, ast.Dict):
            d = {norm(k): norm(v) for k, v in zip(e.keys, e.values) if k is not None}
            return d.get("'precision'") == "'integer'"
        if isinstance(e, ast.Name) and scope is not None:
            defs = [s.value for s in ast.walk(scope) if isinstance(s, ast.Assign) and any(isinstance(t, ast.Name) and t.id == e.id for t in s.targets)]
            return bool(defs) and all(integer_props(v, None) for v in defs)
        return False
    sizes = [k for k in ast.walk(tree) if isinstance(k, ast.Call) and call_name(k) == 'fpc.Size']
    if not sizes:
        raise ShapeError('the writer no longer builds fpc.Size')
    for k in sizes:
        p = parents.get(k)
        q = owner.get(k, '<module>')
        scope = next((f for qq, f in ctx.repo.functions(BACK) if qq == q), None)
        ok = isinstance(p, ast.Call) and call_name(p) == 'fpc.Ctx' and len(p.args) == 2 and p.args[1] is k and integer_props(p.args[0], scope)
        ctx.check(ok, BACK, k, q, f'`{norm(k)[:60]}` is the body of a `:precision integer` annotation',
                  'emitted bare: a reader rounds the length under the enclosing block -- under bfloat16 a 257-element tensor has length 256 and `for x in xs` drops the last element')


def w7_bundle_substitution(ctx: Ctx):
    """While bundling carries the loop's variables in one tuple `t`: the *condition*, evaluated between iterations, reads
    `x_i` as `t[i]`; the *body* starts by unpacking `t` into names of its own and ends by packing them again, so inside it a
    variable is read under its (renamed) name -- `f = f * i` after `i = i + 1` must see the new `i`.  The substitution
    `x_i -> t[i]` therefore goes to the condition and to nothing else: every visit of the body in `_visit_while` is made
    under the context the method was entered with."""
    from ..symenv import execute, show, sym
    rel, cls = 'fpy2/transform/while_bundling.py', '_WhileBundlingInstance'
    fn = ctx.repo.methods(rel, cls, inherited=False).get('_visit_while')
    if fn is None:
        raise ShapeError('_WhileBundlingInstance._visit_while not found')
    f = fn[2]
    incoming = f.args.args[2].arg if len(f.args.args) > 2 else 'ctx'
    ex = execute(f, {}, {}, loop_passes=1)
    bodies = [e for e in ex.events if e.kind == 'call' and e.name == 'self._visit_block' and e.args and show(e.args[0]) == 'stmt.body']
    conds = [e for e in ex.events if e.kind == 'call' and e.name == 'self._visit_expr' and e.args and show(e.args[0]) == 'stmt.cond']
    if not bodies or not conds:
        raise ShapeError('_visit_while: visits of the condition / body not found')
    for e in bodies:
        ok = len(e.args) >= 2 and e.args[1] == sym(incoming)
        ctx.check(ok, rel, e.node, f'{cls}._visit_while', 'the loop body is rewritten under the incoming context (its variables keep their own, renamed, names)',
                  f'rewritten under `{show(e.args[1])[:80] if len(e.args) > 1 else "?"}`: a read after a write in the same iteration sees the value from the start of the iteration '
                  '-- `i = i + 1; f = f * i` computes 0 for 5!')
    subst = [e for e in conds if len(e.args) >= 2 and e.args[1] != sym(incoming)]
    ctx.check(bool(subst), rel, conds[0].node, f'{cls}._visit_while', 'the condition of a bundled loop reads the carried variables out of the tuple', 'the condition is never rewritten: it reads names the loop no longer updates')


def w6_reserved_names(ctx: Ctx):
    """An FPCore reader takes `E`, `PI`, `LN2`, `NAN`, `TRUE`, ... for constants wherever they stand; the writer emits an
    FPy variable under its own spelling (`str(e.name)`).  So no variable may reach emission spelled like a constant:
    (a) the normalisation every function goes through ends in a renaming pass, on every path, and nothing is emitted that
    did not go through it; (b) that pass, evaluated from its source on stand-in name sets, renames exactly the variables
    spelled like a constant (captured names -- callees -- keep theirs), to fresh names that are neither constants nor
    taken; (c) the set of spellings it asks about is the reader's own (`reserved_constants` of the FPCore parser) and
    covers every constant the writer's table emits."""
    from ..cfg import CFG, find_path
    from ..minipy import Interp, Obj
    funcs = {s.name: s for s in ctx.repo.module(BACK).tree.body if isinstance(s, ast.FunctionDef)}
    passes, ren = funcs.get('_apply_fpc_passes'), funcs.get('_rename_reserved_names')
    if passes is None:
        raise ShapeError('_apply_fpc_passes not found')
    if ren is None:
        ctx.bad(BACK, passes, '_apply_fpc_passes', 'variables spelled like FPCore constants are renamed before emission',
                'no renaming pass: `E = x / y; PI = E + y; return PI / E` prints a core that evaluates to pi / e')
        return
    # (a)
    cfg = CFG(passes)
    renames = [n for n in cfg.nodes_of('stmt') if any(call_name(k) == '_rename_reserved_names' for k in calls_in(n.ast))]
    others = [n for n in cfg.nodes_of('stmt') if n not in renames and isinstance(n.ast, ast.Assign) and isinstance(n.ast.value, ast.Call) and (call_name(n.ast.value) or '').endswith('.apply')]
    for r in cfg.returns():
        p = find_path(cfg, cfg.entry, r, avoid=lambda n: n in renames)
        ctx.check(bool(renames) and p is None, BACK, r.ast, '_apply_fpc_passes', 'every function leaves normalisation through the renaming of reserved spellings',
                  'a path returns without it')
        # (the passes that follow FreeVarElim take the names they introduce from a generator; FreeVarElim binds a captured
        # value under the spelling it was captured with -- a module constant `PI = 3.14159` -- so it comes first)
        late = [o for o in others if call_name(o.ast.value) == 'FreeVarElim.apply' and renames and all(find_path(cfg, rn, o) is not None for rn in renames)]
        ctx.check(not late, BACK, late[0].ast if late else r.ast, '_apply_fpc_passes', 'captured values are bound locally (under their own spelling) before the renaming, not after',
                  f'{[norm(o.ast) for o in late]} runs after it: a captured `PI = 3.14159` is emitted as the constant PI')
    cm = ctx.fn(BACK, 'FPCoreCompiler.compile_module')
    ccfg = CFG(cm)
    maps = [n for n in ccfg.nodes_of('stmt') if '_apply_fpc_passes' in norm(n.ast) and 'module.map' in norm(n.ast)]
    emits = [n for n in ccfg.nodes if n.ast is not None and any(call_name(k) == 'self._emit_entry' for k in calls_in(n.ast))]
    ok = bool(maps) and bool(emits) and all(find_path(ccfg, ccfg.entry, e, avoid=lambda n: n in maps) is None for e in emits)
    ctx.check(ok, BACK, cm, 'FPCoreCompiler.compile_module', 'every function of the module is normalised before any entry is emitted', 'an entry is emitted from an unnormalised module')
    callers = [(q, k) for q, f in ctx.repo.functions(BACK) for k in calls_in(f) if (call_name(k) or '').endswith('_emit_entry') and q != 'FPCoreCompiler.compile_module']
    ctx.check(not callers, BACK, callers[0][1] if callers else cm, 'FPCoreCompiler._emit_entry', 'entries are emitted from compile_module only', f'also from {[q for q, _ in callers]}')
    # (b)
    RESERVED = {'E', 'PI', 'TRUE', 'NAN', 'LN2'}

    def str_(o):
        return o.fields['__str__']() if isinstance(o, Obj) else str(o)

    def nid(base, count=None):
        o = Obj('NamedId', base=base, count=count)
        o.fields['__str__'] = lambda o=o: o.fields['base'] + ('' if o.fields['count'] is None else str(o.fields['count']))
        return o
    for what, spelled, free in (('E, PI bound, e taken', ['E', 'PI', 'x', 'e'], []), ('nothing clashes', ['x', 'y'], []), ('E is a captured callee', ['E', 'x'], ['E']),
                                ('every reserved spelling', sorted(RESERVED) + ['t'], [])):
        ids = {b: nid(b) for b in spelled}
        fresh: list = []
        calls: list = []

        class G:
            def __init__(self, reserved):
                self.taken = {str_(n) for n in reserved}

            def fresh(self, prefix='t'):
                name, k = prefix, 0
                while name in self.taken:
                    k += 1
                    name = f'{prefix}{k}'
                self.taken.add(name)
                o = nid(name)
                fresh.append(o)
                return o

        fd = Obj('FuncDef', free_vars={ids[b] for b in free})
        it = Interp(funcs, {}, globals_={'reserved_constants': {k: None for k in RESERVED}, 'str': str_},
                    overrides={'DefineUse.analyze': lambda f: Obj('DefineUseAnalysis', names=lambda: set(ids.values())), 'Gensym': lambda reserved=None: Obj('Gensym', fresh=G(reserved or ()).fresh),
                               'RenameTarget.apply': lambda f, m: (calls.append(m), Obj('FuncDef', renamed=True))[1], 'str': str_})
        out = it.call_function(ren, [fd])
        want = {b for b in spelled if b in RESERVED and b not in free}
        if not want:
            ok = not calls and out is fd
            got: object = 'a renaming' if calls else 'none'
        else:
            m = calls[0] if len(calls) == 1 else {}
            keys = {str_(k) for k in m}
            vals = [str_(v) for v in m.values()]
            ok = keys == want and len(set(vals)) == len(vals) and not (set(vals) & (RESERVED | set(spelled))) and isinstance(out, Obj) and out.fields.get('renamed') is True
            got = {str_(k): str_(v) for k, v in m.items()}
        ctx.check(ok, BACK, ren, '_rename_reserved_names', f'{what}: exactly {sorted(want) or "nothing"} renamed, to fresh spellings', f'got {got}')
    # (c)
    imp = [s for s in ctx.repo.module(BACK).tree.body if isinstance(s, ast.ImportFrom) and any(a.name == 'reserved_constants' for a in s.names)]
    ctx.check(len(imp) == 1 and (imp[0].module or '').endswith('fpbench.fpcparser'), BACK, imp[0] if imp else ren, '_rename_reserved_names',
              'the reserved spellings are the FPCore parser\'s own table of constants', 'taken from elsewhere')
    uses = [n for n in ast.walk(ren) if isinstance(n, ast.Compare) and any(isinstance(o, ast.In) for o in n.ops) and norm(n.comparators[0]) == 'reserved_constants' and norm(n.left).startswith('str(')]
    ctx.check(bool(uses), BACK, ren, '_rename_reserved_names', 'a name is asked about by its printed spelling', 'not compared as printed')


def w4_ranges(ctx: Ctx):
    """`range` is lowered to a tensor: an element count and a formula for element i.  The three lowerings are built, from
    their source, over symbolic operands, and the resulting FPCore terms are evaluated with the annotation semantics of
    the standard (`:precision integer` rounds every operation to the nearest integer, ties to even; `:precision real`
    rounds nothing) for every start, stop in [-7, 7] and step in {-3..-1, 1..3} with a non-empty or exactly empty
    range: the tensor must list exactly the integers Python's `range` does."""
    import math as _math
    from fractions import Fraction

    from ..minipy import Interp, Obj
    meths = {n: f for n, (_, _, f) in ctx.repo.methods(BACK, '_FPCoreCompileInstance', inherited=False).items()}

    def node(kind):
        return lambda *a: (kind,) + tuple(a)
    overrides = {f'fpc.{k}': node(k) for k in ('Tensor', 'Ctx', 'Sub', 'Add', 'Mul', 'Div', 'Ceil', 'Floor', 'Var', 'Integer', 'Neg')}
    overrides.update({'self._visit_expr': lambda e, c: ('Operand', e), 'self.gensym.fresh': lambda p: 'i', 'str': str})

    def rint(q: Fraction) -> Fraction:
        f = _math.floor(q)
        r = q - f
        return Fraction(f + (1 if r > Fraction(1, 2) or (r == Fraction(1, 2) and f % 2) else 0))

    def ev(t, env, prec):
        k = t[0]
        if k == 'Operand':
            return Fraction(env[t[1]])
        if k == 'Var':
            return Fraction(env[t[1]])
        if k == 'Integer':
            return Fraction(t[1])
        if k == 'Ctx':
            p = t[1].get('precision', prec)
            return ev(t[2], env, p)
        a = [ev(x, env, prec) for x in t[1:]]
        v = {'Sub': lambda: a[0] - a[1], 'Add': lambda: a[0] + a[1], 'Mul': lambda: a[0] * a[1], 'Div': lambda: a[0] / a[1], 'Neg': lambda: -a[0],
             'Ceil': lambda: Fraction(_math.ceil(a[0])), 'Floor': lambda: Fraction(_math.floor(a[0]))}[k]()
        if prec == 'integer':
            return rint(v)
        if prec == 'real':
            return v
        raise ShapeError(f'range lowering evaluated under precision {prec}')
    n = 0
    for name, params in (('_visit_range1', ('stop',)), ('_visit_range2', ('start', 'stop')), ('_visit_range3', ('start', 'stop', 'step'))):
        fn = meths.get(name)
        if fn is None:
            raise ShapeError(f'{name} not found')
        term = Interp({}, meths, overrides=overrides).call_function(fn, list(params) + [None], bound_self=True)
        if not (isinstance(term, tuple) and term[0] == 'Tensor' and len(term[1]) == 1):
            raise ShapeError(f'{name}: not a one-dimensional tensor')
        (ivar, size_t), elt_t = term[1][0], term[2]
        bad = None
        for start, stop, step in itertools.product(range(-7, 8), range(-7, 8), (-3, -2, -1, 1, 2, 3)):
            if ('start' not in params and start != 0) or ('step' not in params and step != 1) or (stop - start) * step < 0:
                continue
            env = {'start': start, 'stop': stop, 'step': step}
            size = ev(size_t, env, 'integer')
            got = [ev(elt_t, {**env, ivar: i}, 'integer') for i in range(int(size))] if size.denominator == 1 and size >= 0 else None
            n += 1
            if got != [Fraction(v) for v in range(start, stop, step)] and bad is None:
                shown = {1: f'range({stop})', 2: f'range({start}, {stop})', 3: f'range({start}, {stop}, {step})'}[len(params)]
                bad = f'{shown} is {list(range(start, stop, step))}; the tensor lists {[int(v) if v.denominator == 1 else str(v) for v in got] if got is not None else f"{size} elements"}'
        ctx.check(bad is None, BACK, fn, f'_FPCoreCompileInstance.{name}', f'{name[7:]}: the tensor lists the integers of the range',
                  (bad or '') + ' (under `:precision integer` a quotient is rounded to an integer before `ceil` sees it)')
    if n < 400:
        raise ShapeError(f'only {n} ranges evaluated')


def w3_nested_comprehensions(ctx: Ctx):
    """`[e for x in xs for y in ys for z in zs]` lists its elements outermost-first.  The writer lowers it to one flat
    tensor over k in [0, |xs| * |ys| * |zs|) and recomputes the three indices from k.  `_visit_list_comp` is evaluated,
    from its source, for two and three generators with the FPCore constructors replaced by tagged terms; the emitted index
    expressions are then computed for every k over sizes (2, 3, 2) and must be the digits of k in that mixed radix, each
    must read the tensor's own iteration variable (not a name the program may use), and each element reference must be
    bound to the name the element expression reads."""
    from itertools import product

    from ..minipy import Interp, Obj
    mod = ctx.repo.module(BACK)
    funcs = {s.name: s for s in mod.tree.body if isinstance(s, ast.FunctionDef)}
    cls = ctx.repo.cls(BACK, '_FPCoreCompileInstance')
    methods = {f.name: f for f in cls.body if isinstance(f, ast.FunctionDef)}
    fn = methods['_visit_list_comp']
    tag = lambda name: (lambda *a, **k: (name,) + tuple(a))  # noqa: E731
    fpc_names = ('Var', 'Ctx', 'Div', 'Fmod', 'Mul', 'Ref', 'Tensor', 'LetStar', 'Let', 'Size', 'Integer', 'Sub', 'Add')
    for n_gen in (2, 3):
        counter = [0]

        def fresh(prefix, counter=counter):
            counter[0] += 1
            # a program variable named like the prefix exists: the generator hands out a suffixed name
            return Obj('NamedId', label=f'{prefix}{counter[0]}')
        targets = [Obj('NamedId', label=nm) for nm in ('x', 'y', 'z')[:n_gen]]
        comp = Obj('ListComp', targets=targets, iterables=[Obj('Expr', label=f'it{i}') for i in range(n_gen)], elt=Obj('Expr', label='elt'))
        gensym = Obj('Gensym', fresh=fresh, refresh=lambda t, fresh=fresh: fresh(t.fields['label']))
        ov = {f'fpc.{nm}': tag(nm) for nm in fpc_names}
        ov['self._visit_expr'] = lambda e, c: ('expr', e.fields['label'])
        ov['str'] = lambda o: o.fields['label'] if isinstance(o, Obj) else str(o)
        it = Interp(funcs, methods=methods, overrides=ov, is_a=lambda k, c: k == c or (k == 'NamedId' and c == 'Id'), self_obj=Obj('_FPCoreCompileInstance', gensym=gensym))
        term = it.call_function(fn, [comp, None], bound_self=True)
        # (Let tuple_binds (Let size_binds (Tensor [(k, bound)] (LetStar idx_binds (LetStar ref_binds elt)))))
        try:
            _, tuple_binds, (_, size_binds, (_, dims, (_, idx_binds, (_, ref_binds, elt)))) = term
            (kvar, _bound), = dims
        except Exception:
            ctx.bad(BACK, fn, '_FPCoreCompileInstance._visit_list_comp', f'{n_gen} generators: one flat tensor with index and reference bindings', f'shape not read: {str(term)[:200]}')
            continue
        sizes_by_name = {sid: sz for (sid, _), sz in zip(size_binds, (2, 3, 2))}

        def ev(t, k):
            if isinstance(t, tuple):
                h = t[0]
                if h == 'Ctx':
                    return ev(t[2], k)
                if h == 'Var':
                    if t[1] == kvar:
                        return k
                    if t[1] in sizes_by_name:
                        return sizes_by_name[t[1]]
                    raise KeyError(t[1])
                if h == 'Mul':
                    return ev(t[1], k) * ev(t[2], k)
                if h == 'Div':
                    return ev(t[1], k) // ev(t[2], k)
                if h == 'Fmod':
                    return ev(t[1], k) % ev(t[2], k)
            raise ValueError(t)
        sizes = (2, 3, 2)[:n_gen]
        total = 1
        for s in sizes:
            total *= s
        bad = None
        for k, digits in zip(range(total), product(*[range(s) for s in sizes])):
            try:
                got = tuple(ev(e, k) for _, e in idx_binds)
            except KeyError as ex:
                bad = f'an index reads `{ex.args[0]}`, which is neither the tensor\'s iteration variable `{kvar}` nor a size: a program variable of that name would be used'
                break
            if got != digits:
                bad = f'flat position {k} of sizes {sizes}: indices {got}, the comprehension order gives {digits}'
                break
        ctx.check(bad is None, BACK, fn, '_FPCoreCompileInstance._visit_list_comp', f'{n_gen} generators: the indices are the mixed-radix digits of the flat position, outermost first', bad or '')
        names = [nm for nm, _ in ref_binds]
        ctx.check(names == [t.fields['label'] for t in targets], BACK, fn, '_FPCoreCompileInstance._visit_list_comp',
                  f'{n_gen} generators: each element is bound to the name the element expression reads', f'bound names {names}: the element expression reads {[t.fields["label"] for t in targets]}')


def r4_property_values(ctx: Ctx):
    """The writer annotates with plain Python values (`{'precision': 'integer'}`), a parsed core holds `Data` objects.  A
    compiled core is re-read in memory (`Function.from_fpcore(FPCoreCompiler().compile(f))`), so the reader has to take
    both: the premise (what the writer puts into annotations) and the reader's default arm are read side by side."""
    plain = 0
    wrapped = 0
    for q, fn in ctx.repo.functions(BACK):
        for k in calls_in(fn):
            if call_name(k) == 'fpc.Ctx' and k.args:
                d = k.args[0]
                if isinstance(d, ast.Name):
                    defs = [s.value for s in walk_no_nested(fn) if isinstance(s, ast.Assign) and any(isinstance(t, ast.Name) and t.id == d.id for t in s.targets)]
                    d = defs[0] if len(defs) == 1 else d
                if isinstance(d, ast.Dict):
                    for v in d.values:
                        if isinstance(v, ast.Constant) and isinstance(v.value, str):
                            plain += 1
                        elif isinstance(v, ast.Call) and (call_name(v) or '').startswith('fpc.Data'):
                            wrapped += 1
    fn = ctx.fn(FRONT, '_FPCore2FPy._visit_props')
    default = None
    for m in [x for x in ast.walk(fn) if isinstance(x, ast.Match)]:
        for cs in m.cases:
            if isinstance(cs.pattern, ast.MatchAs) and cs.pattern.pattern is None:
                default = cs
    if default is None:
        raise ShapeError('_visit_props: default arm not found')
    t = ' '.join(norm(s, 400) for s in default.body)
    takes_plain = 'isinstance(v, fpc.Data)' in t and ('else v' in t or 'return v' in t)
    ctx.check(plain == 0 or takes_plain, FRONT, default.pattern, '_FPCore2FPy._visit_props', f'the reader takes a plain annotation value as it is (the writer emits {plain} of them, {wrapped} wrapped)',
              f'reads `.value` of every property: re-reading the compiled core of `sum(xs)` fails with AttributeError: \'str\' object has no attribute \'value\'')
    if plain + wrapped < 5:
        raise ShapeError(f'only {plain + wrapped} annotation values found in the writer')


def r3_loop_condition(ctx: Ctx):
    """The reader turns expressions into statements: a `let` or an `if` inside an expression becomes assignments emitted
    into the statement list of the context it is visited with.  The test of a `while` is evaluated before every trip, so
    it may not be visited with the list of the enclosing block (its statements would run once, ahead of the loop).  Both
    loop readers take the test from `_loop_condition`, which visits the condition with lists of its own, emits them
    ahead of the loop *and* hands back a second copy that the loop body ends with, the test held in a variable."""
    for q in ('_visit_while', '_visit_whilestar'):
        fn = ctx.fn(FRONT, f'_FPCore2FPy.{q}')
        direct = [k for k in calls_in(fn) if call_name(k) == 'self._visit' and k.args and norm(k.args[0]) == 'e.cond']
        ctx.check(not direct, FRONT, direct[0] if direct else fn, f'_FPCore2FPy.{q}', 'the loop test is not visited with the enclosing statement list',
                  'the statements a condition needs are emitted once, ahead of the loop: `while (let ([m (fmin x y)]) (< m 10))` tests a stale m forever')
        ks = [k for k in calls_in(fn) if call_name(k) == 'self._loop_condition']
        body = None
        if len(ks) == 1 and len(ks[0].args) == 4:
            body = norm(ks[0].args[3])
        tgt = [s for s in walk_no_nested(fn) if isinstance(s, ast.Assign) and s.value in ks]
        names = [norm(e) for s in tgt for e in (s.targets[0].elts if isinstance(s.targets[0], ast.Tuple) else [])]
        ok = body is not None and len(names) == 2 and norm(ks[0].args[0]) == 'e.cond'
        if ok:
            test, again = names
            stmts = [s for s in fn.body]
            i_ext = [i for i, s in enumerate(stmts) if norm(s) == f'{body}.extend({again})']
            i_loop = [i for i, s in enumerate(stmts) if isinstance(s, ast.Assign) and call_name(s.value) == 'WhileStmt' and norm(s.value.args[0]) == test
                      and norm(s.value.args[1]) == f'StmtBlock({body})']
            i_upd = [i for i, s in enumerate(stmts) if isinstance(s, ast.For)]
            ok = len(i_ext) == 1 and len(i_loop) == 1 and i_ext[0] < i_loop[0] and all(i < i_ext[0] for i in i_upd)
        ctx.check(ok, FRONT, fn, f'_FPCore2FPy.{q}', 'the loop tests what _loop_condition returns and its body ends with the re-evaluation', 'changed')
    lc = ctx.fn(FRONT, '_FPCore2FPy._loop_condition')
    visits = [k for k in calls_in(lc) if call_name(k) == 'self._visit' and k.args and norm(k.args[0]) == 'cond']
    own_lists = {t.id for s in walk_no_nested(lc) if isinstance(s, (ast.Assign, ast.AnnAssign)) and isinstance(getattr(s, 'value', None), ast.List) and not s.value.elts
                 for t in ([s.target] if isinstance(s, ast.AnnAssign) else s.targets) if isinstance(t, ast.Name)}
    ok = len(visits) == 2
    used = []
    for k in visits:
        c = k.args[1] if len(k.args) > 1 else None
        st = kwarg(c, 'stmts') if isinstance(c, ast.Call) else None
        ok = ok and isinstance(st, ast.Name) and st.id in own_lists
        used.append(st.id if isinstance(st, ast.Name) else None)
    ctx.check(ok and len(set(used)) == 2, FRONT, lc, '_FPCore2FPy._loop_condition', 'the condition is visited twice, each time with a statement list of its own', f'visited with {used}')
    t = norm(lc, 6000)
    if ok and len(set(used)) == 2:
        pre, again = used
        rets = [norm(r.value) for r in walk_no_nested(lc) if isinstance(r, ast.Return)]
        ok2 = f'ctx.stmts.extend({pre})' in t and 'ctx.stmts.append(Assign(flag, None, cond_e, None))' in t and f'{again}.append(Assign(flag, None, cond_again, None))' in t \
            and f'(Var(flag, None), {again})' in rets and f'if not {pre}: return (cond_e, [])' in t.replace('\n', ' ')
        ctx.check(ok2, FRONT, lc, '_FPCore2FPy._loop_condition', 'first copy ahead of the loop, second copy returned for the end of the body, both assign the tested variable', f'returns {rets}')


RULES = [
    Rule('C12.W9', 'writer: an explicitly rounded constant of either sign is written as one literal of the same value', w9_rounded_literals, 7, 'T'),
    Rule('C12.W8', 'writer: a tensor length is emitted under an integer annotation, wherever it stands', w8_sizes_are_integers, 1, 'F'),
    Rule('C12.W7', 'while bundling: the tuple substitution reaches the condition only; the body reads its own variables', w7_bundle_substitution, 2, 'F'),
    Rule('C12.W6', 'writer: no variable reaches emission spelled like an FPCore constant', w6_reserved_names, 8, 'F,T'),
    Rule('C12.W5', 'bundling: the variables a branch or loop changes are packed and unpacked in one order', w5_bundled_state, 3, 'F'),
    Rule('C12.W4', 'writer: the tensor a range lowers to lists the integers of the range (count and element formula, evaluated under the annotation semantics)', w4_ranges, 3, 'T'),
    Rule('C12.W3', 'writer: a comprehension over several iterables lists its elements outermost-first, reads its own iteration variable and binds the targets', w3_nested_comprehensions, 4, 'T,F'),
    Rule('C12.R4', 'reader: annotation values written by the compiler (plain strings) are read as they are', r4_property_values, 1, 'F'),
    Rule('C12.R3', 'reader: the statements a `while` condition needs run before every test, not once ahead of the loop', r3_loop_condition, 6, 'F,P'),
    Rule('C12.W2', 'writer: comparison chains keep their meaning (no n-ary !=); tuple positions are indexed outermost first; reader: n-ary != is not a chain', w2_comparisons_and_positions, 4, 'T,F'),
    Rule('C12.W1', 'writer: list reductions fold from element 0 in index order, accumulator on the left (the interpreter\'s order)', w1_list_reductions, 9, 'F'),
    Rule('C12.R2', 'reader: in a parallel binding form every bound value is read under the entry scope; only starred forms thread the bindings', r2_parallel_bindings, 6, 'F'),
    Rule('C12.F1', 'writer: a `!` annotation covers the body of its with-block only', f1_annotation_scope, 2, 'F'),
    Rule('C12.T1', 'writer and reader operator/constant tables name the same operations and are mutually inverse', t1_operator_tables, 150, 'T'),
    Rule('C12.T2', 'rounding-mode, overflow and precision tables; fixed-point field order; refusals of unnameable contexts', t2_context_tables, 35, 'T'),
    Rule('C12.R1', 'reader: annotation body under merged properties; properties kept in every derived context; literals rounded', r1_reader_scope, 25, 'F,P'),
    Rule('C12.X1', 'writer refuses bound contexts, dynamic contexts, non-trailing returns, effects', x1_refusals, 38, 'X'),
]

from ..selftest import Mutant  # noqa: E402

MUTANTS = [
    Mutant('negative-rounded-literals-folded-even-for-zero', BACK, "            case Neg(arg=Decnum() | Integer() | Rational() as lit) if lit.as_rational() > 0:", "            case Neg(arg=Decnum() | Integer() | Rational() as lit):", 'C12.W9',
           'round(-0.0) written as the literal -0.0, whose sign a reader need not keep'),
    Mutant('negative-rounded-literals-refused', BACK, "            case Neg(arg=Decnum() | Integer() | Rational() as lit) if lit.as_rational() > 0:", "            case Neg(arg=Decnum() | Integer() | Rational() as lit) if False:", 'C12.W9',
           'finding F143 before its repair: fp.round(-0.1) makes the writer refuse the program'),
    Mutant('plain-loop-target-not-renamed-with-the-body', 'fpy2/transform/for_bundling.py', "                    target: Id | TupleBinding = rename.get(stmt.target, stmt.target)\n", "                    target: Id | TupleBinding = stmt.target\n", 'C12.W5',
           'finding F142 before its repair: a loop target the body also assigns makes the writer fail'),
    Mutant('tensor-length-emitted-bare', BACK, "    return fpc.Ctx({ 'precision': 'integer' }, fpc.Size(arr, dim))\n", "    return fpc.Size(arr, dim)\n", 'C12.W8',
           'finding F138 before its repair: under bfloat16 a 257-element tensor has length 256'),
    Mutant('while-body-rewritten-with-the-tuple-substitution', 'fpy2/transform/while_bundling.py', "            body, _ = self._visit_block(stmt.body, ctx)\n            body = RenameTarget.apply_block(body, rename)", "            body, _ = self._visit_block(stmt.body, cond_ctx)\n            body = RenameTarget.apply_block(body, rename)", 'C12.W7',
           'seeded change C12f: i = i + 1; f = f * i reads the i of the start of the iteration, 5! = 0'),
    Mutant('variables-emitted-under-reserved-spellings', BACK, "    fd = IfBundling.apply(fd)\n    fd = _rename_reserved_names(fd)\n", "    fd = IfBundling.apply(fd)\n", 'C12.W6',
           'finding F115 before its repair: E = x / y; PI = E + y; return PI / E prints a core that evaluates to pi / e'),
    Mutant('captured-callees-renamed-too', BACK, "        (n for n in names if str(n) in reserved_constants and n not in fd.free_vars),", "        (n for n in names if str(n) in reserved_constants),", 'C12.W6',
           'a callee is referenced by name: renaming the reference names an operator that does not exist'),
    Mutant('renaming-keeps-the-capitals', BACK, "gensym.fresh(n.base.lower())", "gensym.fresh(n.base)", 'C12.W6',
           'E becomes E<k>, which is no constant either', expect='silent'),
    Mutant('renaming-runs-before-the-bundling-passes', BACK, "    fd = IfBundling.apply(fd)\n    fd = _rename_reserved_names(fd)\n    return fd", "    fd = _rename_reserved_names(fd)\n    fd = IfBundling.apply(fd)\n    return fd", 'C12.W6',
           'the bundling passes take the names they introduce from a generator', expect='silent'),
    Mutant('renaming-runs-before-captured-values-are-bound', BACK, "    fd = FreeVarElim.apply(fd)\n", "    fd = FreeVarElim.apply(_rename_reserved_names(fd))\n", 'C12.W6', expect='silent', why='renamed twice: still the last pass'),
    Mutant('renaming-only-before-captured-values-are-bound', BACK, "    fd = FreeVarElim.apply(fd)\n    fd = ConstFold.apply(fd, enable_op=False)\n    fd = ForUnpack.apply(fd)\n    fd = ForBundling.apply(fd)\n    fd = WhileBundling.apply(fd)\n    fd = IfBundling.apply(fd)\n    fd = _rename_reserved_names(fd)\n",
           "    fd = _rename_reserved_names(fd)\n    fd = FreeVarElim.apply(fd)\n    fd = ConstFold.apply(fd, enable_op=False)\n    fd = ForUnpack.apply(fd)\n    fd = ForBundling.apply(fd)\n    fd = WhileBundling.apply(fd)\n    fd = IfBundling.apply(fd)\n", 'C12.W6',
           'a captured module constant PI = 3.14159 is bound under its own spelling after the renaming'),
    Mutant('if-state-unpacked-in-sorted-order', 'fpy2/transform/if_bundling.py', "            s = Assign(TupleBinding(mutated + intros, None), None, Var(t, None), None)", "            s = Assign(TupleBinding(sorted(mutated + intros), None), None, Var(t, None), None)", 'C12.W5',
           'seeded change C12e: a mutated x and an introduced c come out swapped after the if'),
    Mutant('loop-state-unpacked-reversed', 'fpy2/transform/while_bundling.py', "            s = Assign(TupleBinding(mutated, None), None, Var(t, None), None)", "            s = Assign(TupleBinding(mutated[::-1], None), None, Var(t, None), None)", 'C12.W5'),
    Mutant('lone-round-property-dropped', FRONT, "        if any(k in props for k in ('precision', 'round', 'overflow')):", "        if 'precision' in props:", 'C12.R1',
           'finding F99 before its repair: (FPCore (x y) :round toPositive (/ x y)) read back rounding to nearest'),
    Mutant('range-count-quotient-rounded-to-an-integer', BACK, "                fpc.Ceil(fpc.Ctx({ 'precision': 'real' }, fpc.Div(fpc.Sub(stop_expr, start_expr), step_expr)))))],",
           "                fpc.Ceil(fpc.Div(fpc.Sub(stop_expr, start_expr), step_expr))))],", 'C12.W4', 'finding F82 before its repair: range(0, 5, 2) has two elements'),
    Mutant('range-count-floor', BACK, "                fpc.Ceil(fpc.Ctx({ 'precision': 'real' }, fpc.Div(", "                fpc.Floor(fpc.Ctx({ 'precision': 'real' }, fpc.Div(", 'C12.W4'),
    Mutant('range2-elements-from-zero', BACK, "            fpc.Ctx({ 'precision': 'integer' }, fpc.Add(fpc.Var(tuple_id), start_expr))\n", "            fpc.Var(tuple_id)\n", 'C12.W4'),
    Mutant('overflow-mode-of-a-float-format-dropped', FCTX, "                if ctx.overflow is not OV.OVERFLOW:", "                if False:", 'C12.T2',
           'finding F81 before its repair: FP16 with overflow=SATURATE compiled as binary16'),
    Mutant('random-bits-dropped', FCTX, "        if ctx.is_stochastic():\n            # FPCore has no property for random bits", "        if False:\n            # FPCore has no property for random bits", 'C12.T2'),
    Mutant('reader-unwraps-every-property', FRONT, "                    new_props[pythonize_id(k)] = self._visit_data(v.value) if isinstance(v, fpc.Data) else v", "                    new_props[pythonize_id(k)] = self._visit_data(v.value)", 'C12.R4',
           'finding F69 before its repair: Function.from_fpcore on the compiled core of sum(xs) raises AttributeError'),
    Mutant('comprehension-index-reads-a-fixed-name', BACK, "                    idx_expr = fpc.Ctx(idx_ctx, fpc.Div(fpc.Var(iter_id), mul_expr))", "                    idx_expr = fpc.Ctx(idx_ctx, fpc.Div(fpc.Var('k'), mul_expr))", 'C12.W3',
           'finding F68 before its repair: a program variable `k` is used as the flat position'),
    Mutant('comprehension-middle-index-over-all-later-sizes', BACK, "                    mul_expr = _nary_mul([fpc.Var(id) for id in size_ids[i + 1:]])", "                    mul_expr = _nary_mul([fpc.Var(id) for id in size_ids[1:]])", 'C12.W3',
           'finding F68 before its repair: wrong middle index for three or more iterables'),
    Mutant('comprehension-elements-bound-to-fresh-names', BACK, "                        ref_bind = (str(target), fpc.Ref(fpc.Var(tid), fpc.Var(iid)))", "                        ref_bind = (str(self.gensym.refresh(target)), fpc.Ref(fpc.Var(tid), fpc.Var(iid)))", 'C12.W3',
           'finding F68 before its repair: the element expression reads an unbound name'),
    Mutant('comprehension-innermost-first', BACK, "                    idx_expr = fpc.Ctx(idx_ctx, fpc.Fmod(fpc.Var(iter_id), fpc.Var(size_ids[i])))", "                    idx_expr = fpc.Ctx(idx_ctx, fpc.Div(fpc.Var(iter_id), _nary_mul([fpc.Var(id) for id in size_ids[:i]])))", 'C12.W3'),
    Mutant('while-condition-statements-hoisted', FRONT, "        # compile condition\n        stmts: list[Stmt] = []\n        cond_e, recheck = self._loop_condition(e.cond, env, ctx, stmts)\n\n        # create loop body\n        loop_env = dict(env)",
           "        stmts: list[Stmt] = []\n        recheck: list[Stmt] = []\n        cond_e = self._visit(e.cond, _Ctx(env=env, props=ctx.props, stmts=ctx.stmts))\n\n        # create loop body\n        loop_env = dict(env)", 'C12.R3',
           'finding F51 before its repair'),
    Mutant('loop-recheck-dropped', FRONT, "            stmts.append(stmt)\n        stmts.extend(recheck)\n\n        # append while statement", "            stmts.append(stmt)\n\n        # append while statement", 'C12.R3', count=2, nth=0),
    Mutant('loop-recheck-not-assigned', FRONT, "        again.append(Assign(flag, None, cond_again, None))\n", "", 'C12.R3'),
    Mutant('loop-condition-second-visit-shares-the-list', FRONT, "        cond_again = self._visit(cond, _Ctx(env=env, props=ctx.props, stmts=again))", "        cond_again = self._visit(cond, _Ctx(env=env, props=ctx.props, stmts=pre))", 'C12.R3'),
    Mutant('chain-of-ne-goes-n-ary', BACK, "                    if op == prev_op and op is not CompareOp.NE:", "                    if op == prev_op:", 'C12.W2',
           'finding F50 before its repair: x != y != z is True for (1, 2, 1) and the core says False'),
    Mutant('chain-loses-a-link', BACK, "                        groups.append((op, [prev_args[-1], rhs]))", "                        groups.append((op, [prev_args[0], rhs]))", 'C12.W2'),
    Mutant('reader-n-ary-ne-is-a-chain', FRONT, "                if len(exprs) == 2:\n                    return Compare([CompareOp.NE], exprs, None)", "                if len(exprs) >= 2:\n                    return Compare([CompareOp.NE for _ in exprs[1:]], exprs, None)", 'C12.W2'),
    Mutant('tuple-field-indexed-innermost-first', BACK, "                    idxs = [*pos, fpc.Integer(i)]\n                    tuple_bind =", "                    idxs = [fpc.Integer(i), *pos]\n                    tuple_bind =", 'C12.W2',
           'finding F49 before its repair: [a - b for a, b in zip(xs, ys)] reads (ref t 0 i)'),
    Mutant('reduction-seeded-with-the-last-element', BACK, "                    fpc.Ref(fpc.Var(tuple_id), fpc.Integer(0)),\n                    combine(fpc.Var(accum_id), fpc.Ref(fpc.Var(tuple_id), next_idx))",
           "                    fpc.Ref(fpc.Var(tuple_id), fpc.Ctx(idx_ctx, fpc.Sub(_size0_expr(tuple_id), fpc.Integer(1)))),\n                    combine(fpc.Var(accum_id), fpc.Ref(fpc.Var(tuple_id), fpc.Var(iter_id)))", 'C12.W1',
           'seeded change C12c: sum([1e16, 1, -1e16, 1]) is 0 in the compiled core'),
    Mutant('reduction-accumulator-on-the-right', BACK, "                    combine(fpc.Var(accum_id), fpc.Ref(fpc.Var(tuple_id), next_idx))", "                    combine(fpc.Ref(fpc.Var(tuple_id), next_idx), fpc.Var(accum_id))", 'C12.W1',
           'minimum / maximum of a signed zero pair and NaN payload order depend on the operand order'),
    Mutant('reduction-index-rounded', BACK, "        next_idx = fpc.Ctx(idx_ctx, fpc.Add(fpc.Var(iter_id), fpc.Integer(1)))", "        next_idx = fpc.Add(fpc.Var(iter_id), fpc.Integer(1))", 'C12.W1'),
    Mutant('reduction-one-trip-short', BACK, "                [(iter_id, fpc.Ctx(idx_ctx, fpc.Sub(_size0_expr(tuple_id), fpc.Integer(1))))],\n                [(\n                    accum_id,\n                    fpc.Ref(fpc.Var(tuple_id), fpc.Integer(0)),",
           "                [(iter_id, fpc.Ctx(idx_ctx, fpc.Sub(_size0_expr(tuple_id), fpc.Integer(2))))],\n                [(\n                    accum_id,\n                    fpc.Ref(fpc.Var(tuple_id), fpc.Integer(0)),", 'C12.W1'),
    Mutant('amin-folds-with-maximum', BACK, "        return self._visit_list_reduce(arg, self._fpc_minimum, ctx)", "        return self._visit_list_reduce(arg, self._fpc_maximum, ctx)", 'C12.W1'),
    Mutant('reduction-index-commuted', BACK, "        next_idx = fpc.Ctx(idx_ctx, fpc.Add(fpc.Var(iter_id), fpc.Integer(1)))", "        next_idx = fpc.Ctx(idx_ctx, fpc.Add(fpc.Integer(1), fpc.Var(iter_id)))", 'C12.W1', 'the same index', expect='silent'),
    Mutant('let-read-as-let-star', FRONT, "            val_ctx = _Ctx(env=env, props=ctx.props, stmts=ctx.stmts) if is_star else ctx", "            val_ctx = _Ctx(env=env, props=ctx.props, stmts=ctx.stmts)", 'C12.R2', 'seeded change C12b'),
    Mutant('for-inits-read-sequentially', FRONT, "            init_ctx = _Ctx(init_env if is_star else ctx.env, props=ctx.props, stmts=ctx.stmts)", "            init_ctx = _Ctx(init_env, props=ctx.props, stmts=ctx.stmts)", 'C12.R2'),
    Mutant('continuation-annotated-with-function-context', BACK, "            ctx = fpc.Ctx(dict(self._enclosing_props[-1]), ctx)", "            ctx = fpc.Ctx(dict(self._enclosing_props[0]), ctx)", 'C12.F1',
           'seeded change C12a: inside a nested `with`, what follows the inner block runs under the function\'s context'),
    Mutant('enclosing-props-never-popped', BACK, "        finally:\n            self._enclosing_props.pop()\n        return fpc.Ctx(props, body)", "        finally:\n            pass\n        return fpc.Ctx(props, body)", 'C12.F1'),
    Mutant('continuation-inside-annotation', BACK, "        if ctx is not None:\n            ctx = fpc.Ctx(dict(self._enclosing_props[-1]), ctx)\n", "", 'C12.F1',
           'the defect repaired by the fix: commit: statements after a with-block evaluated under its precision'),
    Mutant('continuation-wrapped-only-sometimes', BACK, "        if ctx is not None:\n            ctx = fpc.Ctx(dict(self._enclosing_props[-1]), ctx)\n",
           "        if ctx is not None and len(self._enclosing_props) > 1:\n            ctx = fpc.Ctx(dict(self._enclosing_props[-1]), ctx)\n", 'C12.F1',
           'a path exists on which a non-None continuation reaches the body unwrapped'),
    Mutant('writer-floor-is-ceil', BACK, "            Floor: fpc.Floor,", "            Floor: fpc.Ceil,", 'C12.T1'),
    Mutant('reader-fmod-is-remainder', FRONT, "            'fmod': Fmod,", "            'fmod': Remainder,", 'C12.T1'),
    Mutant('reader-sub-is-add', FRONT, "            '-': Sub,", "            '-': Add,", 'C12.T1'),
    Mutant('writer-pi4-is-pi2', BACK, "            ConstPi_4: fpc.Constant('PI_4'),", "            ConstPi_4: fpc.Constant('PI_2'),", 'C12.T1'),
    Mutant('reader-true-is-false', FRONT, "            'TRUE': BoolVal(True, None),", "            'TRUE': BoolVal(False, None),", 'C12.T1'),
    Mutant('topositive-is-rtn', FCTX, "    'toPositive': RM.RTP,\n    'toNegative': RM.RTN,", "    'toPositive': RM.RTN,\n    'toNegative': RM.RTP,", 'C12.T2'),
    Mutant('clamp-is-wrap', FCTX, "    'clamp': OV.SATURATE,", "    'clamp': OV.WRAP,", 'C12.T2'),
    Mutant('binary32-written-as-16', FCTX, "                    case (8, 32):\n                        return FPCoreContext(precision='binary32', round=rm)", "                    case (8, 32):\n                        return FPCoreContext(precision='binary16', round=rm)", 'C12.T2'),
    Mutant('binary16-read-as-32', FCTX, "                    return FP16.with_params(rm=_round_mode_to_fpy(rnd))", "                    return FP32.with_params(rm=_round_mode_to_fpy(rnd))", 'C12.T2'),
    Mutant('fixed-fields-swapped', FCTX, "precision=['fixed', ctx.scale, ctx.nbits]", "precision=['fixed', ctx.nbits, ctx.scale]", 'C12.T2', 'the defect repaired by the fix: commit'),
    Mutant('round-mode-not-written', FCTX, "                        return FPCoreContext(precision='binary64', round=rm)", "                        return FPCoreContext(precision='binary64')", 'C12.T2'),
    Mutant('unbounded-fixed-written', FCTX, "                    raise RuntimeError(f'Cannot convert to an FPCore context {ctx}')\n            case FixedContext():", "                    return FPCoreContext(n=ctx.nmin, round=rm)\n            case FixedContext():", 'C12.T2',
           'the defect repaired by the fix: commit'),
    Mutant('annotation-body-before-props', FRONT, "        val_ctx = ctx.without_stmts()\n        val_ctx.props = props\n        val = self._visit(e.body, val_ctx)", "        val_ctx = ctx.without_stmts()\n        val = self._visit(e.body, val_ctx)", 'C12.R1'),
    Mutant('without-stmts-drops-props', FRONT, "        ctx.props = dict(self.props)\n        return ctx", "        return ctx", 'C12.R1', 'the defect repaired by the fix: commit'),
    Mutant('while-update-drops-props', FRONT, "        update_ctx = _Ctx(env=env, props=ctx.props, stmts=stmts)\n        for var, _, update in e.while_bindings:\n            # compile value\n",
           "        update_ctx = _Ctx(env=env, stmts=stmts)\n        for var, _, update in e.while_bindings:\n            # compile value\n", 'C12.R1', 'the defect repaired by the fix: commit'),
    Mutant('function-props-aliased', FRONT, "        ctx.props = dict(props)", "        ctx.props = props", 'C12.R1'),
    Mutant('literal-not-rounded', FRONT, "        return _round(Decnum(str(e.value), None))", "        return Decnum(str(e.value), None)", 'C12.R1'),
    Mutant('bound-context-accepted', BACK, "        if isinstance(stmt.target, NamedId):\n            raise FPCoreCompileError('Context statements cannot bind to a variable', stmt.target)\n", "", 'C12.X1'),
    Mutant('early-return-accepted', BACK, "                raise FPCoreCompileError(\n                    'FPCore does not support multiple return statements'\n                )", "                continue", 'C12.X1'),
]
